--------------------------------- MODULE Format ---------------------------------
(* C15 — formatting never changes the program and is idempotent.                          *)
(*                                                                                         *)
(* Written from the property text and from docs/specs/10-runtime.md §7.5 ("token-based     *)
(* spacing normalization", "VAR block `:` alignment", "assignment alignment", "line        *)
(* wrapping at commas honors maxLineLength", "block comment lines are left unchanged; line *)
(* comments and pragma lines preserve inline spacing", "line endings are preserved",       *)
(* "range formatting expands to the nearest syntactic block"), shaped like the code:       *)
(*                                                                                         *)
(*   SplitLines    lex the text, hand every token to the line it starts on, classify lines *)
(*   EmitLines     re-emit the tokens of a line (keyword case, glue / space), indentation  *)
(*   Wrap          split over-long lines after commas                                      *)
(*   AlignColons   VAR block `:` alignment                                                  *)
(*   AlignAssign   `:=` / `=>` alignment                                                    *)
(*   MakeEdits     FormatDoc | FormatRange(a, b) | FormatOnType(p): the text edits         *)
(*   ApplyEdits    the editor applies them                                                 *)
(* (the reference aligns AFTER wrapping, on tokens and never by searching the rendered     *)
(* text, and indents a line that follows a trailing comma as a continuation: that is what  *)
(* makes a second pass find the lines, groups and columns of the first one again)          *)
(*                                                                                         *)
(* Part 1 is the CONTRACT as pure operators on observable data (what a lexer returns for   *)
(* the text before and after, and the edits).  The design-level model (MCFormat) checks it *)
(* on a reference formatter over a character-level lexical model of the language; the      *)
(* trace specification (FormatTrace) checks the very same operators on what the real       *)
(* language server / web IDE returned, lexed by the real lexer.                            *)
(* Parts 2-4 are the lexical model, the reference formatter (one operator per phase) and   *)
(* its state machine.  Nothing in parts 2-4 is compared with the real formatter's layout:  *)
(* the property is about what every layout must preserve.                                  *)
EXTENDS Integers, Sequences, FiniteSets, SequencesExt, TLC

(* ==================================================================================== *)
(* 1. Contract                                                                            *)
(*   observed text   [dg, nt, cm, ln, ld]                                                 *)
(*       dg   identity of the text (the text itself, or a digest of it)                   *)
(*       nt   the text of its non-trivia tokens in order (the text of a keyword case-      *)
(*            folded by whoever projects it; white space next to a line break inside a     *)
(*            token that spans lines, and at the end of a lexer error token, is not part   *)
(*            of the comparison)                                                            *)
(*       cm   its comments and pragmas in order (text; white space next to a line break   *)
(*            inside a comment and at its end is not part of the comparison)              *)
(*       ln   per line <<number of nt entries, number of cm entries>> that START on it    *)
(*       ld   per line an identity of its text (the text, or a digest of it)              *)
(*   observed edit   [ls, le, cut, nf, nl, cf, cl, nt, cm, ld, ldx]                       *)
(*       ls, le   first / last line (0-based) of the text the edit replaces               *)
(*       cut      one of its ends lies inside a token                                      *)
(*       nf, nl   the replaced text holds nt[nf..nl] of the document (cf, cl: cm[cf..cl]) *)
(*       nt, cm   tokens / comments of the new text; ld an identity of each of its lines   *)
(* ==================================================================================== *)
\* the formatted text is the same program
ProgramWhy(before, after) ==
     (IF after.nt = before.nt THEN {} ELSE {"tokens"})
  \cup (IF after.cm = before.cm THEN {} ELSE {"comments"})
\* formatting an already formatted text changes nothing
IdempotenceWhy(first, second) == IF second.dg = first.dg THEN {} ELSE {"idempotence"}
\* an edit only re-lays-out the lines it covers: its new text holds exactly the tokens and
\* comments of the text it replaces (not judged when an end of the edit cuts a token: the
\* pieces cannot be lexed on their own; the whole-text comparison still applies)
EditWhy(doc, e) ==
  IF e.cut \/ (e.nt = SubSeq(doc.nt, e.nf, e.nl) /\ e.cm = SubSeq(doc.cm, e.cf, e.cl)) THEN {} ELSE {"confinement"}
EditsWhy(doc, edits) == UNION {EditWhy(doc, edits[i]) : i \in 1..Len(edits)}
\* position of the first difference of two sequences (0 = equal)
FirstDiff(s, t) ==
  LET n == IF Len(s) < Len(t) THEN Len(s) ELSE Len(t)
      d == {i \in 1..n : s[i] # t[i]}
  IN IF d # {} THEN CHOOSE i \in d : \A j \in d : i <= j ELSE IF Len(s) = Len(t) THEN 0 ELSE n + 1

(* ---- named deviations (recorded findings; never enabled in the design-level model)     *)
\* RangeFormatByLineIndex: the new text of the edit is, line by line, the lines ls..le of the
\* FORMATTED document counted by index, although wrapping gave the formatted document more
\* lines than the source (ld = per line an identity of its text)
\* (ldx: the same with the empty piece after a final line terminator counted as a line -
\* the last of the lines taken may itself be an empty one)
ByLineIndex(formatted, e) ==
  /\ e.le + 1 <= Len(formatted.ld)
  /\ SubSeq(formatted.ld, e.ls + 1, e.le + 1) \in {e.ld, e.ldx}

(* ==================================================================================== *)
(* 2. Lexical model (IEC 61131-3 Ed.3 6.1-6.3, tables 1-9): a text is a sequence of       *)
(* characters (strings of length one); tokens are found by maximal munch.                 *)
(* ==================================================================================== *)
LowerSeq == <<"a","b","c","d","e","f","g","h","i","j","k","l","m","n","o","p","q","r","s","t","u","v","w","x","y","z">>
UpperSeq == <<"A","B","C","D","E","F","G","H","I","J","K","L","M","N","O","P","Q","R","S","T","U","V","W","X","Y","Z">>
LowerSet == {LowerSeq[i] : i \in 1..26}
UpperSet == {UpperSeq[i] : i \in 1..26}
ToUpper == [c \in LowerSet |-> UpperSeq[CHOOSE i \in 1..26 : LowerSeq[i] = c]]
ToLower == [c \in UpperSet |-> LowerSeq[CHOOSE i \in 1..26 : UpperSeq[i] = c]]
Up(c) == IF c \in LowerSet THEN ToUpper[c] ELSE c
Lo(c) == IF c \in UpperSet THEN ToLower[c] ELSE c
UpSeq(s) == [i \in 1..Len(s) |-> Up(s[i])]
LoSeq(s) == [i \in 1..Len(s) |-> Lo(s[i])]
Letter == LowerSet \cup UpperSet \cup {"_"}
Digit == {"0","1","2","3","4","5","6","7","8","9"}
HexDigit == Digit \cup {"A","B","C","D","E","F","a","b","c","d","e","f"}
WS == {" ", "\t", "\r", "\n"}
SetMin(S) == CHOOSE x \in S : \A y \in S : x <= y
SetMax(S) == CHOOSE x \in S : \A y \in S : x >= y
AllIn(s, S) == \A i \in 1..Len(s) : s[i] \in S
Count(s, c) == Cardinality({i \in 1..Len(s) : s[i] = c})

Keywords == { <<"I","F">>, <<"T","H","E","N">>, <<"E","L","S","E">>, <<"E","N","D","_","I","F">>, <<"V","A","R">>,
              <<"E","N","D","_","V","A","R">>, <<"M","O","D">>, <<"N","O","T">>, <<"A","T">> }
Punct1 == (";" :> "Semicolon") @@ (":" :> "Colon") @@ ("," :> "Comma") @@ ("." :> "Dot") @@ ("(" :> "LParen")
       @@ (")" :> "RParen") @@ ("[" :> "LBracket") @@ ("]" :> "RBracket") @@ ("#" :> "Hash") @@ ("^" :> "Caret")
       @@ ("@" :> "At") @@ ("=" :> "Eq") @@ ("<" :> "Lt") @@ (">" :> "Gt") @@ ("+" :> "Plus") @@ ("-" :> "Minus")
       @@ ("*" :> "Star") @@ ("/" :> "Slash") @@ ("&" :> "Ampersand")
Punct2 == (<<":","=">> :> "Assign") @@ (<<"=",">">> :> "Arrow") @@ (<<"?","=">> :> "RefAssign") @@ (<<"<",">">> :> "Neq")
       @@ (<<"<","=">> :> "LtEq") @@ (<<">","=">> :> "GtEq") @@ (<<"*","*">> :> "Power") @@ (<<".",".">> :> "DotDot")

IsWord(s) == Len(s) >= 1 /\ s[1] \in Letter /\ AllIn(s, Letter \cup Digit)
IsDigits(s) == Len(s) >= 1 /\ AllIn(s, Digit)
IsBased(s) == \/ Len(s) >= 4 /\ s[1] = "1" /\ s[2] = "6" /\ s[3] = "#" /\ AllIn(SubSeq(s, 4, Len(s)), HexDigit)
              \/ Len(s) >= 3 /\ s[1] = "2" /\ s[2] = "#" /\ AllIn(SubSeq(s, 3, Len(s)), {"0", "1"})
IsReal(s) == \E k \in 2..(Len(s) - 1) : s[k] = "." /\ IsDigits(SubSeq(s, 1, k - 1)) /\ IsDigits(SubSeq(s, k + 1, Len(s)))
IsTime(s) == LET n == Len(s) IN
  /\ n >= 4 /\ Up(s[1]) = "T" /\ s[2] = "#"
  /\ \/ Up(s[n]) \in {"S", "M", "H", "D"} /\ IsDigits(SubSeq(s, 3, n - 1))
     \/ n >= 5 /\ Up(s[n]) = "S" /\ Up(s[n - 1]) = "M" /\ IsDigits(SubSeq(s, 3, n - 2))
Shaped(s, from, shape) == \A i \in 1..Len(shape) : IF shape[i] = "9" THEN s[from + i - 1] \in Digit ELSE s[from + i - 1] = shape[i]
IsDate(s) == Len(s) = 12 /\ Up(s[1]) = "D" /\ s[2] = "#" /\ Shaped(s, 3, <<"9","9","9","9","-","9","9","-","9","9">>)
IsTod(s) == Len(s) = 12 /\ UpSeq(SubSeq(s, 1, 3)) = <<"T","O","D">> /\ s[4] = "#" /\ Shaped(s, 5, <<"9","9",":","9","9",":","9","9">>)
DotDigits(r) == /\ Len(r) >= 1 /\ r[1] \in Digit /\ r[Len(r)] \in Digit /\ AllIn(r, Digit \cup {"."})
                /\ \A i \in 1..(Len(r) - 1) : ~(r[i] = "." /\ r[i + 1] = ".")
IsAddr(s) == /\ Len(s) >= 3 /\ s[1] = "%" /\ s[2] \in {"I", "Q", "M"}
             /\ DotDigits(IF s[3] \in {"X", "B", "W", "D", "L"} THEN SubSeq(s, 4, Len(s)) ELSE SubSeq(s, 3, Len(s)))
\* kind of the character sequence s as one undelimited token, "none" if it is not one
Recog(s) ==
  LET n == Len(s) IN
  IF n = 1 /\ s[1] \in DOMAIN Punct1 THEN Punct1[s[1]]
  ELSE IF n = 2 /\ s \in DOMAIN Punct2 THEN Punct2[s]
  ELSE IF IsWord(s) THEN (IF UpSeq(s) \in Keywords THEN "Kw" ELSE "Ident")
  ELSE IF n >= 2 /\ s[n] = "#" /\ IsWord(SubSeq(s, 1, n - 1)) THEN "TypedLiteralPrefix"
  ELSE IF IsDigits(s) \/ IsBased(s) THEN "IntLiteral"
  ELSE IF IsReal(s) THEN "RealLiteral"
  ELSE IF IsTime(s) THEN "TimeLiteral"
  ELSE IF IsDate(s) THEN "DateLiteral"
  ELSE IF IsTod(s) THEN "TimeOfDayLiteral"
  ELSE IF IsAddr(s) THEN "DirectAddress"
  ELSE "none"
MaxPlain == 12     \* longest undelimited token of the model (TOD#12:30:00, D#2024-01-15)

\* first position q >= from with t[q] = a and t[q + 1] = b, 0 if there is none
Find2(t, from, a, b) == LET S == {q \in from..(Len(t) - 1) : t[q] = a /\ t[q + 1] = b} IN IF S = {} THEN 0 ELSE SetMin(S)
\* first position q >= from with t[q] \in S, 0 if there is none
Find1(t, from, S) == LET Q == {q \in from..Len(t) : t[q] \in S} IN IF Q = {} THEN 0 ELSE SetMin(Q)
\* kind and length of the token that starts at position p of text t
TokenAt(t, p) ==
  LET N == Len(t)
      c == t[p]
      d == IF p < N THEN t[p + 1] ELSE ""
      tok(k, len) == [k |-> k, len |-> len]
      block(a, b) == LET q == Find2(t, p + 2, a, b) IN IF q = 0 THEN tok("Error", N - p + 1) ELSE tok("BlockComment", q + 2 - p)
  IN IF c \in WS THEN LET q == Find1(t, p, {x \in {t[i] : i \in p..N} : x \notin WS}) IN tok("Whitespace", IF q = 0 THEN N - p + 1 ELSE q - p)
     ELSE IF c = "(" /\ d = "*" THEN block("*", ")")
     ELSE IF c = "/" /\ d = "*" THEN block("*", "/")
     ELSE IF c = "/" /\ d = "/" THEN LET q == Find1(t, p, {"\n", "\r"}) IN tok("LineComment", IF q = 0 THEN N - p + 1 ELSE q - p)
     ELSE IF c = "{" THEN LET q == Find1(t, p + 1, {"}"}) IN IF q = 0 THEN tok("Error", 1) ELSE tok("Pragma", q + 1 - p)
     ELSE IF c = "'" THEN LET q == Find1(t, p + 1, {"'", "\n", "\r"}) IN IF q # 0 /\ t[q] = "'" THEN tok("StringLiteral", q + 1 - p) ELSE tok("Error", 1)
     ELSE LET m == IF N - p + 1 < MaxPlain THEN N - p + 1 ELSE MaxPlain
              cand == {n \in 1..m : Recog(SubSeq(t, p, p + n - 1)) # "none"}
          IN IF cand = {} THEN tok("Error", 1) ELSE LET n == SetMax(cand) IN tok(Recog(SubSeq(t, p, p + n - 1)), n)
\* the tokens of a text: [k kind, t characters, ln line (1-based) the token starts on]
RECURSIVE LexFrom(_, _, _, _)
LexFrom(t, p, ln, acc) ==
  IF p > Len(t) THEN acc
  ELSE LET x == TokenAt(t, p)
           piece == SubSeq(t, p, p + x.len - 1)
       IN LexFrom(t, p + x.len, ln + Count(piece, "\n"), Append(acc, [k |-> x.k, t |-> piece, ln |-> ln]))
Lex(t) == LexFrom(t, 1, 1, <<>>)

IsSpace(x) == x.k = "Whitespace"
IsComment(x) == x.k \in {"LineComment", "BlockComment", "Pragma"}
IsCode(x) == ~IsSpace(x) /\ ~IsComment(x)
\* comment text without the white space next to its line breaks and at its end
CmNorm(t) ==
  LET n == Len(t)
      lo(i) == SetMin({j \in 1..i : \A m \in j..i : t[m] \in WS})
      hi(i) == SetMax({j \in i..n : \A m \in i..j : t[m] \in WS})
      keep(i) == IF t[i] \notin WS THEN <<t[i]>>
                 ELSE IF hi(i) = n THEN <<>>
                 ELSE IF \E m \in lo(i)..hi(i) : t[m] = "\n" THEN (IF i = lo(i) THEN <<"\n">> ELSE <<>>)
                 ELSE <<t[i]>>
  IN FoldLeft(LAMBDA acc, i : acc \o keep(i), <<>>, [i \in 1..n |-> i])
\* a token as the contract compares it: its text; keywords case-folded; a token that spans
\* lines (an unterminated comment) and a lexer error token (it may run to the end of its line
\* and take the blanks there with it) without the white space next to line breaks and at the end
NormToken(x) == IF x.k = "Kw" THEN UpSeq(x.t)
                ELSE IF x.k = "Error" \/ Count(x.t, "\n") > 0 THEN CmNorm(x.t) ELSE x.t
LineCount(t) == 1 + Count(t, "\n")
NlPositions(t) == SelectSeq([i \in 1..Len(t) |-> i], LAMBDA i : t[i] = "\n")
\* the lines of a text: [raw characters without terminator, eol terminator]
TextLines(t) ==
  LET nl == NlPositions(t)
      n == Len(nl) + 1
      from(i) == IF i = 1 THEN 1 ELSE nl[i - 1] + 1
      to(i) == IF i = n THEN Len(t) ELSE nl[i] - 1
      cr(i) == i < n /\ to(i) >= from(i) /\ t[to(i)] = "\r"
  IN [i \in 1..n |-> [raw |-> SubSeq(t, from(i), IF cr(i) THEN to(i) - 1 ELSE to(i)),
                      eol |-> IF i = n THEN <<>> ELSE IF cr(i) THEN <<"\r", "\n">> ELSE <<"\n">>]]
\* what the contract observes of a text
Observe(t) ==
  LET toks == Lex(t)
      code == SelectSeq(toks, IsCode)
      cms == SelectSeq(toks, IsComment)
      tl == TextLines(t)
  IN [dg |-> t,
      nt |-> [i \in 1..Len(code) |-> NormToken(code[i])],
      cm |-> [i \in 1..Len(cms) |-> CmNorm(cms[i].t)],
      ln |-> [l \in 1..LineCount(t) |-> <<Cardinality({i \in 1..Len(code) : code[i].ln = l}), Cardinality({i \in 1..Len(cms) : cms[i].ln = l})>>],
      ld |-> [l \in 1..Len(tl) |-> tl[l].raw]]

(* ==================================================================================== *)
(* 3. Reference formatter.  Configuration:                                                *)
(*   [style "spaced"|"compact", kwcase "preserve"|"upper"|"lower", width, tabs,           *)
(*    ends "aligned"|"indented", alignColons, alignAssign, max (0 = no wrapping),         *)
(*    byIndex (the deviation RangeFormatByLineIndex), blindGlue (glue wherever the style  *)
(*    wants it, whatever the glued text reads as); both FALSE in the design]              *)
(* A line:  [mode "keep"|"blank"|"trim"|"emit", raw, eol, origin, ind, extra, invar,      *)
(*           items <<[gap, k, t]>>]                                                       *)
(* ==================================================================================== *)
Trim(s) == LET S == {i \in 1..Len(s) : s[i] \notin WS} IN IF S = {} THEN <<>> ELSE SubSeq(s, SetMin(S), SetMax(S))
Openers == { <<"I","F">>, <<"V","A","R">>, <<"E","L","S","E">> }
Closers == { <<"E","N","D","_","I","F">>, <<"E","N","D","_","V","A","R">>, <<"E","L","S","E">> }
EndKeywords == { <<"E","N","D","_","I","F">>, <<"E","N","D","_","V","A","R">> }
KwIn(x, S) == x.k = "Kw" /\ UpSeq(x.t) \in S

\* ---- phase SplitLines
SplitLines(t) ==
  LET toks == Lex(t)
      tl == TextLines(t)
      multi(x) == ~IsSpace(x) /\ Count(x.t, "\n") > 0
      covered(i) == \E j \in 1..Len(toks) : multi(toks[j]) /\ toks[j].ln <= i /\ i <= toks[j].ln + Count(toks[j].t, "\n")
      code(i) == SelectSeq(toks, LAMBDA x : IsCode(x) /\ x.ln = i)
      hasCm(i) == \E j \in 1..Len(toks) : IsComment(toks[j]) /\ toks[j].ln = i
      mode(i) == IF covered(i) THEN "keep" ELSE IF Trim(tl[i].raw) = <<>> THEN "blank" ELSE IF hasCm(i) THEN "trim" ELSE "emit"
  IN [i \in 1..Len(tl) |-> [mode |-> mode(i), raw |-> tl[i].raw, eol |-> tl[i].eol, origin |-> i, ind |-> 0, extra |-> 0,
                            invar |-> FALSE, items |-> [j \in 1..Len(code(i)) |-> [gap |-> 0, k |-> code(i)[j].k, t |-> code(i)[j].t]]]]

\* ---- phase EmitLines: keyword case, glue or space between neighbours, indentation
Symbolic == {"Assign", "Arrow", "RefAssign", "Eq", "Neq", "Lt", "LtEq", "Gt", "GtEq", "Plus", "Minus", "Star", "Slash", "Power", "Ampersand"}
\* the spacing style: where the layout wants no blank between two tokens
WantGlue(p, c, style) ==
  \/ style = "compact" /\ (p \in Symbolic \/ c \in Symbolic \/ p \in {"Comma", "Semicolon", "Colon"})
  \/ p \in {"LParen", "LBracket", "Dot", "DotDot", "Hash", "Caret", "At", "TypedLiteralPrefix"}
  \/ c \in {"RParen", "RBracket", "Comma", "Semicolon", "Dot", "DotDot", "Hash", "Caret", "At", "Colon"}
  \/ c \in {"LParen", "LBracket"} /\ p = "Ident"
\* ... and where it may not have its way: the glued run must still be read as the same tokens
KindsTexts(toks) == [i \in 1..Len(toks) |-> <<toks[i].k, toks[i].t>>]
GlueSafe(run, x) == KindsTexts(Lex(FoldLeft(LAMBDA a, y : a \o y.t, <<>>, Append(run, x)))) = KindsTexts(Append(run, x))
Cased(x, kwcase) == IF x.k # "Kw" \/ kwcase = "preserve" THEN x ELSE [x EXCEPT !.t = IF kwcase = "upper" THEN UpSeq(x.t) ELSE LoSeq(x.t)]
EmitItems(items, c) ==
  FoldLeft(LAMBDA acc, x0 :
             LET x == Cased(x0, c.kwcase) IN
             IF acc.items = <<>> THEN [items |-> <<x>>, run |-> <<x>>]
             ELSE IF WantGlue(acc.run[Len(acc.run)].k, x.k, c.style) /\ (c.blindGlue \/ GlueSafe(acc.run, x))
                  THEN [items |-> Append(acc.items, x), run |-> Append(acc.run, x)]
                  ELSE [items |-> Append(acc.items, [x EXCEPT !.gap = 1]), run |-> <<x>>],
           [items |-> <<>>, run |-> <<>>], items).items
\* block structure: indentation before the line, level after it, VAR block membership
Step(st, line, c) ==
  IF line.mode \in {"keep", "blank"} \/ line.items = <<>> THEN [st EXCEPT !.out = Append(st.out, [line EXCEPT !.ind = st.level]), !.prevComma = FALSE]
  ELSE LET its == line.items
           first == its[1]
           closes == KwIn(first, Closers)
           dedentNow == closes /\ (c.ends = "aligned" \/ ~KwIn(first, EndKeywords))
           cur == IF dedentNow /\ st.level > 0 THEN st.level - 1 ELSE st.level
           opens == \E j \in 1..Len(its) : KwIn(its[j], Openers)
           nxt0 == IF opens THEN cur + 1 ELSE cur
           nxt == IF closes /\ ~dedentNow /\ nxt0 > 0 THEN nxt0 - 1 ELSE nxt0
           varStart == \E j \in 1..Len(its) : KwIn(its[j], { <<"V","A","R">> })
           varEnd == \E j \in 1..Len(its) : KwIn(its[j], { <<"E","N","D","_","V","A","R">> })
           cont == line.mode = "emit" /\ st.prevComma
           emitted == IF line.mode = "emit" THEN EmitItems(its, c) ELSE its
       IN [level |-> nxt, invar |-> (st.invar \/ varStart) /\ ~varEnd,
           prevComma |-> line.mode = "emit" /\ its[Len(its)].k = "Comma",
           out |-> Append(st.out, [line EXCEPT !.ind = cur, !.extra = IF cont THEN 1 ELSE 0,
                                               !.invar = st.invar /\ ~varEnd /\ ~varStart, !.items = emitted])]
EmitLines(lines, c) == FoldLeft(LAMBDA st, line : Step(st, line, c), [level |-> 0, invar |-> FALSE, prevComma |-> FALSE, out |-> <<>>], lines).out

\* ---- rendering
Rep(s, n) == FoldLeft(LAMBDA a, i : a \o s, <<>>, [i \in 1..n |-> i])
IndentOf(line, c) == Rep(IF c.tabs THEN <<"\t">> ELSE Rep(<<" ">>, c.width), line.ind + line.extra)
ItemsText(items, upto) == FoldLeft(LAMBDA a, j : a \o (IF j = 1 THEN <<>> ELSE Rep(<<" ">>, items[j].gap)) \o items[j].t, <<>>, [j \in 1..upto |-> j])
Render(line, c) ==
  CASE line.mode = "keep" -> line.raw
    [] line.mode = "blank" -> <<>>
    [] line.mode = "trim" -> IndentOf(line, c) \o Trim(line.raw)
    [] line.mode = "emit" -> IndentOf(line, c) \o ItemsText(line.items, Len(line.items))
\* column at which item j of an emitted line starts
Column(line, c, j) == Len(IndentOf(line, c)) + Len(ItemsText(line.items, j)) - Len(line.items[j].t)
Join(lines, c) == FoldLeft(LAMBDA a, line : a \o Render(line, c) \o line.eol, <<>>, lines)

\* ---- phase Wrap: an emitted line longer than max is split after every comma; the pieces
\* keep the origin of the line (the source line they came from)
DocEol(lines) == IF \E i \in 1..Len(lines) : lines[i].eol = <<"\r", "\n">> THEN <<"\r", "\n">> ELSE <<"\n">>
Pieces(line, eol) ==
  LET its == line.items
      cuts == {j \in 1..(Len(its) - 1) : its[j].k = "Comma"}
      starts == {1} \cup {j + 1 : j \in cuts}
      ss == SetToSortSeq(starts, LAMBDA x, y : x < y)
      endOf(n) == IF n = Len(ss) THEN Len(its) ELSE ss[n + 1] - 1
  IN [n \in 1..Len(ss) |->
        [line EXCEPT !.items = [SubSeq(its, ss[n], endOf(n)) EXCEPT ![1].gap = 0],
                     !.extra = IF n = 1 THEN line.extra ELSE 1,
                     !.eol = IF n = Len(ss) THEN line.eol ELSE eol]]
WrapLines(lines, c) ==
  LET eol == DocEol(lines)
      wraps(line) == /\ c.max > 0 /\ line.mode = "emit" /\ Len(Render(line, c)) > c.max
                     /\ \E j \in 1..(Len(line.items) - 1) : line.items[j].k = "Comma"
  IN FoldLeft(LAMBDA a, line : IF wraps(line) THEN a \o Pieces(line, eol) ELSE Append(a, line), <<>>, lines)

\* ---- phases AlignColons / AlignAssign: blanks are added in front of a TOKEN, never at a
\* position found by searching the rendered text
FirstItem(line, K) == LET S == {j \in 1..Len(line.items) : line.items[j].k \in K} IN IF S = {} THEN 0 ELSE SetMin(S)
\* maximal runs of consecutive lines that satisfy member(i) and agree with their neighbour
Groups(lines, member(_), same(_, _)) ==
  LET n == Len(lines)
      startsRun(i) == member(i) /\ (i = 1 \/ ~member(i - 1) \/ ~same(i - 1, i))
      endOf(i) == SetMax({j \in i..n : \A m \in i..j : member(m) /\ (m = i \/ same(m - 1, m))})
  IN {<<i, endOf(i)>> : i \in {i \in 1..n : startsRun(i)}}
AlignOn(lines, c, K, member(_), same(_, _)) ==
  LET gs == Groups(lines, member, same)
      groupOf(i) == CHOOSE g \in gs : g[1] <= i /\ i <= g[2]
      col(i) == Column(lines[i], c, FirstItem(lines[i], K))
      target(i) == LET g == groupOf(i) IN SetMax({col(m) : m \in g[1]..g[2]})
  IN [i \in 1..Len(lines) |->
        IF member(i) /\ FirstItem(lines[i], K) > 1
        THEN [lines[i] EXCEPT !.items[FirstItem(lines[i], K)].gap = @ + target(i) - col(i)]
        ELSE lines[i]]
AlignColons(lines, c) ==
  IF ~c.alignColons THEN lines
  ELSE AlignOn(lines, c, {"Colon"}, LAMBDA i : lines[i].mode = "emit" /\ lines[i].invar /\ FirstItem(lines[i], {"Colon"}) # 0,
               LAMBDA i, j : TRUE)
AlignAssign(lines, c) ==
  IF ~c.alignAssign THEN lines
  ELSE AlignOn(lines, c, {"Assign", "Arrow"}, LAMBDA i : lines[i].mode = "emit" /\ FirstItem(lines[i], {"Assign", "Arrow"}) # 0,
               LAMBDA i, j : lines[i].ind = lines[j].ind /\ lines[i].extra = lines[j].extra)

\* ---- phase MakeEdits.  An edit replaces whole lines: [ls, le (1-based, inclusive), new]
\* requests: [op "full"] | [op "range", a, b] | [op "ontype", a] (lines, 1-based)
SourceLines(lines) == IF lines = <<>> THEN 0 ELSE lines[Len(lines)].origin
Selected(lines, a, b, c) ==
  IF c.byIndex THEN SubSeq(lines, a, IF b <= Len(lines) THEN b ELSE Len(lines))
  ELSE SelectSeq(lines, LAMBDA line : a <= line.origin /\ line.origin <= b)
MakeEdits(lines, r, c) ==
  LET a == IF r.op = "full" THEN 1 ELSE r.a
      b == IF r.op = "full" THEN SourceLines(lines) ELSE IF r.op = "ontype" THEN r.a ELSE r.b
  IN << [ls |-> a, le |-> b, new |-> Join(Selected(lines, a, b, c), c)] >>

\* ---- phase ApplyEdits (the editor's half): replace the lines ls..le of the text
ApplyEdit(t, e) ==
  LET nl == NlPositions(t)
      from == IF e.ls = 1 THEN 1 ELSE nl[e.ls - 1] + 1
      to == IF e.le > Len(nl) THEN Len(t) ELSE nl[e.le]
  IN SubSeq(t, 1, from - 1) \o e.new \o SubSeq(t, to + 1, Len(t))
\* the source text of the lines ls..le (with their terminators)
Covered(t, e) ==
  LET nl == NlPositions(t)
      from == IF e.ls = 1 THEN 1 ELSE nl[e.ls - 1] + 1
      to == IF e.le > Len(nl) THEN Len(t) ELSE nl[e.le]
  IN SubSeq(t, from, to)

(* ==================================================================================== *)
(* 4. State machine of one request                                                        *)
(* ==================================================================================== *)
VARIABLES
  cfg,      \* configuration (static per behaviour)
  src,      \* the document in the editor (static per behaviour)
  req,      \* the request
  pass,     \* 1, or 2 = the formatted document is being formatted again
  text,     \* the text this pass formats
  pc,       \* "split" | "emit" | "colons" | "assign" | "wrap" | "edits" | "apply" | "applied"
  lines,    \* the lines as the phases transform them
  edits,    \* the edits returned
  doc,      \* the document after ApplyEdits
  first     \* the result of pass 1 (<<>> before)
fvars == <<cfg, src, req, pass, text, pc, lines, edits, doc, first>>

FormatInit(t, c, r) ==
  /\ cfg = c /\ src = t /\ req = r /\ pass = 1 /\ text = t /\ pc = "split" /\ lines = <<>> /\ edits = <<>> /\ doc = <<>> /\ first = <<>>
Phase(from, to, newLines) == pc = from /\ pc' = to /\ lines' = newLines /\ UNCHANGED <<cfg, src, req, pass, text, edits, doc, first>>
DoSplitLines == Phase("split", "emit", SplitLines(text))
DoEmitLines == Phase("emit", "wrap", EmitLines(lines, cfg))
DoWrap == Phase("wrap", "colons", WrapLines(lines, cfg))
DoAlignColons == Phase("colons", "assign", AlignColons(lines, cfg))
DoAlignAssign == Phase("assign", "edits", AlignAssign(lines, cfg))
DoMakeEdits == /\ pc = "edits" /\ pc' = "apply" /\ edits' = MakeEdits(lines, req, cfg)
               /\ UNCHANGED <<cfg, src, req, pass, text, lines, doc, first>>
DoApplyEdits == /\ pc = "apply" /\ pc' = "applied" /\ doc' = ApplyEdit(text, edits[1])
                /\ UNCHANGED <<cfg, src, req, pass, text, lines, edits, first>>
\* FormatDoc once more, on the formatted document
DoAgain == /\ pc = "applied" /\ pass = 1 /\ req.op = "full"
           /\ pass' = 2 /\ text' = doc /\ first' = doc /\ pc' = "split" /\ lines' = <<>> /\ edits' = <<>> /\ doc' = <<>>
           /\ UNCHANGED <<cfg, src, req>>
FormatNext == DoSplitLines \/ DoEmitLines \/ DoWrap \/ DoAlignColons \/ DoAlignAssign \/ DoMakeEdits \/ DoApplyEdits \/ DoAgain
=================================================================================
