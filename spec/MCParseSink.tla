------------------------------- MODULE MCParseSink -------------------------------
(* Design-level model checking of ParseSink, and the script generator of C12.              *)
(*                                                                                         *)
(* Spec:    every token list of at most MaxToks tokens (each one trivia or not), every     *)
(*          event stream of at most MaxEvents events that the marker interface can         *)
(*          produce (nested nodes, forward-parent chains, bumps past the end, an error),   *)
(*          the sink's replay of it, one InsertTrivia at every boundary, the replay again. *)
(* GenSpec: the input space of the property as model actions — token soups over the        *)
(*          alphabet of lexical classes, corpus programs mutated by                        *)
(*          Delete | Duplicate | Swap | Truncate | Splice, and InsertTrivia positions;     *)
(*          every complete script is exported for the real lexer and parser.               *)
EXTENDS ParseSink, TLC, Json

CONSTANTS MaxToks, MaxEvents, WithStartNode, WithError,
          ExportScripts, MaxSoup, MaxOps, MaxIns, NFiles, Positions

(* ------------------------------------------------------------------------------ Spec *)
\* all token lists of exactly n tokens: trivia tokens are 2 bytes long, the others 1
EndOf(l) == IF l = <<>> THEN 0 ELSE l[Len(l)][3]
RECURSIVE Lists(_)
Lists(n) == IF n = 0 THEN { <<>> }
            ELSE { Append(l, IF tr THEN <<"w", EndOf(l), EndOf(l) + 2, 0, 1>> ELSE <<"x", EndOf(l), EndOf(l) + 1, 0, 0>>)
                   : l \in Lists(n - 1), tr \in BOOLEAN }
TokenLists == UNION { Lists(n) : n \in 0..MaxToks }

VARIABLES script, plan, glen
mvars == <<pvars, script, plan, glen>>
NoScript == [base |-> "none"]
GenIdle == UNCHANGED <<script, plan, glen>>

Init == toks \in TokenLists /\ ParserInit /\ script = NoScript /\ plan = "model" /\ glen = 0
Room == Len(events) < MaxEvents
\* one named disjunct per action, so that TLC's coverage shows which of them were taken
DoPStart == GenIdle /\ Room /\ PStart
DoPStartNode == GenIdle /\ Room /\ WithStartNode /\ PStartNode
DoPBump == GenIdle /\ Room /\ PBump
DoPComplete == GenIdle /\ Room /\ PComplete
DoPFinishNode == GenIdle /\ Room /\ PFinishNode
DoPPrecede == GenIdle /\ Room /\ PPrecede
DoPError == GenIdle /\ WithError /\ PError
DoPEnd == GenIdle /\ PEnd
DoStartNode == GenIdle /\ StartNode
DoToken == GenIdle /\ Token
DoFinishNode == GenIdle /\ FinishNode
DoHole == GenIdle /\ Hole
DoSinkEnd == GenIdle /\ SinkEnd
DoInsertTrivia == GenIdle /\ \E i \in 1..MaxToks, k \in {<<"w", 2>>, <<"c", 5>>} : InsertTrivia(i, k[1], k[2])
Next == DoPStart \/ DoPStartNode \/ DoPBump \/ DoPComplete \/ DoPFinishNode \/ DoPPrecede \/ DoPError \/ DoPEnd
        \/ DoStartNode \/ DoToken \/ DoFinishNode \/ DoHole \/ DoSinkEnd \/ DoInsertTrivia
Spec == Init /\ [][Next]_mvars

(* --------------------------------------------------------------------------- GenSpec *)
\* lexical classes; the harness (parse.rs, CLASSES) maps every class to concrete spellings
Classes == <<"pou_open", "pou_close", "var_open", "var_close", "qualifier", "type_open", "type_close", "type_kw",
             "elem_type", "if_kw", "if_close", "case_kw", "case_close", "loop_kw", "loop_close", "jump", "oop_kw",
             "config_kw", "ident", "bool_lit", "int_lit", "based_lit", "real_lit", "typed_lit", "time_lit",
             "string_lit", "unterminated", "direct_addr", "assign_op", "colon", "semicolon", "comma_dot", "lparen",
             "rparen", "bracket", "arith_op", "cmp_op", "logic_op", "misc_punct", "comment_open", "comment_close",
             "pragma", "ws", "stray">>
ClassSet == {Classes[i] : i \in 1..Len(Classes)}
MutOps == {"Delete", "Duplicate", "Swap", "Truncate", "Splice"}
TriviaKinds == {"space", "spaces", "newline", "crlf", "comment", "empty_comment"}
TwoPos(op) == op \in {"Swap", "Splice"}

GenInit ==
  /\ toks = <<>> /\ ParserInit
  /\ plan \in {"soup", "mutant", "insert"}
  /\ glen \in (CASE plan = "soup" -> 0..MaxSoup [] plan = "mutant" -> 1..MaxOps [] plan = "insert" -> 1..MaxIns)
  /\ script = IF plan = "soup" THEN [base |-> "soup", atoms |-> <<>>, ins |-> <<>>] ELSE NoScript
\* the corpus program(s) the script starts from
GFile == \E f \in 0..(NFiles - 1) :
  /\ plan # "soup" /\ script = NoScript
  /\ script' = [base |-> "corpus", file |-> f, ops |-> <<>>, ins |-> <<>>]
GAtom == \E c \in ClassSet :
  /\ plan = "soup" /\ Len(script.atoms) < glen
  /\ script' = [script EXCEPT !.atoms = Append(@, c)]
GMutate == \E op \in MutOps, i \in Positions, j \in Positions :
  /\ plan = "mutant" /\ script # NoScript /\ Len(script.ops) < glen
  /\ ~TwoPos(op) => j = 0
  /\ script' = [script EXCEPT !.ops = Append(@, <<op, i, j>>)]
GInsert == \E i \in Positions, k \in TriviaKinds :
  /\ plan = "insert" /\ script # NoScript /\ Len(script.ins) < glen
  /\ script' = [script EXCEPT !.ins = Append(@, <<i, k>>)]
GenNext == (GFile \/ GAtom \/ GMutate \/ GInsert) /\ UNCHANGED <<pvars, plan, glen>>
GenSpec == GenInit /\ [][GenNext]_mvars

Complete == /\ script # NoScript
            /\ CASE plan = "soup" -> Len(script.atoms) = glen
                 [] plan = "mutant" -> Len(script.ops) = glen
                 [] plan = "insert" -> Len(script.ins) = glen
                 [] OTHER -> FALSE
Export == (ExportScripts /\ Complete) => PrintT(<<"SCRIPT", ToJson(script)>>)
=================================================================================
