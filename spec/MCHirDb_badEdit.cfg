SPECIFICATION SpecBadEdit
CONSTANTS
  MaxOps = 4
  NFiles = {2}
  QKinds = {"diagnostics", "symbols", "types"}
  CatSet = {"small"}
  ExportScripts = FALSE
VIEW View
CHECK_DEADLOCK FALSE
INVARIANTS
  AnswerEqualsFresh
