SPECIFICATION Spec
CONSTANTS
  ServerUnit = "utf16"
  UnitNames = {"a", "eacute", "han", "emoji", "nl", "crlf"}
  MaxUnits = 2
  MaxLen = 4
  MaxNotifs = 2
  MaxBatch = 1
  MaxChan = 1
  Lockstep = TRUE
  AllowSlack = FALSE
  AllowReplace = TRUE
  RichInserts = FALSE
  ExportScripts = TRUE
CHECK_DEADLOCK FALSE
INVARIANTS
  InSync
  Export
