---------------------------- MODULE WebIdeTrace ----------------------------
(* Trace validation of the confinement / session half of C19: recorded calls of the real    *)
(* WebIdeState on the sentinel tree of WebIde!Tree, against WebIde.                          *)
(* The specification is a function of the script (the path of the run and the operation of   *)
(* each event), so one TLC pass walks the whole file; every rejected event goes into `bad`.  *)
(* Unlike RuntimeCycleTrace nothing is skipped after a mismatch: the harness restores the     *)
(* pristine tree and starts from a fresh WebIdeState before every call, so the events of a   *)
(* run are independent of each other and each one is judged.                                 *)
(*   Reset{path}                       the run's path (component sequence; empty for listing)  *)
(*   Op{op,sk,we,ok,dIn,dOut,dHid,leakOut,leakHid}       one path operation                    *)
(*   List{op,sk,ok,dIn,dOut,dHid,leakOut,leakHid,via}    list / tree / search                  *)
(*   Panic{op,sk,we,dIn,dOut,dHid}                        the call panicked / the child died   *)
(* sk: editor | viewer | expired | invalid;  we: write-enabled mode;  d*: number of entries   *)
(* of the complete sentinel snapshot that differ after the call, per zone; leak*: the answer *)
(* carried bytes or names of outside / hidden entries.                                        *)
EXTENDS WebIde, Json, IOUtils
Rec == ndJsonDeserialize(IOEnv.TRACE)
VARIABLES l, run, bad, path, nops2
tvars == <<l, run, bad, path, nops2, vars>>
E == Rec[l]
More == l <= Len(Rec)

TInit == /\ Init /\ l = 2 /\ run = 1 /\ bad = <<>> /\ nops2 = 0
         /\ Rec[1].a = "Reset" /\ path = Rec[1].path
Reset == /\ More /\ E.a = "Reset" /\ l' = l + 1 /\ run' = run + 1 /\ path' = E.path
         /\ UNCHANGED <<bad, nops2, vars>>

Changed == E.dIn + E.dOut + E.dHid
MayWrite == E.sk = "editor" /\ E.we
\* why an event contradicts the property
Why ==
     (IF E.dOut = 0 THEN {} ELSE {"effect-outside"})
  \cup (IF E.dHid = 0 THEN {} ELSE {"effect-hidden"})
  \cup (IF E.a # "Panic" /\ E.leakOut THEN {"read-outside"} ELSE {})
  \cup (IF E.a # "Panic" /\ E.leakHid THEN {"read-hidden"} ELSE {})
  \cup (IF ~MayWrite /\ Changed > 0 THEN {"mutation-without-write-access"} ELSE {})
  \cup (IF E.a = "Op" /\ E.ok /\ Land(E.op, path) \in {"out", "hid"} THEN {"admitted-escaping-path"} ELSE {})
  \cup (IF E.a = "Panic" THEN {"panic"} ELSE {})
SetToSeq(S) == LET RECURSIVE F(_) F(T) == IF T = {} THEN <<>> ELSE LET x == CHOOSE x \in T : TRUE IN <<x>> \o F(T \ {x}) IN F(S)
Ev == /\ More /\ E.a \in {"Op", "List", "Panic"} /\ l' = l + 1 /\ nops2' = nops2 + 1
      /\ UNCHANGED <<run, path, vars>>
      /\ LET why == Why IN
         IF why = {} THEN bad' = bad
         ELSE bad' = Append(bad, [run |-> run, line |-> l, why |-> SetToSeq(why), kind |-> E.a, op |-> E.op, sk |-> E.sk,
                                  we |-> E.we, cause |-> IF E.a = "List" THEN E.via ELSE Cause(path),
                                  land |-> IF E.a = "List" THEN "" ELSE Land(E.op, path)])
TNext == More /\ (Reset \/ Ev)
TSpec == TInit /\ [][TNext]_tvars
\* verdict, written once the last line has been consumed
Done == l = Len(Rec) + 1 =>
          JsonSerialize(IOEnv.OUT, [runs |-> run, calls |-> nops2, events |-> Len(Rec), bad |-> bad])
=============================================================================
