------------------------------ MODULE MCWebIde ------------------------------
(* Model-checking / export instance of WebIde.                                              *)
(*  MCWebIde.cfg            3 editor sessions, every interleaving of the three-phase write    *)
(*  MCWebIde_roles.cfg      2 editors + 1 viewer, expiry, write-disabled requests, external    *)
(*  MCWebIde_racy.cfg       the version is compared at the unlocked read: NoLostUpdate FAILS   *)
(*  MCWebIde_paths.cfg      Confinement of the designed admission check, all paths <= PathLen  *)
(*  MCWebIde_parentonly.cfg the check without CheckTarget: Confinement FAILS (file symlink)    *)
(*  GenWebIde.cfg           -simulate export of sequential request scripts                     *)
(*  GenWebIdePaths.cfg      export of every path shape <= PathLen                              *)
EXTENDS WebIde, Json
CONSTANTS PathLen, Mode      \* Mode: "mc" | "paths" | "export" | "exportpaths"

PathsHold == (Mode = "paths" /\ nops = 0) =>
               /\ PrintT(<<"PATHS", Cardinality(SeqsUpTo(Comps, PathLen)) - 1>>)
               /\ PrintT(<<"ESCAPES", ToJson(Escapes(PathLen))>>)
               /\ Confinement(PathLen)
Done == nops = MaxOps /\ lock = Free /\ \A s \in Sessions : Idle(s)
Export == (Mode = "export" /\ Done) => PrintT(<<"SCRIPT", ToJson([steps |-> hist])>>)
ExportPaths == (Mode = "exportpaths" /\ nops = 0) =>
                 /\ PrintT(<<"TREE", ToJson(Tree)>>)
                 /\ \A p \in SeqsUpTo(Comps, PathLen) \ {<<>>} : PrintT(<<"SCRIPT", ToJson([path |-> p])>>)
=============================================================================
