-------------------------------- MODULE MCStCore --------------------------------
(* Regression guards for the reference semantics itself (C02): algebraic lemmas evaluated    *)
(* exhaustively on the whole SINT x SINT square and on the boundary operands of every type;  *)
(* they also show that the checked arithmetic never leaves TLC's 32-bit integers (TLC stops  *)
(* on overflow).  The state space is trivial: the lemmas are the content.                    *)
EXTENDS StCore
VARIABLE x
Init == x = 0
Next == x < 1 /\ x' = x + 1
Spec == Init /\ [][Next]_x

S8 == (-128)..127
BV(t) == {Lo(t), Lo(t) + 1, -1, 0, 1, 2, 7, Hi(t) - 1, Hi(t)} \cap (Lo(t)..Hi(t))
Ops == {"add", "sub", "mul", "div", "mod"}
\* a = (a / b) * b + (a MOD b), |a MOD b| < |b|, MOD has the sign of the dividend
DivModIdentity == \A a, b \in S8 : b # 0 =>
    LET q == TruncDiv(a, b) r == TruncMod(a, b) IN a = q * b + r /\ Abs(r) < Abs(b) /\ (r = 0 \/ (r < 0) = (a < 0))
\* a result is a value of the operand type inside its range, or a fault of the right kind
Closed == \A t \in IntTypes : \A op \in Ops : \A a, b \in BV(t) :
    LET r == Arith(op, t, a, b) IN
      IF IsOk(r) THEN r.t = t /\ InRange(t, r.v)
      ELSE r.f \in {"Overflow", "DivisionByZero", "ModuloByZero"} /\ (r.f = "DivisionByZero" => op = "div" /\ b = 0)
           /\ (r.f = "ModuloByZero" => op = "mod" /\ b = 0)
\* exactness against unbounded arithmetic where it fits: SINT results equal the mathematical ones
ExactSINT == \A a, b \in S8 :
    /\ (IsOk(Arith("add", "SINT", a, b)) <=> a + b \in S8) /\ (a + b \in S8 => Arith("add", "SINT", a, b).v = a + b)
    /\ (IsOk(Arith("sub", "SINT", a, b)) <=> a - b \in S8) /\ (a - b \in S8 => Arith("sub", "SINT", a, b).v = a - b)
    /\ (IsOk(Arith("mul", "SINT", a, b)) <=> a * b \in S8) /\ (a * b \in S8 => Arith("mul", "SINT", a, b).v = a * b)
\* bit operations agree with arithmetic identities
BitLemmas == \A a, b \in {0, 1, 2, 3, 85, 170, 255} :
    /\ BitOp("and", a, b, 8) + BitOp("or", a, b, 8) = a + b
    /\ BitOp("xor", a, b, 8) = BitOp("or", a, b, 8) - BitOp("and", a, b, 8)
Lemmas == DivModIdentity /\ Closed /\ ExactSINT /\ BitLemmas
=================================================================================
