---------------------------- MODULE RuntimeCycleTrace ----------------------------
(* Trace validation of recorded executions of the real runtime against RuntimeCycle.       *)
(* The specification is a function of the script, so one TLC pass walks the whole file:    *)
(* every Cycle event is compared with CycleOf; a mismatch puts the run into `bad` and the  *)
(* rest of that run is skipped up to the next Reset.                                       *)
(* `s` holds one state per reading of the one ambiguity of C06 (evReset); `alive` is the   *)
(* set of readings still consistent with everything observed in this run.                  *)
EXTENDS RuntimeCycle, Json, IOUtils
Rec == ndJsonDeserialize(IOEnv.TRACE)
VARIABLES l, run, bad, skip, alive, ncyc
tvars == <<l, run, bad, skip, alive, ncyc, rvars>>
E == Rec[l]
More == l <= Len(Rec)
Modes == BOOLEAN

FreshAll(r) == LET f == Fresh(r.cfg, r.cfg.vars0) IN [m \in Modes |-> f]
Init == /\ l = 2 /\ run = 1 /\ bad = <<>> /\ skip = FALSE /\ alive = Modes /\ ncyc = 0
        /\ Rec[1].a = "Reset" /\ cfg = Rec[1].cfg /\ s = FreshAll(Rec[1])
Reset == /\ More /\ E.a = "Reset" /\ l' = l + 1 /\ run' = run + 1 /\ cfg' = E.cfg /\ s' = FreshAll(E)
         /\ skip' = FALSE /\ alive' = Modes /\ UNCHANGED <<bad, ncyc>>
Skip  == /\ More /\ skip /\ E.a # "Reset" /\ l' = l + 1 /\ UNCHANGED <<run, bad, skip, alive, ncyc, rvars>>

All(f(_)) == s' = [m \in Modes |-> f(s[m])] /\ UNCHANGED cfg
Mark(why, sres, expQ) == bad' = Append(bad, [run |-> run, line |-> l, why |-> why, kind |-> E.a, spec |-> sres, expQ |-> expQ])

Env == /\ More /\ ~skip /\ l' = l + 1 /\ UNCHANGED <<run, bad, skip, alive, ncyc>>
       /\ \/ E.a = "Advance" /\ All(LAMBDA x : AdvanceOf(x, E.dt))
          \/ E.a = "SetSingle" /\ All(LAMBDA x : SetSingleOf(x, E.s, E.b))
          \/ E.a = "SetSrc" /\ All(LAMBDA x : SetSrcOf(x, E.d, E.bytes))
          \/ E.a = "Inject" /\ All(LAMBDA x : InjectOf(x, E.prog, E.at))
          \/ E.a = "FailDriver" /\ All(LAMBDA x : FailDriverOf(x, E.d, E.op))
          \/ E.a = "DebugVarWrite" /\ All(LAMBDA x : DebugVarWriteOf(x, E.var, E.val))
          \/ E.a = "DebugIoWrite" /\ All(LAMBDA x : DebugIoWriteOf(x, E.addr, E.val))

\* tasks whose overrun counter the property pins down (a task with both SINGLE and INTERVAL
\* is outside what it says about overruns)
\* what the harness can decode of a counter of the given shape from the stored value
ObsCount(shape, n) == CASE shape = "BOOL" -> n % 2 [] shape = "ENUM" -> n % 3 [] OTHER -> n
Shape(n) == (CHOOSE c \in {cfg.counters[k] : k \in DOMAIN cfg.counters} : c.name = n).shape
IsExecCounter(n) == \E j \in PIdx : n = "cnt" \o ToString(j - 1)
\* the member counter of a task-associated FB instance: the number of executions of the instance
\* since the last (re)start - instance state persists between the activations of its task
IsFbCounter(n) == \E k \in DOMAIN cfg.counters : cfg.counters[k].name = n /\ cfg.counters[k].fb > 0
\* counters: per-program execution counters belong to the task model (C06); the others carry
\* the restart semantics (C09); the value reached through a VAR_ACCESS path must be the
\* program variable's; the stored tag must be the declared type (C03)
CtrWhy(x) ==
     (IF \A n \in DOMAIN x.ctr : IsExecCounter(n) => E.ctr[n] = x.ctr[n] THEN {} ELSE {"program-counters"})
  \cup (IF \A n \in DOMAIN x.ctr : IsFbCounter(n) => E.ctr[n] = x.ctr[n] THEN {} ELSE {"fb-instance-state"})
  \cup (IF \A n \in DOMAIN x.ctr : ~IsExecCounter(n) /\ ~IsFbCounter(n) => E.ctr[n] = ObsCount(Shape(n), x.ctr[n]) THEN {} ELSE {"retain-variables"})
  \cup (IF \A n \in DOMAIN E.acc : E.acc[n] = x.ctr[n] THEN {} ELSE {"access-path"})
  \cup (IF \A n \in DOMAIN x.ctr : E.ctags[n] = Shape(n) THEN {} ELSE {"type-tag"})
OverPinned(t) == ~(HasSingle(t) /\ cfg.tasks[t].interval > 0)
ResOf(x0, x) == IF x0.faulted THEN "refused" ELSE IF x.faulted THEN "fault" ELSE "ok"
Why(x0, x) ==
     (IF E.res = ResOf(x0, x) THEN {} ELSE {"result"})
  \cup (IF E.exec = x.exec THEN {} ELSE {"executed-sequence"})
  \cup (IF "tasks" \in DOMAIN E /\ E.tasks # x.trun THEN {"task-events"} ELSE {})
  \cup (IF \A t \in TIdx : OverPinned(t) => E.over[t] = x.overruns[t] THEN {} ELSE {"overruns"})
  \cup (IF E.img.I = x.img.I THEN {} ELSE {"input-image"})
  \cup (IF E.img.Q = x.img.Q THEN {} ELSE {"output-image"})
  \cup (IF E.img.M = x.img.M THEN {} ELSE {"memory-image"})
  \cup (IF \A v \in DOMAIN x.vars : E.vars[v] = x.vars[v] THEN {} ELSE {"bound-variables"})
  \cup CtrWhy(x)
  \cup (IF E.drv = x.drvLog THEN {} ELSE {"driver-calls"})
  \cup (IF E.faulted = x.faulted THEN {} ELSE {"fault-latch"})
  \cup (IF E.frames = 0 THEN {} ELSE {"frames-left"})
  \cup (IF \A k \in DOMAIN cfg.bindings : E.tags[cfg.bindings[k].var] = cfg.bindings[k].ty THEN {} ELSE {"type-tag"})

Cyc == /\ More /\ ~skip /\ E.a = "Cycle" /\ l' = l + 1 /\ run' = run /\ cfg' = cfg /\ ncyc' = ncyc + 1
       /\ LET nx == [m \in Modes |-> CycleOf(s[m], m)]
              good == {m \in alive : Why(s[m], nx[m]) = {}}
          IN IF good # {}
             THEN alive' = good /\ s' = nx /\ skip' = FALSE /\ bad' = bad
             ELSE /\ alive' = alive /\ s' = nx /\ skip' = TRUE
                  /\ LET m0 == CHOOSE m \in alive : TRUE IN
                       Mark(UNION {Why(s[m], nx[m]) : m \in alive}, ResOf(s[m0], nx[m0]), nx[m0].img.Q)

\* faults raised from outside a cycle, and direct-address access on the image
ObsWhy(x) ==
     (IF E.img.Q = x.img.Q THEN {} ELSE {"output-image"})
  \cup (IF E.img.I = x.img.I THEN {} ELSE {"input-image"})
  \cup (IF E.img.M = x.img.M THEN {} ELSE {"memory-image"})
  \cup (IF E.drv = x.drvLog THEN {} ELSE {"driver-calls"})
  \cup (IF E.faulted = x.faulted THEN {} ELSE {"fault-latch"})
Out(f(_)) ==
  /\ More /\ ~skip /\ l' = l + 1 /\ UNCHANGED <<run, alive, ncyc, cfg>>
  /\ LET nx == [m \in Modes |-> f(s[m])]
         m0 == CHOOSE m \in alive : TRUE
         why == ObsWhy(nx[m0])
     IN /\ s' = nx
        /\ IF why = {} THEN bad' = bad /\ skip' = FALSE ELSE Mark(why, "ext", nx[m0].img.Q) /\ skip' = TRUE
Ext == \/ E.a = "Watchdog" /\ Out(LAMBDA x : WatchdogOf(x))
       \/ E.a = "SimFault" /\ Out(LAMBDA x : SimFaultOf(x))
       \/ E.a = "DirectWrite" /\ Out(LAMBDA x : [DirectWriteOf(x, E.addr, E.val) EXCEPT !.drvLog = <<>>])
\* restart / power cycle / access-path write: the projected state right after the call
RsWhy(x) ==
     (IF \A n \in DOMAIN x.ctr : E.ctr[n] = ObsCount(Shape(n), x.ctr[n]) THEN {} ELSE {"retain-variables"})
  \cup (IF \A v \in DOMAIN x.vars : E.vars[v] = x.vars[v] THEN {} ELSE {"bound-variables"})
  \cup (IF \A t \in TIdx : E.over[t] = x.overruns[t] THEN {} ELSE {"overruns"})
  \cup (IF E.faulted = x.faulted THEN {} ELSE {"fault-latch"})
  \cup (IF E.now = x.now THEN {} ELSE {"clock"})
  \cup (IF \A n \in DOMAIN E.acc : E.acc[n] = x.ctr[n] THEN {} ELSE {"access-path"})
  \cup (IF \A n \in DOMAIN x.ctr : E.ctags[n] = Shape(n) THEN {} ELSE {"type-tag"})
  \cup (IF E.frames = 0 THEN {} ELSE {"frames-left"})
Rs(f(_)) ==
  /\ More /\ ~skip /\ l' = l + 1 /\ UNCHANGED <<run, alive, ncyc, cfg>>
  /\ LET nx == [m \in Modes |-> f(s[m])]
         m0 == CHOOSE m \in alive : TRUE
         why == RsWhy(nx[m0])
     IN /\ s' = nx
        /\ IF why = {} THEN bad' = bad /\ skip' = FALSE ELSE Mark(why, "ext", nx[m0].img.Q) /\ skip' = TRUE
Restart == \/ E.a = "Restart" /\ Rs(LAMBDA x : RestartOf(x, E.mode))
           \/ E.a = "PowerCycle" /\ Rs(LAMBDA x : PowerCycleOf(x))
           \/ E.a = "SetAccess" /\ Rs(LAMBDA x : SetAccessOf(x, E.name, E.val))
\* reading a direct address returns exactly the bits/bytes it denotes and changes nothing
DirectRead ==
  /\ More /\ ~skip /\ E.a = "DirectRead" /\ l' = l + 1 /\ UNCHANGED <<run, alive, ncyc, rvars>>
  /\ LET m0 == CHOOSE m \in alive : TRUE
         ok == E.val = Decode(s[m0].img[E.addr.area], E.addr)
     IN IF ok THEN bad' = bad /\ skip' = FALSE ELSE Mark({"direct-read"}, "ext", s[m0].img.Q) /\ skip' = TRUE

Next == More /\ (Reset \/ Skip \/ Env \/ Cyc \/ Ext \/ DirectRead \/ Restart)
Spec == Init /\ [][Next]_tvars
\* verdict, written once the last line has been consumed
Done == l = Len(Rec) + 1 =>
          JsonSerialize(IOEnv.OUT, [runs |-> run, cycles |-> ncyc, events |-> Len(Rec), bad |-> bad])
=================================================================================
