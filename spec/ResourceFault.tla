---------------------------- MODULE ResourceFault ----------------------------
(* The fault path of one resource thread (scheduler.rs, run_resource_loop and                *)
(* run_resource_loop_with_shared): a cycle is executed, its result and -- if a watchdog is  *)
(* enabled -- its wall-clock duration are judged, and a fault is either answered by a warm  *)
(* restart (the loop goes on) or latched: the safe-state image is offered to EVERY driver   *)
(* (when the deciding policy asks for it) and only then the state Faulted becomes visible   *)
(* to the controller; after that no driver is called any more.                               *)
(*                                                                                          *)
(* One action per step of the loop that another thread can tell apart:                      *)
(*   Cycle(res)        execute_cycle returned ok / an error / ok-but-too-slow               *)
(*   Decide            which policy decides: the fault policy for errors, the watchdog      *)
(*                     action for a timeout                                                  *)
(*   Deliver(d)        apply_safe_state offers the safe image to driver d                    *)
(*   Publish           *state = Faulted, last_error = e (visible to ResourceControl)        *)
(*   Restart           warm restart, back to cycling                                         *)
EXTENDS Naturals, FiniteSets

CONSTANTS Drivers,          \* the I/O drivers of the resource
          SkipDeliverOnWatchdog   \* deviation switch (FALSE = the design): publish a watchdog fault without apply_fault

VARIABLES policy,   \* fault policy: "halt" | "safe_halt" | "restart"
          wd,       \* watchdog action: "halt" | "safe_halt" | "restart"
          pc,       \* "cycle" | "decide" | "deliver" | "publish" | "faulted"
          cause,    \* "none" | "error" | "driver" | "watchdog" | "simulation" (a disturbance injected before the cycle)
          got,      \* drivers that were offered the safe image since the fault
          visible,  \* what ResourceControl::state() shows: "Running" | "Faulted"
          err,      \* what last_error() shows
          after     \* driver calls made while Faulted was visible (must stay 0)
vars == <<policy, wd, pc, cause, got, visible, err, after>>

Policies == {"halt", "safe_halt", "restart"}
Causes == {"error", "driver", "watchdog", "simulation"}

\* the policy that decides about a fault of this cause
Decider(c, p, w) == IF c = "watchdog" THEN w ELSE p
Restarts(c, p, w) == Decider(c, p, w) = "restart"
\* FaultDecision::from_fault_policy / from_watchdog: who applies the safe state
SafeRequired(c, p, w) == IF c = "watchdog" THEN w \in {"halt", "safe_halt"} ELSE p = "safe_halt"
ErrorOf(c) == CASE c = "error" -> "DivisionByZero" [] c = "driver" -> "IoDriver" [] c = "watchdog" -> "WatchdogTimeout"
              [] c = "simulation" -> "SimulationFault" [] OTHER -> "none"

Init == /\ policy \in Policies /\ wd \in Policies
        /\ pc = "cycle" /\ cause = "none" /\ got = {} /\ visible = "Running" /\ err = "none" /\ after = 0

CycleOk == pc = "cycle" /\ UNCHANGED vars
CycleFault(c) == /\ pc = "cycle" /\ c \in Causes
                 /\ pc' = "decide" /\ cause' = c /\ got' = {}
                 /\ UNCHANGED <<policy, wd, visible, err, after>>
Decide == /\ pc = "decide"
          /\ pc' = (IF Restarts(cause, policy, wd) THEN "restart"
                    ELSE IF SafeRequired(cause, policy, wd) /\ ~(SkipDeliverOnWatchdog /\ cause = "watchdog") THEN "deliver"
                    ELSE "publish")
          /\ UNCHANGED <<policy, wd, cause, got, visible, err, after>>
Deliver(d) == /\ pc = "deliver" /\ d \in Drivers \ got
              /\ got' = got \cup {d}
              /\ pc' = (IF got' = Drivers THEN "publish" ELSE "deliver")
              /\ UNCHANGED <<policy, wd, cause, visible, err, after>>
Publish == /\ pc = "publish"
           /\ visible' = "Faulted" /\ err' = ErrorOf(cause) /\ pc' = "faulted"
           /\ UNCHANGED <<policy, wd, cause, got, after>>
Restart == /\ pc = "restart"
           /\ pc' = "cycle" /\ cause' = "none" /\ got' = {}
           /\ UNCHANGED <<policy, wd, visible, err, after>>
Done == pc = "faulted" /\ UNCHANGED vars      \* the loop has ended: nothing is called any more

Next == CycleOk \/ (\E c \in Causes : CycleFault(c)) \/ Decide \/ (\E d \in Drivers : Deliver(d)) \/ Publish \/ Restart \/ Done
Spec == Init /\ [][Next]_vars /\ WF_vars(Decide) /\ WF_vars(Publish) /\ WF_vars(Restart) /\ \A d \in Drivers : WF_vars(Deliver(d))

\* ---------------------------------- properties ----------------------------------
TypeOK == /\ pc \in {"cycle", "decide", "deliver", "publish", "restart", "faulted"}
          /\ cause \in Causes \cup {"none"} /\ got \subseteq Drivers /\ visible \in {"Running", "Faulted"}
\* C08: when the fault is reported, the safe image has been delivered to every driver
SafeBeforeReport == (visible = "Faulted" /\ SafeRequired(cause, policy, wd)) => got = Drivers
\* the reported error is the one that happened, and a restart policy never reports
ReportIsCause == visible = "Faulted" => (err = ErrorOf(cause) /\ ~Restarts(cause, policy, wd))
NothingAfterReport == after = 0
\* liveness: a fault that is not answered by a restart is eventually reported
EventuallyReported == (pc = "decide" /\ ~Restarts(cause, policy, wd)) ~> (visible = "Faulted")
===============================================================================
