------------------------- MODULE ResourceRestart -------------------------
(* C09 through the resource thread loop (scheduler.rs, both runners): the control endpoint's *)
(* `restart` request sets a signal; the loop takes it at the top of an iteration and calls   *)
(* Runtime::restart(mode).  A retain store is saved periodically (after a cycle, when the    *)
(* save interval has elapsed), on stop, and loaded when a process starts.                    *)
(*                                                                                           *)
(* Abstract state: one RETAIN counter `r` and one plain counter `n` (the conformance program *)
(* has a global and a program-level one of each; they move together), both incremented by    *)
(* every cycle; `disk` is what the store holds (None: nothing saved yet).                    *)
(*                                                                                           *)
(*   Cycle            r, n := r + 1, n + 1                                                    *)
(*   Save             disk := r            (periodic; any time between cycles)                *)
(*   Request(m)       pend := m            (control endpoint)                                 *)
(*   Restart          warm: n := 0, r kept;  cold: n := 0, r := 0  (docs/specs/10-runtime.md  *)
(*                    6.7, PLC_SAFETY_GUIDE 4: "Warm restart restores RETAIN variables. Cold  *)
(*                    restart resets all values.")                                            *)
(*   StopStart        disk := r; new process: r := disk, n := 0      (orderly power cycle)    *)
(*   PowerLoss        new process: r := disk or 0, n := 0            (changes since the last  *)
(*                    save may be lost: documented)                                           *)
(*                                                                                           *)
(* LoadAfterRestart is the deviation "the loop loads the retain store after restart(mode)":  *)
(* a warm restart then rolls r back to the last periodic save, a cold restart resurrects it. *)
EXTENDS Integers, TLC
CONSTANTS MaxCount, LoadAfterRestart
None == -1
VARIABLES r, n, disk, pend, last
vars == <<r, n, disk, pend, last>>
Modes == {"warm", "cold"}
NoRestart == [mode |-> "none", before |-> 0, after |-> 0, plain |-> 0]

TypeOK == /\ r \in 0..MaxCount /\ n \in 0..MaxCount /\ disk \in {None} \cup 0..MaxCount
          /\ pend \in Modes \cup {"none"}
          /\ last \in [mode : Modes \cup {"none", "stopstart"}, before : 0..MaxCount, after : 0..MaxCount, plain : 0..MaxCount]

Init == r = 0 /\ n = 0 /\ disk = None /\ pend = "none" /\ last = NoRestart

Cycle == /\ r < MaxCount /\ n < MaxCount /\ r' = r + 1 /\ n' = n + 1 /\ last' = NoRestart /\ UNCHANGED <<disk, pend>>
Save == disk' = r /\ UNCHANGED <<r, n, pend, last>>
Request(m) == pend = "none" /\ pend' = m /\ UNCHANGED <<r, n, disk, last>>
Kept(m) == IF m = "warm" THEN r ELSE 0
Restart == /\ pend # "none" /\ pend' = "none" /\ n' = 0
           /\ r' = IF LoadAfterRestart /\ disk # None THEN disk ELSE Kept(pend)
           /\ last' = [mode |-> pend, before |-> r, after |-> r', plain |-> n']
           /\ UNCHANGED disk
StopStart == /\ pend = "none" /\ disk' = r /\ r' = r /\ n' = 0
             /\ last' = [mode |-> "stopstart", before |-> r, after |-> r', plain |-> n'] /\ UNCHANGED pend
PowerLoss == /\ r' = (IF disk = None THEN 0 ELSE disk) /\ n' = 0 /\ pend' = "none" /\ last' = NoRestart /\ UNCHANGED disk

Next == Cycle \/ Save \/ (\E m \in Modes : Request(m)) \/ Restart \/ StopStart \/ PowerLoss
Spec == Init /\ [][Next]_vars /\ WF_vars(Restart)

\* C09: warm keeps exactly the retained value, cold equals fresh, plain variables are initialised by both;
\* an orderly power cycle keeps what a warm restart keeps
WarmKeeps == last.mode = "warm" => last.after = last.before /\ last.plain = 0
ColdFresh == last.mode = "cold" => last.after = 0 /\ last.plain = 0
PowerCycleLikeWarm == last.mode = "stopstart" => last.after = last.before /\ last.plain = 0
RequestTaken == (pend # "none") ~> (pend = "none")
=============================================================================
