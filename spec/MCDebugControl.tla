---------------------------- MODULE MCDebugControl ----------------------------
(* Bounded exhaustive check of the runtime debugger design (C17): every interleaving of   *)
(* adapter commands with the cycle thread's hook steps for small programs.                 *)
EXTENDS DebugControl
S(l, d, t) == [loc |-> l, depth |-> d, th |-> t]
\* nested call in task 1, then task 2 with a call; a loop body repeated (same location twice)
ProgA == << S(1, 0, 1), S(2, 1, 1), S(3, 0, 1), S(4, 0, 2), S(5, 1, 2) >>
ProgB == << S(1, 0, 1), S(2, 1, 1), S(3, 2, 1), S(2, 1, 1), S(4, 0, 1) >>
Progs == {ProgA, ProgB}
Init == \E p \in Progs : InitWith(p, {2, 4}, 2)
Spec == Init /\ [][Next]_vars /\ WF_vars(CycleThread)
View == <<prog, maxc, mode, pending, step, target, cur, lastDepth, lastDepths, bps, pc, ip, cycle, ncmd, stepOrigin, Len(stops), Len(executed)>>
\* StepIn issued while the hook waits stops at the very next hooked statement of that thread:
\* after such a command the next stop is a Step stop recorded before any second statement runs
StepInNext ==
  [][ (pc = "wait" /\ mode = "Paused" /\ step'.kind = "Into" /\ step.kind # "Into" /\ target' = cur) =>
        step'.started ]_vars
=================================================================================
