------------------------------ MODULE FormatTrace ------------------------------
(* Trace validation of recorded runs of the real formatters (the trust-lsp binary over    *)
(* JSON-RPC, the web IDE's format_source) against the contract of Format.  The contract is *)
(* a function of what was recorded, so one TLC pass walks the whole file: every ApplyEdits *)
(* event is judged by the operators of Format part 1 (ProgramWhy, EditsWhy, IdempotenceWhy *)
(* on what the real lexer returned for the texts); a rejected event puts the run into      *)
(* `bad` and the rest of that run is skipped up to the next Reset.                         *)
(*                                                                                         *)
(* A run:  Reset  ( Request  ApplyEdits )*                                                 *)
(*   Reset{id, cfg, doc, mlk}          a new document (doc = the observed source text)      *)
(*   FormatDoc{via, on, edits}         on "source", or on "formatted" = the document that   *)
(*                                     FormatDoc on the source gave through the same path   *)
(*   FormatRange{sl,sc,el,ec,edits}    FormatOnType{l,c,ch,edits}     (always on the source) *)
(*   ApplyEdits{doc, overlap}          the document after the edits of the pending request  *)
(*   Died / Failed / Hang / Panic      the specification has no action that explains them:  *)
(*                                     every request is answered with edits                 *)
(* Inconclusive: a source text with an unterminated string literal.  Where the lexer's      *)
(* error token ends there depends on the blanks and `$` that follow, so the token lists of  *)
(* two layouts of such a text cannot be compared; its requests are counted, not judged      *)
(* (a death is still a death).                                                              *)
(*                                                                                         *)
(* Recorded findings are NAMED DEVIATIONS: when an event is rejected, `dev` says whether    *)
(* one of them explains exactly what was observed (RangeFormatByLineIndex: the new text is *)
(* the formatted document's lines ls..le by index although wrapping added lines;           *)
(* RewrapNotStable: only the second wrapping pass moved white space).  The driver matches  *)
(* known findings on it; everything else stays a violation.                                *)
EXTENDS Format, Json, IOUtils
Rec == ndJsonDeserialize(IOEnv.TRACE)
VARIABLES l, run, bad, skip,
          id,       \* script id of the run
          tcfg,     \* its configuration (maxLineLength, vendor, spacingStyle)
          mlk,      \* kinds of the source tokens that span lines
          frag,     \* the source holds an unterminated string literal: not judged (see Inconclusive)
          sdoc,     \* the observed source document
          fdoc,     \* [lsp, web]: the observed result of FormatDoc on the source (NoDoc before)
          pend,     \* the request whose edits have not been applied yet (NoReq if none)
          cnt       \* counters for the evidence file
tvars == <<l, run, bad, skip, id, tcfg, mlk, frag, sdoc, fdoc, pend, cnt, fvars>>
E == Rec[l]
More == l <= Len(Rec)
Frozen == UNCHANGED fvars       \* the design-level variables are not used here
NoDoc == [dg |-> "", nt |-> <<>>, cm |-> <<>>, ln |-> <<>>, ld |-> <<>>]
NoReq == [a |-> "none"]
Cnt0 == [requests |-> 0, applied |-> 0, inconclusive |-> 0, edits |-> 0, editsCut |-> 0, idempotence |-> 0, tokens |-> 0, ranges |-> 0, ontype |-> 0, web |-> 0]
Requests == {"FormatDoc", "FormatRange", "FormatOnType"}
Deaths == {"Died", "Failed", "Hang", "Panic"}

Load(r) == /\ id' = r.id /\ tcfg' = r.cfg /\ mlk' = r.mlk /\ frag' = r.frag /\ sdoc' = r.doc /\ fdoc' = [lsp |-> NoDoc, web |-> NoDoc]
           /\ pend' = NoReq /\ skip' = FALSE
Init == /\ l = 2 /\ run = 1 /\ bad = <<>> /\ cnt = Cnt0 /\ Rec[1].a = "Reset"
        /\ id = Rec[1].id /\ tcfg = Rec[1].cfg /\ mlk = Rec[1].mlk /\ frag = Rec[1].frag /\ sdoc = Rec[1].doc /\ fdoc = [lsp |-> NoDoc, web |-> NoDoc]
        /\ pend = NoReq /\ skip = FALSE
        /\ FormatInit(<<>>, [style |-> "spaced"], [op |-> "full"])
Reset == /\ E.a = "Reset" /\ Load(E) /\ l' = l + 1 /\ run' = run + 1 /\ UNCHANGED <<bad, cnt>> /\ Frozen
Skip == /\ skip /\ E.a # "Reset" /\ l' = l + 1
        /\ UNCHANGED <<run, bad, skip, id, tcfg, mlk, frag, sdoc, fdoc, pend, cnt>> /\ Frozen

\* verdict on the current event: accepted, or rejected with the failing clauses and the
\* named deviation (if any) that explains it
Judge(why, what) ==
  IF why = {} THEN bad' = bad /\ skip' = FALSE
  ELSE /\ bad' = Append(bad, [run |-> run, line |-> l, id |-> id, why |-> why] @@ what)
       /\ skip' = TRUE

\* a request and the edits it returned; judged when they have been applied
Via(e) == IF e.a = "FormatDoc" THEN e.via ELSE "lsp"
On(e) == IF e.a = "FormatDoc" THEN e.on ELSE "source"
Request ==
  /\ ~skip /\ E.a \in Requests /\ l' = l + 1
  /\ Judge(IF pend # NoReq THEN {"trace:request-while-pending"}
           ELSE IF On(E) = "formatted" /\ fdoc[Via(E)] = NoDoc THEN {"trace:nothing-formatted-yet"} ELSE {},
           [kind |-> E.a, via |-> Via(E), on |-> On(E), dev |-> "", at |-> 0])
  /\ pend' = [a |-> E.a, via |-> Via(E), on |-> On(E), edits |-> E.edits]
  /\ cnt' = [cnt EXCEPT !.requests = @ + 1, !.ranges = @ + (IF E.a = "FormatRange" THEN 1 ELSE 0),
                        !.ontype = @ + (IF E.a = "FormatOnType" THEN 1 ELSE 0), !.web = @ + (IF Via(E) = "web" THEN 1 ELSE 0)]
  /\ UNCHANGED <<run, id, tcfg, mlk, frag, sdoc, fdoc>> /\ Frozen

Wraps == tcfg.maxLineLength > 0 \/ tcfg.vendor # "none"
\* the named deviation that explains a rejected ApplyEdits event exactly, "" if none does
Deviation(why, after) ==
  IF /\ pend.a \in {"FormatRange", "FormatOnType"} /\ why \subseteq {"tokens", "comments", "confinement"}
     /\ Wraps /\ fdoc.lsp # NoDoc /\ Len(fdoc.lsp.ln) > Len(sdoc.ln)
     /\ Len(pend.edits) = 1 /\ ByLineIndex(fdoc.lsp, pend.edits[1])
  THEN "RangeFormatByLineIndex"
  ELSE IF /\ pend.a = "FormatDoc" /\ pend.on = "formatted" /\ pend.via = "lsp" /\ why = {"idempotence"}
          /\ Wraps /\ \A i \in 1..Len(mlk) : mlk[i] \notin {"Error", "Pragma"}
          /\ (Len(fdoc.lsp.ln) > Len(sdoc.ln) \/ Len(after.ln) > Len(fdoc.lsp.ln))
  THEN "RewrapNotStable"
  ELSE ""
ApplyEdits ==
  /\ ~skip /\ E.a = "ApplyEdits" /\ l' = l + 1
  /\ IF pend = NoReq
     THEN /\ Judge({"trace:apply-without-request"}, [kind |-> "ApplyEdits", via |-> "", on |-> "", dev |-> "", at |-> 0])
          /\ UNCHANGED <<fdoc, cnt>>
     ELSE LET base == IF pend.on = "formatted" THEN fdoc[pend.via] ELSE sdoc
              again == pend.a = "FormatDoc" /\ pend.on = "formatted"
              why == IF frag THEN {}
                     ELSE    ProgramWhy(sdoc, E.doc)
                        \cup EditsWhy(base, pend.edits)
                        \cup (IF again THEN IdempotenceWhy(fdoc[pend.via], E.doc) ELSE {})
                        \cup (IF E.overlap THEN {"overlap"} ELSE {})
          IN /\ Judge(why, [kind |-> pend.a, via |-> pend.via, on |-> pend.on, dev |-> Deviation(why, E.doc),
                            at |-> IF "tokens" \in why THEN FirstDiff(sdoc.nt, E.doc.nt) ELSE 0])
             /\ fdoc' = IF pend.a = "FormatDoc" /\ pend.on = "source" THEN [fdoc EXCEPT ![pend.via] = E.doc] ELSE fdoc
             /\ cnt' = [cnt EXCEPT !.applied = @ + 1, !.inconclusive = @ + (IF frag THEN 1 ELSE 0), !.edits = @ + Len(pend.edits),
                                   !.editsCut = @ + Cardinality({i \in 1..Len(pend.edits) : pend.edits[i].cut}),
                                   !.idempotence = @ + (IF again THEN 1 ELSE 0), !.tokens = @ + Len(E.doc.nt)]
  /\ pend' = NoReq
  /\ UNCHANGED <<run, id, tcfg, mlk, frag, sdoc>> /\ Frozen

\* every request is answered: nothing in the specification dies, fails, hangs or panics
Death ==
  /\ ~skip /\ E.a \in Deaths /\ l' = l + 1
  /\ Judge({CASE E.a = "Died" -> "died" [] E.a = "Failed" -> "failed" [] E.a = "Hang" -> "hang" [] OTHER -> "panic"},
           [kind |-> E.during, via |-> E.via, on |-> "", dev |-> "", at |-> 0])
  /\ UNCHANGED <<run, id, tcfg, mlk, frag, sdoc, fdoc, pend, cnt>> /\ Frozen

Next == More /\ (Reset \/ Skip \/ Request \/ ApplyEdits \/ Death)
Spec == Init /\ [][Next]_tvars
\* verdict, written once the last line has been consumed
Done == l = Len(Rec) + 1 =>
          JsonSerialize(IOEnv.OUT, [runs |-> run, events |-> Len(Rec), counts |-> cnt, bad |-> bad])
=================================================================================
