--------------------------- MODULE SourceRegistry ---------------------------
(* The path-keyed front of the analysis database (trust-hir project.rs): Project maps source *)
(* keys to FileIds (SourceRegistry) and keeps the text of every live file in the Database.   *)
(* C13 is stated per file; it is only meaningful if the key -> id map stays an injection     *)
(* through every history of additions, edits, removals and re-additions -- an id handed out  *)
(* twice makes one file silently report another file's text, symbols and diagnostics.        *)
EXTENDS Naturals, FiniteSets

CONSTANTS Keys, Texts, MaxId,
          ReuseLowered   \* deviation switch (FALSE = the design): Remove lowers the allocation mark to the freed id

VARIABLES ids,    \* live keys -> FileId
          text,   \* live keys -> current text
          mark    \* allocation mark: the next id to try
vars == <<ids, text, mark>>
Live == DOMAIN ids
Used == {ids[k] : k \in Live}

Init == ids = <<>> /\ text = <<>> /\ mark = 0

\* set_source_text(key, t): an existing key keeps its id; a new key gets an id no live file has
Set(k, t) ==
  /\ k \in Keys /\ t \in Texts
  /\ IF k \in Live
     THEN /\ text' = [text EXCEPT ![k] = t] /\ UNCHANGED <<ids, mark>>
     ELSE LET id == IF ReuseLowered THEN mark      \* the deviation allocates upward from the mark without looking
                    ELSE CHOOSE i \in mark..MaxId : i \notin Used
          IN /\ id <= MaxId
             /\ ids' = [x \in Live \cup {k} |-> IF x = k THEN id ELSE ids[x]]
             /\ text' = [x \in Live \cup {k} |-> IF x = k THEN t ELSE text[x]]
             /\ mark' = id + 1
\* remove_source(key)
Remove(k) ==
  /\ k \in Live
  /\ ids' = [x \in Live \ {k} |-> ids[x]] /\ text' = [x \in Live \ {k} |-> text[x]]
  /\ mark' = (IF ReuseLowered /\ ids[k] < mark THEN ids[k] ELSE mark)

Next == (\E k \in Keys, t \in Texts : Set(k, t)) \/ (\E k \in Keys : Remove(k))
Spec == Init /\ [][Next]_vars

\* every live file has an id of its own
Injective == \A a, b \in Live : ids[a] = ids[b] => a = b
TypeOK == Live \subseteq Keys /\ DOMAIN text = Live /\ mark \in 0..MaxId + 1
=============================================================================
