------------------------------- MODULE RetainFile -------------------------------
(* Crash-atomic save of the retain file (property C10).                                    *)
(* A save is a PROGRAM: a sequence of file-system steps (open-truncate, create, write,     *)
(* fsync, rename, close, directory fsync).  The file system is a directory mapping names   *)
(* to a volatile content (what a reader in the same machine sees) and a durable content    *)
(* (what survives power loss).  Two crash notions:                                         *)
(*   Kill      — the process dies between two steps or inside a write after any byte       *)
(*               count; the directory is exactly its current volatile state;               *)
(*   PowerLoss — additionally everything not made durable by fsync may be lost (a file     *)
(*               falls back to its durable content or to a prefix written since; a rename  *)
(*               that was not followed by a directory fsync may or may not have happened). *)
(* Property: after any crash, Load(target) is the previous snapshot or the new one in      *)
(* full — never an error, an empty set or a mixture.                                       *)
(* The program is a VARIABLE: MCRetainFile checks the named protocols, RetainFileTrace     *)
(* checks the protocol OBSERVED from the real FileRetainStore::store under the syscall     *)
(* shim, so whatever the code does is decided by the same model.                           *)
EXTENDS Integers, Sequences, FiniteSets, TLC

\* contents are abstract: [src, k] = the first k bytes of snapshot image `src`
\*   src \in {"old", "new"};  NewLen / OldLen are the full lengths;  Absent = no such file
Absent == [src |-> "absent", k |-> 0]
Empty  == [src |-> "new", k |-> 0]
Full(src, len) == [src |-> src, k |-> len]

\* an op is a record [op, x, n]: x \in {"f", "tmp"} names the file, n is a byte count
\*   "opentrunc": open x with O_CREAT|O_TRUNC      "write": append n bytes of the new image to x
\*   "fsync": make x's content durable             "rename": rename tmp over f (atomic)
\*   "close": no effect on contents                "fsyncdir": make the directory entries durable
\*   "unlink": remove x

\* ---------------------------------- volatile view ----------------------------------
\* d = [f |-> content, tmp |-> content]
ApplyVol(d, o) ==
  CASE o.op = "opentrunc" -> [d EXCEPT ![o.x] = Empty]
    [] o.op = "write"     -> [d EXCEPT ![o.x] = [src |-> "new", k |-> d[o.x].k + o.n]]
    [] o.op = "rename"    -> [d EXCEPT !.f = d.tmp, !.tmp = Absent]
    [] o.op = "unlink"    -> [d EXCEPT ![o.x] = Absent]
    [] OTHER              -> d
\* a write interrupted after p of its n bytes
ApplyPartial(d, o, p) == IF o.op = "write" THEN [d EXCEPT ![o.x] = [src |-> "new", k |-> d[o.x].k + p]] ELSE d

RECURSIVE RunVol(_, _, _)
RunVol(d, prog, n) == IF n = 0 THEN d ELSE ApplyVol(RunVol(d, prog, n - 1), prog[n])

\* what a load of the target returns
\*   "old" / "new": that snapshot in full;  "empty": Ok(no values) (the file does not exist);
\*   "err": decode error (truncated / empty file)
Load(c, oldLen, newLen) ==
  IF c.src = "absent" THEN (IF oldLen = 0 THEN "old" ELSE "empty")
  ELSE IF c.src = "old" THEN "old"
  ELSE IF c.k = newLen THEN "new" ELSE "err"
Start(oldLen) == [f |-> IF oldLen = 0 THEN Absent ELSE Full("old", oldLen), tmp |-> Absent]
\* state after a kill at step n (1-based: the step is NOT executed) with p bytes of a write done
KillState(prog, oldLen, n, p) == ApplyPartial(RunVol(Start(oldLen), prog, n - 1), prog[n], p)
Atomic(res) == res \in {"old", "new"}
=================================================================================
