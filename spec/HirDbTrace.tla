------------------------------- MODULE HirDbTrace -------------------------------
(* Trace validation of recorded histories of the real trust_hir::Database against HirDb.   *)
(* The specification is a function of the script, so one TLC pass walks the whole file:    *)
(* Set / Remove events drive the model; every Query event is judged                        *)
(*   - differentially, as the property states it: the long-lived database's answer equals  *)
(*     the brand-new database's (eq), also when the brand-new one is loaded in the other   *)
(*     file order (ord), and repeating the query gives the same answer (same);             *)
(*   - against the model: the observed status of every scripted name (proj) is one the     *)
(*     specification's answer function allows for the CURRENT file map.                    *)
(* A Panic event has no counterpart in the specification (NoPanic) and is always rejected. *)
(* A mismatch puts the run into `bad`; the rest of that run is skipped up to the next      *)
(* Reset.  `edit` classifies the last effective edit (for narrow finding keys).            *)
EXTENDS HirDb, Json, IOUtils
Rec == ndJsonDeserialize(IOEnv.TRACE)
VARIABLES l, run, bad, skip, edit, ever, nq, nmodel, nnames
tvars == <<l, run, bad, skip, edit, ever, nq, nmodel, nnames, hvars>>
E == Rec[l]
More == l <= Len(Rec)

\* the catalogue as logged (JSON arrays) -> sets
ToSet(q) == {q[i] : i \in DOMAIN q}
CatOf(r) == [i \in DOMAIN r.cat |-> [decls |-> ToSet(r.cat[i].decls), refs |-> ToSet(r.cat[i].refs), opaque |-> r.cat[i].opaque]]
CfgOf(r) == [cat |-> CatOf(r), files |-> 1..r.nfiles, names |-> ToSet(r.names), fnames |-> ToSet(r.fnames)]

Init == /\ l = 2 /\ run = 1 /\ bad = <<>> /\ skip = FALSE /\ edit = "none" /\ ever = {} /\ nq = 0 /\ nmodel = 0 /\ nnames = 0
        /\ Rec[1].a = "Reset" /\ InitWith(CfgOf(Rec[1]))
Reset == /\ E.a = "Reset" /\ l' = l + 1 /\ run' = run + 1 /\ skip' = FALSE /\ edit' = "none" /\ ever' = {}
         /\ cfg' = CfgOf(E) /\ d' = [sources |-> [f \in 1..E.nfiles |-> NoText], inputs |-> [f \in 1..E.nfiles |-> NoText],
                                     project |-> [some |-> FALSE, files |-> {}], revision |-> 1, synced |-> 0, memo |-> [k \in {} |-> 0]]
         /\ obs' = NoObs /\ seen' = NoSeen /\ UNCHANGED <<bad, nq, nmodel, nnames>>
Skip == /\ skip /\ E.a # "Reset" /\ l' = l + 1 /\ UNCHANGED <<run, bad, skip, edit, ever, nq, nmodel, nnames, hvars>>

Mark(why) == bad' = Append(bad, [run |-> run, line |-> l, why |-> why, ev |-> E.a,
                                 kind |-> (IF "kind" \in DOMAIN E THEN E.kind ELSE IF "op" \in DOMAIN E THEN E.op ELSE ""),
                                 edit |-> edit])

Set == /\ ~skip /\ E.a = "Set" /\ l' = l + 1 /\ SetText(E.f, E.t)
       /\ edit' = (IF d.sources[E.f] = E.t THEN "noop-set"
                   ELSE IF d.sources[E.f] # NoText THEN "edit" ELSE IF E.f \in ever THEN "re-add" ELSE "add")
       /\ ever' = ever \cup {E.f} /\ UNCHANGED <<run, bad, skip, nq, nmodel, nnames>>
Rem == /\ ~skip /\ E.a = "Remove" /\ l' = l + 1 /\ RemoveText(E.f)
       /\ edit' = (IF d.sources[E.f] = NoText THEN "noop-remove" ELSE "remove")
       /\ UNCHANGED <<run, bad, skip, ever, nq, nmodel, nnames>>

\* does the logged projection (a sequence of [n, v]) fit the specification's answer?
Fits(p, ans) == /\ {p[i].n : i \in DOMAIN p} = DOMAIN ans
                /\ Len(p) = Cardinality(DOMAIN ans)
                /\ \A i \in DOMAIN p : ans[p[i].n] = AnyObs \/ p[i].v \in ans[p[i].n]
Qry == /\ ~skip /\ E.a = "Query" /\ l' = l + 1 /\ Query(E.kind, E.f) /\ nq' = nq + 1
       /\ LET a == obs'.ans
              mi == ~Fits(E.proj, a)
              mf == ~Fits(E.projFresh, a)
              why == (IF E.eq THEN {} ELSE {"inc!=fresh"})
                     \cup (IF E.ord THEN {} ELSE {"fresh-load-order"})
                     \cup (IF E.same THEN {} ELSE {"repeat-differs"})
                     \cup (IF E.present = (d.sources[E.f] # NoText) THEN {} ELSE {"presence"})
                     \cup (IF mi THEN {"model(incremental)"} ELSE {})
                     \cup (IF mf THEN {"model(fresh)"} ELSE {})
          IN /\ nmodel' = (IF mi \/ mf THEN nmodel ELSE nmodel + 1)
             \* observations the model pins down (not AnyObs): how much the model oracle really decided
             /\ nnames' = nnames + Cardinality({n \in DOMAIN a : a[n] # AnyObs})
             /\ IF why = {} THEN bad' = bad /\ skip' = FALSE ELSE Mark(why) /\ skip' = TRUE
       /\ UNCHANGED <<run, edit, ever>>
Pan == /\ ~skip /\ E.a = "Panic" /\ l' = l + 1 /\ Mark({"panic"}) /\ skip' = TRUE
       /\ UNCHANGED <<run, edit, ever, nq, nmodel, nnames, hvars>>

Next == More /\ (Reset \/ Skip \/ Set \/ Rem \/ Qry \/ Pan)
Spec == Init /\ [][Next]_tvars
\* verdict, written once the last line has been consumed
Done == l = Len(Rec) + 1 =>
          JsonSerialize(IOEnv.OUT, [runs |-> run, queries |-> nq, modelChecked |-> nmodel, namesJudged |-> nnames, events |-> Len(Rec), bad |-> bad])
=================================================================================
