------------------------------ MODULE RetainMgr ------------------------------
(* RetainManager (retain.rs): the save cadence and change detection in front of a retain    *)
(* store.  save_snapshot skips the write when the snapshot equals the one it believes is on *)
(* disk (`last_snapshot`).  That belief must never be ahead of the store: a save that       *)
(* reports success must leave exactly its snapshot loadable, also after a failed attempt.   *)
EXTENDS Naturals

CONSTANTS Vals,            \* snapshots (abstract values)
          CacheBeforeStore \* deviation switch (FALSE = the design): remember the snapshot before the store call

VARIABLES disk,    \* what the store holds ("none" before the first successful write)
          cache,   \* last_snapshot
          dirty,
          res      \* result of the last save: "ok" | "err" | "-"
vars == <<disk, cache, dirty, res>>
None == "none"
Init == disk = None /\ cache = None /\ dirty = FALSE /\ res = "-"

MarkDirty == dirty' = TRUE /\ UNCHANGED <<disk, cache, res>>
\* save_snapshot(v) while the backend works (ok = TRUE) or fails (ok = FALSE)
Save(v, ok) ==
  /\ v \in Vals
  /\ IF cache = v
     THEN /\ dirty' = FALSE /\ res' = "ok" /\ UNCHANGED <<disk, cache>>          \* unchanged: no write
     ELSE IF ok
     THEN /\ disk' = v /\ cache' = v /\ dirty' = FALSE /\ res' = "ok"
     ELSE /\ res' = "err" /\ UNCHANGED <<disk, dirty>>
          /\ cache' = (IF CacheBeforeStore THEN v ELSE cache)
\* the store is replaced (configure): the belief starts empty
Configure == cache' = None /\ dirty' = FALSE /\ res' = "-" /\ UNCHANGED disk
Next == MarkDirty \/ Configure \/ \E v \in Vals, ok \in BOOLEAN : Save(v, ok)
Spec == Init /\ [][Next]_vars

\* the belief is never ahead of the store
CacheIsDisk == cache # None => disk = cache
\* a save that reported success left its snapshot loadable (history-free form: success implies belief = store)
OkMeansStored == res = "ok" => (cache # None /\ disk = cache)
==============================================================================
