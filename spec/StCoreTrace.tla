------------------------------- MODULE StCoreTrace -------------------------------
(* Trace validation for C01 / C02 / C03 on the typed ST core.  The specification is a       *)
(* function of the program and the inputs, so one TLC pass walks the whole file: after      *)
(* every cycle the recorded variable store (value AND tag of every variable and array       *)
(* element), the fault kind and the frame count are compared with the reference; a          *)
(* mismatching run goes to `bad` with the list of differences and is skipped to the next    *)
(* Reset.  Which differences belong to which property, and which are explained by a listed  *)
(* finding, is decided by the driver from `why`.                                            *)
EXTENDS StCore, Json, IOUtils
Rec == ndJsonDeserialize(IOEnv.TRACE)
VARIABLES l, st, decl, body, funcs, fbs, run, skip, bad, ncyc
tvars == <<l, st, decl, body, funcs, fbs, run, skip, bad, ncyc>>
E == Rec[l]
More == l <= Len(Rec)

\* JSON store -> spec store: scalars {t,v}; arrays {t:"ARRAY",lo,el:[{t,v}...]}
ToVal(j) == IF j.t = "ARRAY" THEN [t |-> "ARRAY", lo |-> j.lo, el |-> [i \in DOMAIN j.el |-> Val(j.el[i].t, j.el[i].v)]]
            ELSE IF j.t = "STRUCT" THEN [t |-> "STRUCT", fl |-> [k \in DOMAIN j.fl |-> Val(j.fl[k].t, j.fl[k].v)]]
            ELSE IF j.t = "FB" THEN [t |-> "FB", ty |-> j.ty, vars |-> [k \in DOMAIN j.vars |-> Val(j.vars[k].t, j.vars[k].v)]]
            ELSE Val(j.t, j.v)
ToStore(vs) == [n \in DOMAIN vs |-> ToVal(vs[n])]
\* the implementation's FB instances may carry more members than the model tracks (hidden state); the
\* members of the model must be there with the same value / tag
NumEq(a, b) == CASE a.t = "ARRAY" -> b.t = "ARRAY" /\ Len(a.el) = Len(b.el) /\ \A i \in DOMAIN a.el : a.el[i].v = b.el[i].v
                 [] a.t = "STRUCT" -> b.t = "STRUCT" /\ \A k \in DOMAIN a.fl : k \in DOMAIN b.fl /\ a.fl[k].v = b.fl[k].v
                 [] a.t = "FB" -> b.t = "FB" /\ \A k \in DOMAIN a.vars : k \in DOMAIN b.vars /\ a.vars[k].v = b.vars[k].v
                 [] OTHER -> b.t \notin {"ARRAY", "STRUCT", "FB"} /\ a.v = b.v
TagEq(a, b) == CASE a.t = "ARRAY" -> b.t = "ARRAY" /\ Len(a.el) = Len(b.el) /\ \A i \in DOMAIN a.el : a.el[i].t = b.el[i].t
                 [] a.t = "STRUCT" -> b.t = "STRUCT" /\ \A k \in DOMAIN a.fl : k \in DOMAIN b.fl /\ a.fl[k].t = b.fl[k].t
                 [] a.t = "FB" -> b.t = "FB" /\ \A k \in DOMAIN a.vars : k \in DOMAIN b.vars /\ a.vars[k].t = b.vars[k].t
                 [] OTHER -> a.t = b.t
Known(j) == CASE j.t = "ARRAY" -> \A i \in DOMAIN j.el : j.el[i].t \in AllTypes
              [] j.t = "STRUCT" -> \A k \in DOMAIN j.fl : j.fl[k].t \in AllTypes
              [] j.t = "FB" -> \A k \in DOMAIN j.vars : j.vars[k].t \in AllTypes
              [] OTHER -> j.t \in AllTypes

Init == /\ l = 2 /\ Rec[1].a = "Reset" /\ run = 1 /\ skip = FALSE /\ bad = <<>> /\ ncyc = 0
        /\ decl = Rec[1].decl /\ body = Rec[1].body /\ st = ToStore(Rec[1].init) /\ funcs = Rec[1].funcs /\ fbs = Rec[1].fbs
Reset == /\ E.a = "Reset" /\ decl' = E.decl /\ body' = E.body /\ st' = ToStore(E.init) /\ funcs' = E.funcs /\ fbs' = E.fbs /\ run' = run + 1 /\ skip' = FALSE
         /\ l' = l + 1 /\ UNCHANGED <<bad, ncyc>>
Skip == skip /\ E.a # "Reset" /\ l' = l + 1 /\ UNCHANGED <<st, decl, body, funcs, fbs, run, skip, bad, ncyc>>
\* an input written between two cycles (typed value inside the variable's range)
SetVar == /\ ~skip /\ E.a = "SetVar" /\ l' = l + 1 /\ st' = [st EXCEPT ![E.n] = Val(E.t, E.v)]
          /\ UNCHANGED <<decl, body, funcs, fbs, run, skip, bad, ncyc>>

\* outcome classes of C01: success or a value-dependent fault
ValueFaults == {"DivisionByZero", "ModuloByZero", "Overflow", "IndexOutOfBounds", "NullReference", "ForStepZero", "DateTimeRange", "Timeout", "ExecutionTimeout"}
FlowOk(r, res) == (r.flow = "next" /\ res = "ok") \/ r.flow = res \/ (r.alt # "" /\ r.alt = res)
                  \/ (r.flow = "Timeout" /\ res = "ExecutionTimeout")
                  \/ (r.flow = "ForPastEnd" /\ res \in {"ok", "Overflow"})      \* post-loop value is implementer-dependent
Cyc ==
  /\ ~skip /\ E.a = "Cycle" /\ l' = l + 1 /\ ncyc' = ncyc + 1
  /\ LET r == RunCycle(body, st, [decl |-> decl, funcs |-> funcs, fbs |-> fbs])
         known == \A n \in DOMAIN E.vars : Known(E.vars[n])
         impl == IF known THEN ToStore(E.vars) ELSE st
         judged == r.flow = "next" /\ E.res = "ok"      \* the state after a faulted cycle is not specified
         why == (IF E.res \in ({"ok"} \cup ValueFaults) THEN {} ELSE {"outcome:" \o E.res})
                \cup (IF E.frames = 0 THEN {} ELSE {"frames-left"})
                \cup (IF r.flow = "Timeout" \/ FlowOk(r, E.res) \/ E.res \notin ({"ok"} \cup ValueFaults) THEN {} ELSE {"fault-kind:" \o E.res \o "/expected:" \o r.flow})
                \cup (IF ~known THEN {"unknown-value-kind"} ELSE {})
                \cup (IF judged /\ known /\ FlowOk(r, E.res)
                      THEN UNION {(IF NumEq(r.st[n], impl[n]) THEN {} ELSE {"value:" \o n})
                                   \cup (IF TagEq(r.st[n], impl[n]) THEN {} ELSE {"tag:" \o n}) : n \in DOMAIN r.st}
                      ELSE {})
     IN /\ bad' = IF why = {} THEN bad ELSE Append(bad, [run |-> run, line |-> l, why |-> why, expected |-> r.flow])
        /\ skip' = (why # {} \/ E.res # "ok" \/ r.flow \in {"ForPastEnd", "Timeout"})
        /\ st' = r.st
  /\ UNCHANGED <<decl, body, funcs, fbs, run>>
Next == More /\ (Cyc \/ Skip \/ Reset \/ SetVar)
Spec == Init /\ [][Next]_tvars
Done == l = Len(Rec) + 1 => JsonSerialize(IOEnv.OUT, [runs |-> run, cycles |-> ncyc, events |-> Len(Rec), bad |-> bad])
=================================================================================
