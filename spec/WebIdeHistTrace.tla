-------------------------- MODULE WebIdeHistTrace --------------------------
(* Trace validation of the optimistic-concurrency / session half of C19: call histories of    *)
(* the real WebIdeState (several sessions opening and writing ONE file, sequentially or from *)
(* free-running threads) against the actions of WebIde (linearizability against the model).   *)
(* One run per line:  [kind, roles : <<"editor"|"viewer"|"invalid", ..>>, ev : <<..>>]  with  *)
(* the events in real-time order:                                                             *)
(*   B{s,op,we,exp,new,e}   session s begins open / write(expected version exp, content new); *)
(*        e = index of the E event of this call                                               *)
(*   E{s,ok,kind,ver,content}  the call returned: kind ok | conflict | unauthorized |         *)
(*        forbidden | other; ver = version returned, or the current version of a conflict;   *)
(*        content = id returned by open (0 = empty file, 9000.. = torn)                       *)
(*   Expire{s}   the session idled past its TTL      Ext{new}   the file was edited externally *)
(*   Final{disk} content id of the file after every call returned                            *)
(* B / Expire / Ext are WebIde's BeginOpen / BeginWrite / Expire / ExternalEdit; ReadDisk,    *)
(* CommitOpen, CommitWrite, FinishWrite (and Fail) are silent steps between a B and its E;    *)
(* an E is accepted when the model's answer for that call equals the recorded one.  TLC       *)
(* searches for an ordering of the silent steps that explains every answer; a silent step    *)
(* whose answer already contradicts the recorded one is cut at once (Prune).  High-water marks *)
(* (furthest run, furthest event in it) are kept with TLCSet; the POSTCONDITION writes them.  *)
EXTENDS WebIde, Json, IOUtils
Rec == ndJsonDeserialize(IOEnv.TRACE)
VARIABLES l, i, cur          \* cur[s]: index of the E event of the call session s has in flight
hvars == <<l, i, cur, vars>>
ASSUME TLCSet(1, 0) /\ TLCSet(2, 0)
Run == Rec[l]
More == l <= Len(Rec)
InRun == More /\ i <= Len(Run.ev)
Ev == Run.ev[i]
RoleIn(k, s) == IF s <= Len(Rec[k].roles) THEN Rec[k].roles[s] ELSE "invalid"
HInit == /\ l = 1 /\ i = 1 /\ cur = [s \in Sessions |-> 0]
         /\ disk = 1 /\ entry = [content |-> 0, version |-> 0] /\ lock = Free /\ nextContent = 2 /\ nops = 0
         /\ lastSuccess = 1 /\ hist = <<>>
         /\ sess = [s \in Sessions |-> Session0(RoleIn(1, s))]
Step == i' = i + 1 /\ UNCHANGED l
\* the recorded answer against the model's: failures outside a conflict only have to be failures
Match(r, e) == /\ r.kind # "none" /\ e.ok = r.ok
               /\ IF r.ok THEN e.ver = r.ver /\ e.content = r.content
                  ELSE /\ (r.kind = "conflict") => (e.kind = "conflict" /\ e.ver = r.ver)
                       /\ (r.kind = "other") <=> (e.kind = "other")
TBegin == /\ InRun /\ Ev.a = "B" /\ Step /\ cur' = [cur EXCEPT ![Ev.s] = Ev.e]
          /\ \/ Ev.op = "open" /\ BeginOpen(Ev.s)
             \/ Ev.op = "write" /\ Ev.new = nextContent /\ BeginWrite(Ev.s, Ev.we, Ev.exp)
TEnd == /\ InRun /\ Ev.a = "E" /\ Step /\ Idle(Ev.s) /\ cur[Ev.s] = i /\ Match(sess[Ev.s].res, Ev) /\ UNCHANGED <<vars, cur>>
TExpire == /\ InRun /\ Ev.a = "Expire" /\ Step /\ UNCHANGED cur
           /\ IF sess[Ev.s].alive THEN Expire(Ev.s) ELSE UNCHANGED vars
TExt == InRun /\ Ev.a = "Ext" /\ Step /\ Ev.new = nextContent /\ ExternalEdit /\ UNCHANGED cur
\* the file equals the content of the last successful write
TFinal == /\ InRun /\ Ev.a = "Final" /\ Step /\ (\A s \in Sessions : Idle(s)) /\ lock = Free
          /\ Ev.disk = disk /\ disk = lastSuccess /\ UNCHANGED <<vars, cur>>
\* Silent steps.  No lost update, directly: a write passes the version check only if the writer
\* had seen the content it replaces.  Prune: what the step decides must agree with the recorded
\* answer of that call - its result, and for an open the content read.  What a WRITE read is not
\* observable: the file as it is, or (inside somebody's truncate window) one generic torn text.
GenericTorn == 9007
EndOf(s) == Run.ev[cur[s]]
Prune(s) ==
  /\ sess'[s].res.kind # "none" => Match(sess'[s].res, EndOf(s))
  /\ (sess[s].pc = "read" /\ sess'[s].pc = "commit") =>
        IF sess[s].op = "open" THEN sess'[s].seen = (IF EndOf(s).ok THEN EndOf(s).content ELSE disk)
        ELSE sess'[s].seen \in {disk, GenericTorn}
Silent == /\ More /\ UNCHANGED <<l, i, cur>>
          /\ \E s \in Sessions : Internal(s) /\ (Passing(s) => sess[s].base = disk) /\ Prune(s)
NextRun == /\ More /\ i > Len(Run.ev) /\ (\A s \in Sessions : Idle(s))
           /\ l' = l + 1 /\ i' = 1 /\ cur' = [s \in Sessions |-> 0]
           /\ disk' = 1 /\ entry' = [content |-> 0, version |-> 0] /\ lock' = Free /\ nextContent' = 2 /\ nops' = 0
           /\ lastSuccess' = 1 /\ hist' = <<>>
           /\ sess' = [s \in Sessions |-> Session0(IF l + 1 <= Len(Rec) THEN RoleIn(l + 1, s) ELSE "invalid")]
HNext == TBegin \/ TEnd \/ TExpire \/ TExt \/ TFinal \/ Silent \/ NextRun
HSpec == HInit /\ [][HNext]_hvars
HighWater ==
  /\ IF l > TLCGet(1) THEN TLCSet(1, l) /\ TLCSet(2, 0) ELSE TRUE
  /\ IF l = TLCGet(1) /\ i > TLCGet(2) THEN TLCSet(2, i) ELSE TRUE
\* explained = runs completely explained; stuck = index of the first event of the next run that no
\* ordering of the silent steps gets past
Post == JsonSerialize(IOEnv.OUT, [runs |-> Len(Rec), explained |-> TLCGet(1) - 1, stuck |-> TLCGet(2)])
=============================================================================
