------------------------------- MODULE MCDapStop -------------------------------
(* Bounded exhaustive check of the DAP stop path (C17, adapter layer): every interleaving of *)
(* the client's requests, the main thread's handler steps, the cycle thread's stops and the  *)
(* stop coordinator's steps.                                                                 *)
EXTENDS DapStop
CONSTANTS CmdSet,      \* which requests the client may send
          MaxReqs,     \* requests the client sends
          MaxQueued,   \* requests sent and not yet read (the stdin pipe); sending earlier than that only changes what
                       \* the client knew when it sent, which can only turn a disciplined client into an undisciplined one
          MaxStops     \* breakpoint / step stops the program may run into (pause / entry stops are bounded by the requests)

AllCmds == {<<"continue", 0>>, <<"pause", 0>>, <<"next", 0>>, <<"setBreakpoints", 0>>, <<"setBreakpoints", 1>>, <<"stackTrace", 0>>}
Cmds == {c \in AllCmds : (IF c[1] = "setBreakpoints" THEN (IF c[2] = 0 THEN "setBps0" ELSE "setBps1") ELSE c[1]) \in CmdSet}
Init == \E entry \in BOOLEAN, n \in {0, 1} : InitWith(entry, n, n)

Client  == \/ \E c \in Cmds : nreq < MaxReqs /\ Len(inq) < MaxQueued /\ Send(c[1], 1, c[2])
           \/ Recv
Main    == MRead \/ MPauseCheck \/ MSetPE \/ MGateEnter \/ MAct \/ MInspect \/ MInspectLock \/ MWrite \/ MDone
Spont   == stopId < MaxStops /\ \E r \in {"Breakpoint", "Step"}, th \in Threads : RStop(r, th, 0)
PendStop == \E r \in {"Pause", "Entry"}, th \in Threads : RStop(r, th, 0)
Cycle   == Spont \/ PendStop \/ RResume \/ RCycleBegin \/ RCycleEnd
Coord   == CRecv \/ CGate \/ CPE \/ CGen \/ CDropPE \/ CDropGen \/ CWrite
Next    == Client \/ Main \/ Cycle \/ Coord
\* the threads are scheduled fairly (a mutex that is free again and again is eventually obtained: strong fairness of
\* MInspectLock); the program is free to never run into a breakpoint
Spec == Init /\ [][Next]_vars /\ WF_vars(Main) /\ WF_vars(Coord) /\ WF_vars(Recv) /\ WF_vars(PendStop \/ RResume) /\ WF_vars(RCycleEnd) /\ SF_vars(MInspectLock)

EveryRequestAnswered == \A s \in 1..MaxReqs : (s \in outstanding) ~> (s \notin outstanding)
\* every stop that is neither void (outdated breakpoint set) nor stale (resumed before it was looked at)
\* reaches the client: a disciplined client that is stopped was told, eventually
StopEventuallyShown == (disc /\ rt = "wait" /\ Quiescent) ~> (view = "stopped" \/ rt = "run")
=================================================================================
