---------------------------- MODULE ResourceThreads ----------------------------
(* Resource threads sharing configuration globals (scheduler.rs run_resource_loop_with_ *)
(* shared), step by step, plus a controller. ManualClock with its sticky interrupt.      *)
EXTENDS Integers, Sequences, FiniteSets, TLC

CONSTANTS Res, MaxCycles, MaxCmds, Interval,  \* Interval = 0: free running (yield), > 0: sleep on the clock
          SplitLock,   \* FALSE: the code's protocol (sync_into, execute_cycle, sync_from under ONE lock hold);
                       \* TRUE: the broken variant (lock released between sync_into and sync_from), kept to
                       \* show that NoLostUpdate / PairedEqual are not vacuous
          MayFault     \* a cycle may end in a runtime fault (the resource thread then exits as Faulted)

VARIABLES pc, paused, state, queue, stopFlag,      \* per resource
          shared, sharedB, lockOwner, localA, localB, n, \* two shared variables written together + local copies + cycle count
          clockNow, interrupted, deadline,         \* manual clock
          saves, ncmd, obsPaused, nAtObs           \* ghosts

vars == <<pc, paused, state, queue, stopFlag, shared, sharedB, lockOwner, localA, localB, n, clockNow, interrupted, deadline, saves, ncmd, obsPaused, nAtObs>>
None == "none"

Init ==
  /\ pc = [r \in Res |-> "top"] /\ paused = [r \in Res |-> FALSE] /\ state = [r \in Res |-> "Running"]
  /\ queue = [r \in Res |-> <<>>] /\ stopFlag = [r \in Res |-> FALSE]
  /\ shared = 0 /\ sharedB = 0 /\ lockOwner = None /\ localA = [r \in Res |-> 0] /\ localB = [r \in Res |-> 0] /\ n = [r \in Res |-> 0]
  /\ clockNow = 0 /\ interrupted = FALSE /\ deadline = [r \in Res |-> 0]
  /\ saves = [r \in Res |-> 0] /\ ncmd = 0 /\ obsPaused = [r \in Res |-> FALSE] /\ nAtObs = [r \in Res |-> 0]

\* ------------------------------ resource loop ------------------------------
Top(r) == /\ pc[r] = "top"
          /\ IF stopFlag[r]
             THEN pc' = [pc EXCEPT ![r] = "exit"] /\ saves' = [saves EXCEPT ![r] = @ + 1] /\ state' = [state EXCEPT ![r] = "Stopped"]
             ELSE pc' = [pc EXCEPT ![r] = "drain"] /\ UNCHANGED <<saves, state>>
          /\ UNCHANGED <<paused, queue, stopFlag, shared, sharedB, lockOwner, localA, localB, n, clockNow, interrupted, deadline, ncmd, obsPaused, nAtObs>>

Drain(r) == /\ pc[r] = "drain"
            /\ IF queue[r] = <<>>
               THEN /\ pc' = [pc EXCEPT ![r] = IF paused[r] THEN "psleep" ELSE "lock"]
                    /\ deadline' = [deadline EXCEPT ![r] = clockNow + Interval]
                    /\ UNCHANGED <<paused, state, queue>>
               ELSE /\ queue' = [queue EXCEPT ![r] = Tail(@)]
                    /\ paused' = [paused EXCEPT ![r] = (Head(queue[r]) = "Pause")]
                    /\ state' = [state EXCEPT ![r] = IF Head(queue[r]) = "Pause" THEN "Paused" ELSE "Running"]
                    /\ UNCHANGED <<pc, deadline>>
            /\ UNCHANGED <<stopFlag, shared, sharedB, lockOwner, localA, localB, n, clockNow, interrupted, saves, ncmd, obsPaused, nAtObs>>

\* sleep_until: returns when interrupted or now >= deadline (Interval = 0: yield)
SleepDone(r) == Interval = 0 \/ interrupted \/ clockNow >= deadline[r]
PSleep(r) == /\ pc[r] = "psleep" /\ SleepDone(r) /\ pc' = [pc EXCEPT ![r] = "top"]
             /\ UNCHANGED <<paused, state, queue, stopFlag, shared, sharedB, lockOwner, localA, localB, n, clockNow, interrupted, deadline, saves, ncmd, obsPaused, nAtObs>>

Lock(r) == /\ pc[r] = "lock"
           /\ IF n[r] < MaxCycles
              THEN lockOwner = None /\ lockOwner' = r /\ pc' = [pc EXCEPT ![r] = "into"]
              ELSE pc' = [pc EXCEPT ![r] = "sleep"] /\ UNCHANGED lockOwner     \* model bound: idle iteration
           /\ UNCHANGED <<paused, state, queue, stopFlag, shared, sharedB, localA, localB, n, clockNow, interrupted, deadline, saves, ncmd, obsPaused, nAtObs>>
SyncInto(r) == /\ pc[r] = "into" /\ localA' = [localA EXCEPT ![r] = shared] /\ localB' = [localB EXCEPT ![r] = sharedB]
               /\ pc' = [pc EXCEPT ![r] = "exec"]
               /\ (IF SplitLock THEN lockOwner' = None ELSE UNCHANGED lockOwner)
               /\ UNCHANGED <<paused, state, queue, stopFlag, shared, sharedB, n, clockNow, interrupted, deadline, saves, ncmd, obsPaused, nAtObs>>
Exec(r) == /\ pc[r] = "exec" /\ localA' = [localA EXCEPT ![r] = @ + 1] /\ localB' = [localB EXCEPT ![r] = @ + 1]
           /\ n' = [n EXCEPT ![r] = @ + 1] /\ pc' = [pc EXCEPT ![r] = "from"]
           /\ UNCHANGED <<paused, state, queue, stopFlag, shared, sharedB, lockOwner, clockNow, interrupted, deadline, saves, ncmd, obsPaused, nAtObs>>
SyncFrom(r) == /\ pc[r] = "from" /\ (SplitLock => lockOwner = None)
               /\ shared' = localA[r] /\ sharedB' = localB[r] /\ lockOwner' = None /\ pc' = [pc EXCEPT ![r] = "sleep"]
               /\ UNCHANGED <<paused, state, queue, stopFlag, localA, localB, n, clockNow, interrupted, deadline, saves, ncmd, obsPaused, nAtObs>>
\* the cycle faulted: the write-back has happened, the lock is free, the thread leaves as Faulted
\* without touching anybody else
Fault(r) == /\ MayFault /\ pc[r] = "sleep" /\ n[r] > 0 /\ pc' = [pc EXCEPT ![r] = "exit"] /\ state' = [state EXCEPT ![r] = "Faulted"]
            /\ UNCHANGED <<paused, queue, stopFlag, shared, sharedB, lockOwner, localA, localB, n, clockNow, interrupted, deadline, saves, ncmd, obsPaused, nAtObs>>
Sleep(r) == /\ pc[r] = "sleep" /\ SleepDone(r) /\ pc' = [pc EXCEPT ![r] = "top"]
            /\ UNCHANGED <<paused, state, queue, stopFlag, shared, sharedB, lockOwner, localA, localB, n, clockNow, interrupted, deadline, saves, ncmd, obsPaused, nAtObs>>

Loop(r) == Top(r) \/ Drain(r) \/ PSleep(r) \/ Lock(r) \/ SyncInto(r) \/ Exec(r) \/ SyncFrom(r) \/ Sleep(r) \/ Fault(r)

\* -------------------------------- controller --------------------------------
Cmd == ncmd < MaxCmds /\ ncmd' = ncmd + 1
Send(r, c) == /\ Cmd /\ queue' = [queue EXCEPT ![r] = Append(@, c)] /\ interrupted' = TRUE
              /\ obsPaused' = IF c = "Resume" THEN [obsPaused EXCEPT ![r] = FALSE] ELSE obsPaused
              /\ UNCHANGED <<pc, paused, state, stopFlag, shared, sharedB, lockOwner, localA, localB, n, clockNow, deadline, saves, nAtObs>>
Stop(r) == /\ Cmd /\ stopFlag' = [stopFlag EXCEPT ![r] = TRUE] /\ interrupted' = TRUE
           /\ UNCHANGED <<pc, paused, state, queue, shared, sharedB, lockOwner, localA, localB, n, clockNow, deadline, saves, obsPaused, nAtObs>>
AdvanceClock == /\ Cmd /\ clockNow' = clockNow + Interval
                /\ UNCHANGED <<pc, paused, state, queue, stopFlag, shared, sharedB, lockOwner, localA, localB, n, interrupted, deadline, saves, obsPaused, nAtObs>>
\* the controller reads state() = Paused with no Resume in flight: from now until it sends Resume, n must not move
Observe(r) == /\ state[r] = "Paused" /\ ~obsPaused[r] /\ \A i \in DOMAIN queue[r] : queue[r][i] # "Resume"
              /\ obsPaused' = [obsPaused EXCEPT ![r] = TRUE] /\ nAtObs' = [nAtObs EXCEPT ![r] = n[r]]
              /\ UNCHANGED <<pc, paused, state, queue, stopFlag, shared, sharedB, lockOwner, localA, localB, n, clockNow, interrupted, deadline, saves, ncmd>>
Controller == \/ \E r \in Res, c \in {"Pause", "Resume"} : Send(r, c)
              \/ \E r \in Res : Stop(r) \/ Observe(r)
              \/ (Interval > 0 /\ AdvanceClock)

Next == (\E r \in Res : Loop(r)) \/ Controller
Spec == Init /\ [][Next]_vars /\ \A r \in Res : WF_vars(Loop(r))

\* --------------------------------- properties ---------------------------------
Sum(f) == LET RECURSIVE S(_) S(X) == IF X = {} THEN 0 ELSE LET x == CHOOSE x \in X : TRUE IN f[x] + S(X \ {x}) IN S(Res)
NoLostUpdate      == lockOwner = None => shared = Sum(n)
PausedMeansNoExec == \A r \in Res : obsPaused[r] => n[r] = nAtObs[r]
\* two shared variables written together are equal whenever nobody is inside a cycle
PairedEqual       == lockOwner = None /\ (\A r \in Res : pc[r] \notin {"into", "exec", "from"}) => shared = sharedB
StopSavesOnce     == \A r \in Res : saves[r] <= 1 /\ (pc[r] = "exit" /\ state[r] # "Faulted" => saves[r] = 1 /\ state[r] = "Stopped")
\* a faulted resource holds no lock, so the others are never blocked by it
FaultIsolation    == \A r \in Res : state[r] = "Faulted" => lockOwner # r
StopTerminates    == \A r \in Res : stopFlag[r] ~> pc[r] = "exit"
\* a resource that is neither paused, stopped nor faulted keeps cycling (no lost wake-up)
Progress          == \A r \in Res : [](pc[r] = "lock" /\ n[r] < MaxCycles ~> (pc[r] = "from" \/ pc[r] = "exit"))
=================================================================================
