--------------------------- MODULE RetainMgrTrace ---------------------------
(* Conformance of the real RetainManager in front of a store that the script makes fail at  *)
(* will.  Events: Reset; Save {v, fail, ok (result), stored (what the store holds afterwards,*)
(* 0 = nothing), loaded (what load() returns afterwards)}; Configure.                        *)
EXTENDS Sequences, Integers, Json, IOUtils, TLC
Rec == ndJsonDeserialize(IOEnv.TRACE)
VARIABLES l, run, disk, cache, bad, nsaves
tvars == <<l, run, disk, cache, bad, nsaves>>
E == Rec[l]
More == l <= Len(Rec)
Init == l = 1 /\ run = 0 /\ disk = 0 /\ cache = 0 /\ bad = <<>> /\ nsaves = 0
Reset == E.a = "Reset" /\ l' = l + 1 /\ run' = run + 1 /\ disk' = 0 /\ cache' = 0 /\ UNCHANGED <<bad, nsaves>>
Configure == E.a = "Configure" /\ l' = l + 1 /\ cache' = 0 /\ UNCHANGED <<run, disk, bad, nsaves>>
Save == /\ E.a = "Save" /\ l' = l + 1 /\ nsaves' = nsaves + 1
        /\ LET skip == cache = E.v /\ cache # 0
               expOk == skip \/ ~E.fail
               expDisk == IF skip \/ E.fail THEN disk ELSE E.v
               why == (IF E.ok # expOk THEN {"result"} ELSE {})
                      \cup (IF E.stored # expDisk THEN {"store-content"} ELSE {})
                      \cup (IF E.loaded # E.stored THEN {"load-differs-from-store"} ELSE {})
                      \cup (IF E.ok /\ E.loaded # E.v THEN {"successful-save-not-loadable"} ELSE {})
           IN /\ disk' = E.stored
              /\ cache' = (IF skip THEN cache ELSE IF ~E.fail THEN E.v ELSE cache)
              /\ bad' = IF why = {} THEN bad ELSE Append(bad, [run |-> run, line |-> l, why |-> why])
        /\ UNCHANGED run
Next == More /\ (Reset \/ Configure \/ Save)
Spec == Init /\ [][Next]_tvars
Done == l = Len(Rec) + 1 => JsonSerialize(IOEnv.OUT, [events |-> Len(Rec), saves |-> nsaves, bad |-> bad])
=============================================================================
