SPECIFICATION Spec
CONSTANTS
  Mode = "all"
  NScopes = 3
  NameSeq <- Names2
  MaxDecls = 3
  MaxRefs = 2
  MaxReqs = 1
  ExportScripts = FALSE
VIEW View
CHECK_DEADLOCK FALSE
INVARIANTS
  AppliedPreservesBinding
  EditsAreTheOccurrences
  OnlyValidNamesApplied
  BackIsAdmissible
  BackRestores
  RefusalChangesNothing
  SafeIsExact
  CaseVariantIsSafe
