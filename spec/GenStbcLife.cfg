SPECIFICATION Spec
CONSTANTS
  Modes = {"life"}
  ExportScripts = TRUE
VIEW View
CHECK_DEADLOCK FALSE
INVARIANTS
  Export
