SPECIFICATION Spec
CONSTANTS
  Modes = {"life"}
  MaxEntries = 3
  ExportScripts = TRUE
VIEW View
CHECK_DEADLOCK FALSE
INVARIANTS
  Export
