SPECIFICATION SpecFb
CONSTANTS
  MaxSteps = 6
  MaxCycles = 3
  ExportScripts = FALSE
  EnableFaults = TRUE
  EnableRestart = TRUE
  EnableDebugWrites = TRUE
  SrcVals = {0, 3, 255}
  Dts = {1, 2, 5}
  CfgSel = "fb"
VIEW View
CHECK_DEADLOCK FALSE
INVARIANTS
  WritesOnlyAtBoundaries
  WarmKeepsExactlyRetained
  ColdEqualsFresh
  RestartResets
  PowerCycleSetEqualsWarmSet
  RestartClearsFault
  AtMostOncePerCycle
  OrderIsSorted
  BackgroundAfterTasks
  ExecutedIsDueSet
  BackgroundAlways
  OverrunsMonotone
  NoReplay
  DriverCallShape
  ReadsFirst
  PublishedIsEncodeOfFinal
  LatchStable
  InputsAreDriverData
  OutputLocality
  FaultLatchMonotone
  RefusedCyclesAreInert
  SafeStateDelivered
  NoProgramOutputsAfterFault
  FaultIsLatched
  ItemsBelongToActivations
  ActivationsAreBlocks
  FbOncePerActivation
  ProgramOncePerActivation
  FbStatePersists
  FaultEndsExecution
  FbFaultIsLatched
