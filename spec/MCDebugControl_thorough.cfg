SPECIFICATION Spec
CONSTANTS
  Threads = {1, 2}
  MaxCmds = 7
VIEW View
INVARIANTS TypeOK Transparent StopHasLocation
PROPERTIES OneStopPerPause StepDepth StepInNext NoWedge
CHECK_DEADLOCK FALSE
