SPECIFICATION Spec
CONSTANTS
  Threads = {1}
  Dev = {"stepNoResume"}
  MaxReqs = 2
  MaxQueued = 1
  MaxStops = 2
INVARIANTS NoLostStop
CHECK_DEADLOCK FALSE
