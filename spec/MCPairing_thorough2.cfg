SPECIFICATION Spec
CONSTANTS
  CodeTTL = 2
  TokenTTL = 3
  MaxTokens = 2
  Variant = "code"
  T0 = 1
  SeedMode = "plain"
  MaxNow = 6
  MaxCodes = 2
  MaxIssued = 3
  ReqRoles <- ReqRolesSmall
  Kinds = {"status"}
  RealTime = FALSE
  MaxSteps = 0
  ExportScripts = FALSE
VIEW View
CHECK_DEADLOCK FALSE
INVARIANTS
  ValidatesIff
  UnknownNeverValidates
  IssuedRoleNeverAdmin
  CodeYieldsAtMostOneToken
  DiskAgreesUpToPruning
  ReloadKeepsValidity
  EnabledCapRespected
  PendingIsNewestCode
  ReqOnlyWithLiveToken
  ValidateAnswersValid
  WrongCodeChangesNothing
PROPERTIES
  NoResurrection
  RoleNeverChanges
  OnlyClaimIssues
  OnlyClockOrRevocationEnds
