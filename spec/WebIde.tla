------------------------------- MODULE WebIde -------------------------------
(* C19 - the browser IDE's file API stays inside the active project and never loses a      *)
(* concurrent edit.  Written from the property text and the two guides; shaped like the    *)
(* code: one action per code phase.                                                        *)
(*                                                                                         *)
(* Part 1 (confinement, pure operators): a model of a project directory nested in a        *)
(*   sentinel tree (outside files, hidden entries, file / directory symlinks pointing in   *)
(*   and out, dangling symlinks), the operating system's path resolution on that tree      *)
(*   (Walk), where an operation lands if the API lets the path through (Land), and the      *)
(*   designed admission check (Accept: lexical normalisation, canonical closest existing   *)
(*   parent inside the root, and - CheckTarget - an existing final entry must itself       *)
(*   resolve inside the root).  Confinement == every admitted path lands inside.            *)
(* Part 2 (optimistic concurrency + sessions, actions): open / write on one file at the    *)
(*   code's grain: the disk is read OUTSIDE the state lock (ReadDisk); session check,      *)
(*   refresh of the tracked document from that earlier read, version comparison and the    *)
(*   truncation of the file happen under the lock (CommitWrite), the new bytes follow      *)
(*   (FinishWrite) - std::fs::write is open(O_TRUNC) + write, so an unlocked reader can     *)
(*   see the empty file.  Viewer sessions, expired sessions and write-disabled requests    *)
(*   never reach the file.                                                                  *)
EXTENDS Integers, Sequences, FiniteSets, TLC

CONSTANTS Sessions,      \* session ids
          Viewers,       \* sessions that start with the viewer role (the others are editors)
          TornIds,       \* content ids an unlocked reader may see inside a write's truncate window (besides the empty file)
          Failures,      \* BOOLEAN: a request may fail for reasons outside the protocol (I/O error), changing nothing
          MaxOps,        \* bound on the number of requests (model checking only)
          Variant,       \* "locked" (the design) | "racy" (version compared at the unlocked read: must fail)
          External,      \* BOOLEAN: somebody edits the file behind the IDE's back
          MaxExpire,     \* bound on the number of sessions that expire (model checking only)
          Sequential,    \* BOOLEAN: requests do not overlap (script export for sequential replay)
          CheckTarget    \* BOOLEAN: an existing final entry must itself resolve inside the root

(***************************************************************************************)
(* Part 1 - the sentinel tree and path resolution                                      *)
(***************************************************************************************)
\* kind: dir | file | link (symbolic link to node `to`) | absent (name that does not exist: target of a dangling link)
\* zone: in (inside the project, visible) | hid (inside, hidden entry or below one) | out (outside the project)
N(parent, name, kind, zone, to) == [parent |-> parent, name |-> name, kind |-> kind, zone |-> zone, to |-> to]
Tree ==
  [ base    |-> N("beyond", "base",       "dir",    "out", ""),
    out     |-> N("base",  "outside",     "dir",    "out", ""),
    secret  |-> N("out",   "secret.st",   "file",   "out", ""),
    osub    |-> N("out",   "sub",         "dir",    "out", ""),
    deep    |-> N("osub",  "deep.st",     "file",   "out", ""),
    ghostf  |-> N("out",   "ghost.st",    "absent", "out", ""),
    ghostd  |-> N("out",   "ghostdir",    "absent", "out", ""),
    proj    |-> N("base",  "project",     "dir",    "in",  ""),
    src     |-> N("proj",  "src",         "dir",    "in",  ""),
    main    |-> N("src",   "main.st",     "file",   "in",  ""),
    util    |-> N("src",   "util.st",     "file",   "in",  ""),
    top     |-> N("proj",  "top.st",      "file",   "in",  ""),
    hid     |-> N("proj",  ".hidden",     "dir",    "hid", ""),
    hfile   |-> N("hid",   "h.st",        "file",   "hid", ""),
    dot     |-> N("proj",  ".dot.st",     "file",   "hid", ""),
    flink   |-> N("proj",  "flink.st",    "link",   "in",  "secret"),
    dlink   |-> N("proj",  "dlink",       "link",   "in",  "out"),
    inlink  |-> N("proj",  "inlink",      "link",   "in",  "src"),
    ifile   |-> N("proj",  "ifile.st",    "link",   "in",  "main"),
    dangf   |-> N("proj",  "dangling.st", "link",   "in",  "ghostf"),
    dangd   |-> N("proj",  "ddangling",   "link",   "in",  "ghostd") ]
Ids == DOMAIN Tree
Root == "proj"
\* names the API must treat as hidden (TLC cannot look inside a string; the vocabulary is closed)
HiddenNames == {".hidden", ".dot.st", ".newdot.st"}
\* the component vocabulary of model-generated paths.  "<ABS>" stands for the absolute path of
\* `base`, "<LONG>" for a 300-character name, "<BSL>" for a\..\..\outside (backslashes are not separators here); the rest is literal.  " .." / ".. " are trimmed by
\* an API that trims the whole string when they come first / last.
Comps == {"src", "main.st", "top.st", "new.st", "newdir", "..", ".", "", ".hidden", "h.st", ".dot.st",
          ".newdot.st", "flink.st", "dlink", "inlink", "ifile.st", "dangling.st", "ddangling",
          "secret.st", "sub", "outside", "<ABS>", "<BSL>", "%2e%2e", " ..", ".. ", "<LONG>"}
PathOps == {"open", "write", "create", "mkdir", "delete", "rename_from", "rename_to"}

Child(d, n) == IF \E x \in Ids : Tree[x].parent = d /\ Tree[x].name = n
               THEN CHOOSE x \in Ids : Tree[x].parent = d /\ Tree[x].name = n ELSE "none"
\* follow symbolic links until something that is not a link
RECURSIVE Deref(_)
Deref(x) == IF Tree[x].kind = "link" THEN Deref(Tree[x].to) ELSE x

\* The operating system's resolution of the components p[i..] starting in directory `cur`.
\*   [st |-> "node", n]        an existing entry (a final link is followed iff follow)
\*   [st |-> "new", dir, name] a name that does not exist in the existing directory `dir`
\*                             (also: the target of a dangling final link, when followed)
\*   [st |-> "missing", dir, dots]  an intermediate component does not exist below `dir`;
\*                             dots = a ".." occurs later (mkdir -p could then walk anywhere)
\*   [st |-> "beyond"]         left the sentinel tree through ".."
\*   [st |-> "notdir"]         an intermediate component is a file
RECURSIVE Walk(_, _, _, _)
Walk(cur, p, i, follow) ==
  IF i > Len(p) THEN [st |-> "node", n |-> cur]
  ELSE LET c == p[i]  last == (\A j \in (i + 1)..Len(p) : p[j] \in {"", "."}) IN
    IF c \in {"", "."} THEN Walk(cur, p, i + 1, follow)
    ELSE IF c = ".." THEN (IF Tree[cur].parent = "beyond" THEN [st |-> "beyond"] ELSE Walk(Tree[cur].parent, p, i + 1, follow))
    ELSE LET x == Child(cur, c) IN
      IF x = "none" \/ Tree[x].kind = "absent"
      THEN IF last THEN [st |-> "new", dir |-> cur, name |-> c]
                   ELSE [st |-> "missing", dir |-> cur, dots |-> \E j \in (i + 1)..Len(p) : p[j] = ".."]
      ELSE IF last /\ ~follow THEN [st |-> "node", n |-> x]
      ELSE LET y == Deref(x) IN
        IF Tree[y].kind = "absent"
        THEN IF last THEN [st |-> "new", dir |-> Tree[y].parent, name |-> Tree[y].name]
                     ELSE [st |-> "missing", dir |-> cur, dots |-> \E j \in (i + 1)..Len(p) : p[j] = ".."]
        ELSE IF last THEN [st |-> "node", n |-> y]
        ELSE IF Tree[y].kind = "dir" THEN Walk(y, p, i + 1, follow)
        ELSE [st |-> "notdir"]

\* an absolute path string: starts with the absolute name of `base` or with "/"
IsAbs(p) == Len(p) > 0 /\ p[1] \in {"<ABS>", ""} /\ ~(Len(p) = 1 /\ p[1] = "")
Resolve(p, follow) ==
  IF Len(p) > 0 /\ p[1] = "<ABS>" THEN Walk("base", p, 2, follow)
  ELSE IF IsAbs(p) THEN [st |-> "beyond"]                  \* somewhere else in the real file system
  ELSE Walk(Root, p, 1, follow)

\* Does the operation follow a symbolic link in final position?  open/read, write and create
\* (O_CREAT) do; mkdir, unlink, rename act on the link itself.
Follows(op) == op \in {"open", "write", "create"}
Creates(op) == op \in {"create", "mkdir", "rename_to"}
\* Where the operation's read / effect lands if the API lets the path through:
\*   "in" | "hid" | "out" | "none" (nothing there to act on) | "unknown" (not modelled)
NamedHidden(p) == \E i \in DOMAIN p : p[i] \in HiddenNames
Land(op, p) ==
  LET r == Resolve(p, Follows(op)) IN
  IF r.st = "beyond" THEN "out"
  ELSE IF r.st = "node" THEN Tree[r.n].zone
  ELSE IF r.st = "new" THEN (IF ~Creates(op) THEN "none"
                             ELSE IF r.name \in HiddenNames THEN "hid" ELSE Tree[r.dir].zone)
  ELSE IF r.st = "missing" THEN (IF ~Creates(op) THEN "none" ELSE IF r.dots THEN "unknown"
                                 ELSE IF NamedHidden(p) /\ Tree[r.dir].zone = "in" THEN "hid" ELSE Tree[r.dir].zone)
  ELSE "none"
\* Through which kind of entry a path leaves the project (names the class of an escape)
RECURSIVE CauseFrom(_, _, _)
CauseFrom(cur, p, i) ==
  IF i > Len(p) THEN "none"
  ELSE LET c == p[i] IN
    IF c \in {"", "."} THEN CauseFrom(cur, p, i + 1)
    ELSE IF c = ".." THEN (IF cur = Root \/ Tree[cur].zone = "out" THEN "parent-dir"
                           ELSE CauseFrom(Tree[cur].parent, p, i + 1))
    ELSE IF c \in HiddenNames THEN "hidden"
    ELSE LET x == Child(cur, c) IN
      IF x = "none" \/ Tree[x].kind = "absent" THEN "none"
      ELSE IF Tree[x].kind = "link"
           THEN LET y == Deref(x) IN
                IF Tree[y].kind = "absent"
                THEN (IF \A j \in (i + 1)..Len(p) : p[j] \in {"", "."} THEN "dangling-file-symlink" ELSE "dangling-dir-symlink")
                ELSE IF Tree[y].zone = "out" THEN (IF Tree[y].kind = "dir" THEN "dir-symlink" ELSE "file-symlink")
                ELSE IF Tree[y].kind = "dir" THEN CauseFrom(y, p, i + 1) ELSE "none"
      ELSE IF Tree[x].kind = "dir" THEN CauseFrom(x, p, i + 1) ELSE "none"
Cause(p) == IF IsAbs(p) THEN "absolute" ELSE CauseFrom(Root, p, 1)

\* ---- the designed admission check
Trimmed(p) == [i \in DOMAIN p |-> IF (i = 1 /\ p[i] = " ..") \/ (i = Len(p) /\ p[i] = ".. ") THEN ".." ELSE p[i]]
Normal(p) == SelectSeq(p, LAMBDA c : c \notin {"", "."})
LexicalOk(p) == /\ ~IsAbs(p) /\ Len(Normal(p)) > 0
                /\ \A i \in DOMAIN p : p[i] # ".." /\ p[i] \notin HiddenNames /\ p[i] # "<ABS>"
\* canonical closest existing ancestor of the parent of q (q is normalised), links followed
RECURSIVE Closest(_, _, _)
Closest(cur, q, i) ==
  IF i >= Len(q) THEN cur
  ELSE LET x == Child(cur, q[i]) IN
    IF x = "none" THEN cur
    ELSE LET y == Deref(x) IN
      IF Tree[y].kind = "absent" THEN cur
      ELSE IF Tree[y].kind = "dir" THEN Closest(y, q, i + 1) ELSE y
Accept(p0) ==
  LET p == Trimmed(p0) IN
  /\ LexicalOk(p)
  /\ LET q == Normal(p)  par == Closest(Root, q, 1) IN
     /\ Tree[par].zone # "out"
     /\ CheckTarget =>
          LET r == Walk(Root, q, 1, FALSE) IN
          (r.st = "node" /\ Tree[r.n].kind = "link") =>
             LET y == Deref(r.n) IN Tree[y].kind # "absent" /\ Tree[y].zone = "in"
RECURSIVE SeqsUpTo(_, _)
SeqsUpTo(S, n) == IF n = 0 THEN {<<>>} ELSE LET R == SeqsUpTo(S, n - 1) IN R \cup {Append(r, c) : r \in {x \in R : Len(x) = n - 1}, c \in S}
\* Confinement of the designed check over every path of at most n components and every operation
Escapes(n) == {<<op, p>> \in PathOps \X (SeqsUpTo(Comps, n) \ {<<>>}) : Accept(p) /\ Land(op, p) \in {"out", "hid"}}
Confinement(n) == Escapes(n) = {}

(***************************************************************************************)
(* Part 2 - optimistic concurrency and sessions on one file                            *)
(***************************************************************************************)
VARIABLES disk,          \* content id of the file (0 = the empty file seen inside a write's truncate window)
          entry,         \* the tracked document: [content, version]; version 0 = not tracked yet
          lock,          \* {} (free) or {the session that holds the state lock across truncate + write}
          sess,          \* per session: role, alive, what it has seen, the program counter of its request,
                         \* and `res`, the answer to its last request (observation only)
          nextContent, nops,
          lastSuccess,   \* ghost: content of the last successful write (or external edit / initial content)
          hist           \* observation only: the requests so far (script export)
vars == <<disk, entry, lock, sess, nextContent, nops, lastSuccess, hist>>
View == <<disk, entry, lock, [s \in Sessions |-> [f \in DOMAIN sess[s] \ {"res"} |-> sess[s][f]]], nextContent, nops, lastSuccess>>

Empty == 0
Free == {}
\* the tracked document follows the disk: created at version 1, bumped when the disk differs
Refresh(e, seen) == IF e.version = 0 THEN [content |-> seen, version |-> 1]
                    ELSE IF e.content # seen THEN [content |-> seen, version |-> e.version + 1] ELSE e
Res(ok, kind, ver, content) == [ok |-> ok, kind |-> kind, ver |-> ver, content |-> content]
NoRes == Res(FALSE, "none", 0, 0)
Session0(role) == [role |-> role, alive |-> role # "invalid", base |-> -1, ver |-> 0, prev |-> 0, pc |-> "idle", op |-> "none",
                   seen |-> -1, new |-> -1, exp |-> 0, okAtRead |-> FALSE, we |-> TRUE, res |-> NoRes]
Init == /\ disk = 1 /\ entry = [content |-> 0, version |-> 0] /\ lock = Free /\ nextContent = 2 /\ nops = 0
        /\ lastSuccess = 1 /\ hist = <<>>
        /\ sess = [s \in Sessions |-> Session0(IF s \in Viewers THEN "viewer" ELSE "editor")]
Idle(s) == sess[s].pc = "idle"
Quiet == Sequential => (lock = Free /\ \A t \in Sessions : Idle(t))
\* a session learns versions from the answers to its own requests
Learn(r, v) == [r EXCEPT !.prev = IF r.ver = v THEN r.prev ELSE r.ver, !.ver = v]
BeginOpen(s) ==
  /\ Idle(s) /\ nops < MaxOps /\ Quiet /\ nops' = nops + 1
  /\ sess' = [sess EXCEPT ![s].pc = "read", ![s].op = "open", ![s].res = NoRes]
  /\ hist' = Append(hist, [a |-> "open", s |-> s, we |-> TRUE, stale |-> FALSE])
  /\ UNCHANGED <<disk, entry, lock, nextContent, lastSuccess>>
\* a write request carries a version the session has learned - the latest, or (stale) the one
\* before; write-disabled mode refuses at once
BeginWrite(s, we, exp) ==
  /\ Idle(s) /\ nops < MaxOps /\ Quiet /\ exp \in {sess[s].ver, sess[s].prev} /\ nops' = nops + 1
  /\ sess' = [sess EXCEPT ![s].pc = IF we THEN "read" ELSE "idle", ![s].op = "write", ![s].we = we,
                          ![s].new = nextContent, ![s].exp = exp,
                          ![s].res = IF we THEN NoRes ELSE Res(FALSE, "forbidden", 0, 0)]
  /\ nextContent' = nextContent + 1
  /\ hist' = Append(hist, [a |-> "write", s |-> s, we |-> we, stale |-> exp # sess[s].ver])
  /\ UNCHANGED <<disk, entry, lock, lastSuccess>>
\* phase 1, no lock: read the file - as it is, or torn while somebody is inside truncate + write
ReadDisk(s) ==
  /\ sess[s].pc = "read"
  /\ \E seen \in {disk} \cup (IF lock # Free THEN TornIds ELSE {}) :
       sess' = [sess EXCEPT ![s].pc = "commit", ![s].seen = seen,
                            ![s].okAtRead = (Refresh(entry, seen).version = sess[s].exp)]
  /\ UNCHANGED <<disk, entry, lock, nextContent, nops, lastSuccess, hist>>
\* phase 2 of open, under the lock: session check, refresh, answer (content seen, version)
CommitOpen(s) ==
  /\ sess[s].pc = "commit" /\ sess[s].op = "open" /\ lock = Free
  /\ IF ~sess[s].alive
     THEN sess' = [sess EXCEPT ![s].pc = "idle", ![s].res = Res(FALSE, "unauthorized", 0, 0)] /\ UNCHANGED entry
     ELSE LET e == Refresh(entry, sess[s].seen) IN
          /\ entry' = e
          /\ sess' = [sess EXCEPT ![s] = Learn([@ EXCEPT !.pc = "idle", !.base = sess[s].seen,
                                                        !.res = Res(TRUE, "ok", e.version, sess[s].seen)], e.version)]
  /\ UNCHANGED <<disk, lock, nextContent, nops, lastSuccess, hist>>
\* phase 2 of write, under the lock: session + role check, refresh, version comparison, truncate
CommitWrite(s) ==
  /\ sess[s].pc = "commit" /\ sess[s].op = "write" /\ lock = Free
  /\ IF ~sess[s].alive \/ sess[s].role # "editor"
     THEN /\ sess' = [sess EXCEPT ![s].pc = "idle",
                                  ![s].res = Res(FALSE, IF sess[s].alive THEN "forbidden" ELSE "unauthorized", 0, 0)]
          /\ UNCHANGED <<disk, entry, lock>>
     ELSE LET e == Refresh(entry, sess[s].seen)
              pass == IF Variant = "racy" THEN sess[s].okAtRead ELSE e.version = sess[s].exp IN
          IF ~pass
          THEN /\ entry' = e /\ UNCHANGED <<disk, lock>>
               /\ sess' = [sess EXCEPT ![s].pc = "idle", ![s].res = Res(FALSE, "conflict", e.version, 0)]
          ELSE entry' = e /\ disk' = Empty /\ lock' = {s} /\ sess' = [sess EXCEPT ![s].pc = "writing"]
  /\ UNCHANGED <<nextContent, nops, lastSuccess, hist>>
\* phase 3 of write, still under the lock: the bytes, the new version, unlock
FinishWrite(s) ==
  /\ sess[s].pc = "writing" /\ lock = {s}
  /\ disk' = sess[s].new /\ lastSuccess' = sess[s].new /\ lock' = Free
  /\ entry' = [content |-> sess[s].new, version |-> entry.version + 1]
  /\ sess' = [sess EXCEPT ![s] = Learn([@ EXCEPT !.pc = "idle", !.base = sess[s].new,
                                                !.res = Res(TRUE, "ok", entry.version + 1, 0)], entry.version + 1)]
  /\ UNCHANGED <<nextContent, nops, hist>>
\* a failure outside the protocol, before anything was changed
Fail(s) ==
  /\ Failures /\ sess[s].pc \in {"read", "commit"}
  /\ sess' = [sess EXCEPT ![s].pc = "idle", ![s].res = Res(FALSE, "other", 0, 0)]
  /\ UNCHANGED <<disk, entry, lock, nextContent, nops, lastSuccess, hist>>
\* the session's idle time-to-live runs out
Expire(s) ==
  /\ sess[s].alive /\ nops < MaxOps /\ Quiet /\ nops' = nops + 1
  /\ Cardinality({t \in Sessions : ~sess[t].alive}) < MaxExpire
  /\ sess' = [sess EXCEPT ![s].alive = FALSE]
  /\ hist' = Append(hist, [a |-> "expire", s |-> s, we |-> TRUE, stale |-> FALSE])
  /\ UNCHANGED <<disk, entry, lock, nextContent, lastSuccess>>
\* somebody else changes the file (the property promises nothing about that edit itself)
ExternalEdit ==
  /\ External /\ nops < MaxOps /\ Quiet /\ nops' = nops + 1
  /\ disk' = nextContent /\ lastSuccess' = nextContent /\ nextContent' = nextContent + 1
  /\ hist' = Append(hist, [a |-> "ext", s |-> "", we |-> TRUE, stale |-> FALSE])
  /\ UNCHANGED <<entry, lock, sess>>
Internal(s) == ReadDisk(s) \/ CommitOpen(s) \/ CommitWrite(s) \/ FinishWrite(s) \/ Fail(s)
Next == \/ \E s \in Sessions : BeginOpen(s) \/ Internal(s) \/ Expire(s)
        \/ \E s \in Sessions, we \in BOOLEAN : \E exp \in {sess[s].ver, sess[s].prev} : exp > 0 /\ BeginWrite(s, we, exp)
        \/ ExternalEdit
Spec == Init /\ [][Next]_vars

\* ---- what the property demands
\* the file equals the content of the last successful write (outside a write's own truncate window)
DiskIsLastSuccess == lock = Free => disk = lastSuccess
\* a write gets through only if the writer had seen the content it replaces (no External)
Passing(s) == sess[s].pc = "commit" /\ sess'[s].pc = "writing"
NoLostUpdate == [][\A s \in Sessions : Passing(s) => sess[s].base = disk]_vars
\* successes form a chain v -> v+1
Chain == [][\A s \in Sessions : (sess[s].pc = "writing" /\ sess'[s].pc = "idle") =>
               /\ entry'.version = sess[s].exp + 1 /\ sess'[s].ver = sess[s].exp + 1 /\ entry.version = sess[s].exp]_vars
VersionsGrow == [][entry'.version >= entry.version]_vars
\* viewer sessions, expired sessions and write-disabled requests never change the file
OnlyLiveEditorsMutate == [][\A s \in Sessions : Passing(s) => sess[s].role = "editor" /\ sess[s].alive /\ sess[s].we]_vars
FileChangesOnlyInWrites == [][disk' # disk => \/ \E s \in Sessions : Passing(s) \/ (sess[s].pc = "writing" /\ sess'[s].pc = "idle")
                                              \/ External]_vars
=============================================================================
