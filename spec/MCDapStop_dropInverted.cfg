SPECIFICATION Spec
CONSTANTS
  Threads = {1}
  Dev = {"dropInverted"}
  CmdSet = {"continue", "pause", "next", "setBps0", "setBps1"}
  MaxReqs = 2
  MaxQueued = 1
  MaxStops = 2
INVARIANTS NoLostStop
CHECK_DEADLOCK FALSE
