SPECIFICATION Spec
CONSTANTS
  MaxCount = 6
  LoadAfterRestart = FALSE
INVARIANTS TypeOK WarmKeeps ColdFresh PowerCycleLikeWarm
PROPERTY RequestTaken
CHECK_DEADLOCK FALSE
