SPECIFICATION Spec
CONSTANTS
  Drivers = {d1, d2, d3}
  SkipDeliverOnWatchdog = FALSE
INVARIANTS TypeOK SafeBeforeReport ReportIsCause NothingAfterReport
PROPERTY EventuallyReported
CHECK_DEADLOCK FALSE
