SPECIFICATION Spec
CONSTANTS
  Mode = "skel"
  NScopes = 0
  NameSeq <- Names4
  MaxDecls = 0
  MaxRefs = 0
  MaxReqs = 6
  ExportScripts = TRUE
  AllowHomonyms = TRUE
VIEW View
CHECK_DEADLOCK FALSE
INVARIANTS
  Export
