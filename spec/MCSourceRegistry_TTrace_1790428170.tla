---- MODULE MCSourceRegistry_TTrace_1790428170 ----
EXTENDS Sequences, TLCExt, MCSourceRegistry, Toolbox, MCSourceRegistry_TEConstants, Naturals, TLC

_expression ==
    LET MCSourceRegistry_TEExpression == INSTANCE MCSourceRegistry_TEExpression
    IN MCSourceRegistry_TEExpression!expression
----

_trace ==
    LET MCSourceRegistry_TETrace == INSTANCE MCSourceRegistry_TETrace
    IN MCSourceRegistry_TETrace!trace
----

_inv ==
    ~(
        TLCGet("level") = Len(_TETrace)
        /\
        ids = ((k1 :> 0 @@ k2 :> 1 @@ k3 :> 1))
        /\
        text = ((k1 :> t1 @@ k2 :> t1 @@ k3 :> t1))
        /\
        mark = (2)
    )
----

_init ==
    /\ ids = _TETrace[1].ids
    /\ text = _TETrace[1].text
    /\ mark = _TETrace[1].mark
----

_next ==
    /\ \E i,j \in DOMAIN _TETrace:
        /\ \/ /\ j = i + 1
              /\ i = TLCGet("level")
        /\ ids  = _TETrace[i].ids
        /\ ids' = _TETrace[j].ids
        /\ text  = _TETrace[i].text
        /\ text' = _TETrace[j].text
        /\ mark  = _TETrace[i].mark
        /\ mark' = _TETrace[j].mark

\* Uncomment the ASSUME below to write the states of the error trace
\* to the given file in Json format. Note that you can pass any tuple
\* to `JsonSerialize`. For example, a sub-sequence of _TETrace.
    \* ASSUME
    \*     LET J == INSTANCE Json
    \*         IN J!JsonSerialize("MCSourceRegistry_TTrace_1790428170.json", _TETrace)

=============================================================================

 Note that you can extract this module `MCSourceRegistry_TEExpression`
  to a dedicated file to reuse `expression` (the module in the 
  dedicated `MCSourceRegistry_TEExpression.tla` file takes precedence 
  over the module `MCSourceRegistry_TEExpression` below).

---- MODULE MCSourceRegistry_TEExpression ----
EXTENDS Sequences, TLCExt, MCSourceRegistry, Toolbox, MCSourceRegistry_TEConstants, Naturals, TLC

expression == 
    [
        \* To hide variables of the `MCSourceRegistry` spec from the error trace,
        \* remove the variables below.  The trace will be written in the order
        \* of the fields of this record.
        ids |-> ids
        ,text |-> text
        ,mark |-> mark
        
        \* Put additional constant-, state-, and action-level expressions here:
        \* ,_stateNumber |-> _TEPosition
        \* ,_idsUnchanged |-> ids = ids'
        
        \* Format the `ids` variable as Json value.
        \* ,_idsJson |->
        \*     LET J == INSTANCE Json
        \*     IN J!ToJson(ids)
        
        \* Lastly, you may build expressions over arbitrary sets of states by
        \* leveraging the _TETrace operator.  For example, this is how to
        \* count the number of times a spec variable changed up to the current
        \* state in the trace.
        \* ,_idsModCount |->
        \*     LET F[s \in DOMAIN _TETrace] ==
        \*         IF s = 1 THEN 0
        \*         ELSE IF _TETrace[s].ids # _TETrace[s-1].ids
        \*             THEN 1 + F[s-1] ELSE F[s-1]
        \*     IN F[_TEPosition - 1]
    ]

=============================================================================



Parsing and semantic processing can take forever if the trace below is long.
 In this case, it is advised to uncomment the module below to deserialize the
 trace from a generated binary file.

\*
\*---- MODULE MCSourceRegistry_TETrace ----
\*EXTENDS IOUtils, MCSourceRegistry, MCSourceRegistry_TEConstants, TLC
\*
\*trace == IODeserialize("MCSourceRegistry_TTrace_1790428170.bin", TRUE)
\*
\*=============================================================================
\*

---- MODULE MCSourceRegistry_TETrace ----
EXTENDS MCSourceRegistry, MCSourceRegistry_TEConstants, TLC

trace == 
    <<
    ([ids |-> <<>>,text |-> <<>>,mark |-> 0]),
    ([ids |-> (k1 :> 0),text |-> (k1 :> t1),mark |-> 1]),
    ([ids |-> (k1 :> 0 @@ k2 :> 1),text |-> (k1 :> t1 @@ k2 :> t1),mark |-> 2]),
    ([ids |-> (k2 :> 1),text |-> (k2 :> t1),mark |-> 0]),
    ([ids |-> (k1 :> 0 @@ k2 :> 1),text |-> (k1 :> t1 @@ k2 :> t1),mark |-> 1]),
    ([ids |-> (k1 :> 0 @@ k2 :> 1 @@ k3 :> 1),text |-> (k1 :> t1 @@ k2 :> t1 @@ k3 :> t1),mark |-> 2])
    >>
----


=============================================================================

---- MODULE MCSourceRegistry_TEConstants ----
EXTENDS MCSourceRegistry

CONSTANTS k1, k2, k3, k4, t1, t2

=============================================================================

---- CONFIG MCSourceRegistry_TTrace_1790428170 ----
CONSTANTS
    Keys = { k1 , k2 , k3 , k4 }
    Texts = { t1 , t2 }
    MaxId = 7
    ReuseLowered = TRUE
    k2 = k2
    k3 = k3
    k1 = k1
    k4 = k4
    t1 = t1
    t2 = t2

INVARIANT
    _inv

CHECK_DEADLOCK
    \* CHECK_DEADLOCK off because of PROPERTY or INVARIANT above.
    FALSE

INIT
    _init

NEXT
    _next

CONSTANT
    _TETrace <- _trace

ALIAS
    _expression
=============================================================================
\* Generated on Sat Sep 26 13:09:30 UTC 2026