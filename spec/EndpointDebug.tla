--------------------------- MODULE EndpointDebug ---------------------------
(* C17 at the control endpoint: the run-control requests `pause`, `resume`, step_in / step_over / step_out,       *)
(* `breakpoints.set`, `breakpoints.clear_all` (control.rs handle_pause / handle_resume /    *)
(* handle_step / handle_breakpoints_set ...) in front of DebugControl, with a program of several *)
(* tasks.  DebugControl itself is the subject of DebugControl.tla; here it is abstracted to *)
(* what the endpoint's user relies on:                                                      *)
(*   - a cycle executes the statement of every task that is due in it (the always-due task  *)
(*     `Every` in each cycle), then ends;                                                   *)
(*   - the hook before a statement stops the cycle thread -- one stop notification -- when   *)
(*     a pause is pending that is meant for this task, the task has a breakpoint (unless it *)
(*     is the statement execution was just resumed at), or a step is pending;               *)
(*   - while stopped nothing executes and no cycle ends; resume / step let it go on.        *)
(* `pause` is a request about the PROGRAM: it is meant for whichever task executes next.    *)
(* PauseOnlyLastThread is the deviation "pause is addressed to the task that executed last" *)
(* -- a task that is not due again (an event task) then never stops the program.            *)
EXTENDS Naturals, FiniteSets, TLC
CONSTANTS Tasks, Every, PauseOnlyLastThread
ASSUME Every \in Tasks
NoTask == "none"
VARIABLES mode,     \* "run" | "pausing" | "stepping" | "stopped"
          target,   \* whom a pending pause is meant for: "any" or a task
          bps,      \* tasks whose statement carries a breakpoint
          todo,     \* tasks still to execute in the cycle in progress ({} between cycles / at its end)
          inCycle,  \* a cycle is in progress
          last,     \* the task that executed last
          at,       \* the task execution is stopped at / was resumed at (its breakpoint is passed once)
          stops,    \* stop notifications produced and not yet collected
          ended     \* cycles that ended since the pending pause was acknowledged (ghost)
vars == <<mode, target, bps, todo, inCycle, last, at, stops, ended>>

Init == /\ mode = "run" /\ target = "any" /\ bps = {} /\ todo = {} /\ inCycle = FALSE
        /\ last = NoTask /\ at = NoTask /\ stops = 0 /\ ended = 0

\* ---- the resource thread
CycleStart == /\ ~inCycle /\ mode # "stopped"
              /\ \E due \in SUBSET Tasks : Every \in due /\ todo' = due
              /\ inCycle' = TRUE /\ UNCHANGED <<mode, target, bps, last, at, stops, ended>>
Stops(t) == \/ (mode = "pausing" /\ target \in {"any", t})
            \/ mode = "stepping"
            \/ (t \in bps /\ at # t)
\* (the thread stands in front of the statement it was stopped at: that one is the next to execute)
Stmt(t) == /\ inCycle /\ t \in todo /\ mode # "stopped" /\ at \in {NoTask, t}
           /\ IF Stops(t)
              THEN /\ mode' = "stopped" /\ at' = t /\ stops' = stops + 1 /\ ended' = 0
                   /\ UNCHANGED <<todo, last, target>>          \* blocked in front of the statement
              ELSE /\ todo' = todo \ {t} /\ last' = t /\ at' = NoTask
                   /\ UNCHANGED <<mode, stops, ended, target>>
           /\ UNCHANGED <<bps, inCycle>>
CycleEnd == /\ inCycle /\ todo = {} /\ mode # "stopped"
            /\ inCycle' = FALSE /\ ended' = (IF mode = "pausing" THEN ended + 1 ELSE ended)
            /\ UNCHANGED <<mode, target, bps, todo, last, at, stops>>

\* ---- requests (each is answered at once)
ReqPause == /\ mode = "run" /\ mode' = "pausing" /\ ended' = 0
            /\ target' = (IF PauseOnlyLastThread /\ last # NoTask THEN last ELSE "any")
            /\ UNCHANGED <<bps, todo, inCycle, last, at, stops>>
\* going on from a stop executes the statement stopped at (its breakpoint is not hit again)
ReqResume == /\ mode' = "run" /\ ended' = 0 /\ UNCHANGED <<target, bps, todo, inCycle, last, at, stops>>
ReqStep == /\ mode = "stopped" /\ mode' = "stepping" /\ ended' = 0 /\ UNCHANGED <<target, bps, todo, inCycle, last, at, stops>>
SetBp(t) == bps' = bps \cup {t} /\ UNCHANGED <<mode, target, todo, inCycle, last, at, stops, ended>>
ClearBps == bps' = {} /\ UNCHANGED <<mode, target, todo, inCycle, last, at, stops, ended>>
Collect == stops > 0 /\ stops' = 0 /\ UNCHANGED <<mode, target, bps, todo, inCycle, last, at, ended>>
\* a step that is pending executes the statement it was issued at, and stops in front of the next one
StepGo(t) == /\ mode = "stepping" /\ at = t /\ inCycle /\ t \in todo
             /\ todo' = todo \ {t} /\ last' = t /\ at' = NoTask
             /\ UNCHANGED <<mode, target, bps, inCycle, stops, ended>>

Thread == CycleStart \/ CycleEnd \/ \E t \in Tasks : (IF mode = "stepping" /\ at = t THEN StepGo(t) ELSE Stmt(t))
Next == Thread \/ ReqPause \/ ReqResume \/ ReqStep \/ ClearBps \/ Collect \/ \E t \in Tasks : SetBp(t)
Spec == Init /\ [][Next]_vars /\ WF_vars(Thread)

TypeOK == /\ mode \in {"run", "pausing", "stepping", "stopped"} /\ target \in Tasks \cup {"any"}
          /\ bps \subseteq Tasks /\ todo \subseteq Tasks /\ inCycle \in BOOLEAN /\ last \in Tasks \cup {NoTask}
          /\ at \in Tasks \cup {NoTask} /\ stops \in 0..3 /\ ended \in 0..3
\* C17: a pause stops the program: at most the cycle that was in flight ends once it is acknowledged
PauseStops == mode = "pausing" => ended <= 1
\* a stop is reported once and not again before execution goes on
OneStop == stops <= 1 \/ mode # "stopped"
\* liveness: an acknowledged pause, a pending step and a breakpoint on a due task end in a stop
PauseEventuallyStops == (mode = "pausing") ~> (mode \in {"stopped", "run"})
StepEventuallyStops == (mode = "stepping") ~> (mode \in {"stopped", "run"})
\* bound for TLC: notifications are collected before they pile up
Bound == stops <= 2 /\ ended <= 2
=============================================================================
