------------------------------ MODULE ControlAuth ------------------------------
(* The runtime control endpoint (crates/trust-runtime/src/control.rs): one JSON request   *)
(* line in, one reply line out; a request is performed only with a sufficient role.        *)
(*                                                                                         *)
(* Written from property C18 and shaped like handle_request_line / handle_request_value:   *)
(* one action per code phase                                                               *)
(*     Receive -> Parse -> Authenticate -> Authorise -> DebugGate -> Dispatch -> (reply)   *)
(* each of which may end the request with a refusal.  `Outcomes` is the same pipeline as   *)
(* one function of (request kind, credential, well-formedness); the model checker shows    *)
(* the two agree (MCControlAuth!PipelineIsOutcomes) and the trace specification uses the   *)
(* function (ControlAuthTrace) -- one source of truth.                                     *)
(*                                                                                         *)
(* What the property leaves to the endpoint is a PARAMETER here, not a constant:           *)
(*   - the role a request kind requires (`cfg.tbl[k].req`); the repository documents no    *)
(*     role table and the property speaks of "the role required for that request type",    *)
(*     whatever the endpoint defines.  The specification demands that it is a genuine      *)
(*     threshold (roles below it are refused, the refusal is monotone in the role order)   *)
(*     and that it obeys the one constraint the property does state: a kind that can       *)
(*     change runtime state, I/O, configuration, program or pairing data requires more     *)
(*     than the viewer role (TableOK);                                                     *)
(*   - which kinds are mutating (`cfg.tbl[k].mut`);                                        *)
(*   - the role of a credential in the situations the property does not name (RolesOf).    *)
(* The one explicit list is the debug class, written from the property's wording and the   *)
(* endpoint's naming (DebugTypes).                                                         *)
(*                                                                                         *)
(* The static configuration `cfg` is a VARIABLE fixed by Init/Reset (never a CONSTANT):    *)
(* one model-checking run ranges over every admissible table and one trace-validation run  *)
(* over thousands of recorded (configuration, request kind) pairs.                         *)
EXTENDS Integers, Sequences, FiniteSets, TLC

\* ----------------------------------- roles -----------------------------------
Viewer == 0
Operator == 1
Engineer == 2
Admin == 3
Roles == Viewer..Admin          \* the role order of the property: viewer < operator < engineer < admin
Nobody == 4                     \* "required role" of a kind that no credential can perform
NoRole == -1                    \* the credential maps to no role at all

\* ------------------------------- request classes ------------------------------
\* debug-class requests: run control, breakpoints, evaluation and variable writes, variable
\* forcing, debugger inspection.  Requests that merely use the debugger object as a
\* transport (io.write, io.force, hmi.write) are deliberately not in it.
DebugTypes == {"pause", "resume", "step_in", "step_over", "step_out",
               "breakpoints.set", "breakpoints.clear", "breakpoints.clear_all", "breakpoints.clear_id", "breakpoints.list",
               "eval", "set", "debug.evaluate",
               "var.force", "var.unforce", "var.forced",
               "debug.state", "debug.stops", "debug.stack", "debug.scopes", "debug.variables", "debug.breakpoint_locations"}
DebugClass(t) == t \in DebugTypes

\* -------------------------------- credentials ---------------------------------
\* a credential is [kind, role, st]:
\*   kind = "none" (no auth field) | "wrong" (a string that is no token; st says what it
\*          shares with one: "", "empty", "prefix", "ext", "case", "pprefix", "pext") | "admin" (the
\*          configured auth token) | "pair" (a pairing token with role `role` and status
\*          st \in {"valid", "expired", "revoked"})
\* RolesOf = the roles the property allows the endpoint to give that credential:
\*   - a valid pairing token has its own role in every configuration; pairing through the
\*     endpoint never issues admin tokens, so for a stored token that claims admin the
\*     endpoint may honour it or cap it at engineer;
\*   - with an auth token configured, that token is admin and every other credential
\*     (none, wrong, expired, revoked) is unauthenticated;
\*   - without a configured token the property does not say what an absent / unknown /
\*     stale credential is worth (the code treats the endpoint as locally trusted): any role
\*     or none.
RolesOf(c, token) ==
  IF c.kind = "pair" /\ c.st = "valid" THEN (IF c.role = Admin THEN {Engineer, Admin} ELSE {c.role})
  ELSE IF token THEN (IF c.kind = "admin" THEN {Admin} ELSE {NoRole})
  ELSE NoRole..Admin
Unauthenticated(c, token) == RolesOf(c, token) = {NoRole}

\* ----------------------------------- state -----------------------------------
\* cfg = [token : BOOLEAN, debug : BOOLEAN, tbl : [kinds -> [t, req, mut]]]
\*   token  an auth token is configured            debug  debugging is enabled
\*   tbl[k] = [t |-> request type name, req |-> Roles \cup {Nobody}, mut |-> BOOLEAN]
\*            (a kind is a request type together with the parameters that select its
\*            required role: the endpoint may, and for config.set does, look at them)
\* pc, cur : the request in flight and the phase it is in
\* eff     : history of performed effects, pairs <<kind, role it was performed with>>
\* out     : the last reply [k, cred, wf, role, outcome, changed, data]
VARIABLES cfg, pc, cur, eff, out
cvars == <<cfg, pc, cur, eff, out>>

Kinds == DOMAIN cfg.tbl
Required(k) == cfg.tbl[k].req
Mutating(k) == cfg.tbl[k].mut
TypeOf(k) == cfg.tbl[k].t
\* the constraint the property puts on the endpoint's table
TableOK(tbl) == \A k \in DOMAIN tbl : tbl[k].mut => tbl[k].req > Viewer

Refusals == {"invalid", "unauthorized", "forbidden", "debug_disabled"}
\* the gates behind the parser, as a function of the role the credential was given
Gate(k, role) ==
  IF role = NoRole THEN "unauthorized"
  ELSE IF role < Required(k) THEN "forbidden"
  ELSE IF DebugClass(TypeOf(k)) /\ ~cfg.debug THEN "debug_disabled"
  ELSE "dispatched"
\* every outcome the specification allows for a request line: wf = "no" is a line that is no
\* request (not JSON, not an object, no type), "yes" a well-formed request, "maybe" a line
\* whose acceptance the property leaves open (missing or odd id, unknown extra fields ...)
Outcomes(k, c, wf) ==
  LET gated == {Gate(k, r) : r \in RolesOf(c, cfg.token)} IN
  CASE wf = "no" -> {"invalid"}
    [] wf = "maybe" -> gated \cup {"invalid"}
    [] OTHER -> gated

Idle == [k |-> "", cred |-> [kind |-> "none", role |-> NoRole, st |-> ""], wf |-> "yes", role |-> NoRole]
NoReply == [k |-> "", cred |-> Idle.cred, wf |-> "yes", role |-> NoRole, outcome |-> "none", changed |-> FALSE, data |-> FALSE]

\* ---------------------------------- actions ----------------------------------
Reply(role, o, changed, data) ==
  /\ out' = [k |-> cur.k, cred |-> cur.cred, wf |-> cur.wf, role |-> role, outcome |-> o, changed |-> changed, data |-> data]
  /\ pc' = "idle" /\ cur' = Idle
Refuse(o) == Reply(cur.role, o, FALSE, FALSE) /\ UNCHANGED <<cfg, eff>>

\* a line arrives (transport.rs: one line, one handle_request_line)
Receive(k, c, wf) ==
  /\ pc = "idle" /\ k \in Kinds
  /\ cur' = [k |-> k, cred |-> c, wf |-> wf, role |-> NoRole] /\ pc' = "parse" /\ out' = NoReply
  /\ UNCHANGED <<cfg, eff>>
\* serde_json::from_str + from_value::<ControlRequest>
Parse ==
  /\ pc = "parse"
  /\ \/ cur.wf \in {"no", "maybe"} /\ Refuse("invalid")
     \/ cur.wf \in {"yes", "maybe"} /\ pc' = "authenticate" /\ UNCHANGED <<cfg, cur, eff, out>>
\* resolve_request_role
Authenticate ==
  /\ pc = "authenticate"
  /\ \E r \in RolesOf(cur.cred, cfg.token) :
       IF r = NoRole THEN Refuse("unauthorized")
       ELSE cur' = [cur EXCEPT !.role = r] /\ pc' = "authorise" /\ UNCHANGED <<cfg, eff, out>>
\* required_role_for_control_request + AccessRole::allows
Authorise ==
  /\ pc = "authorise"
  /\ IF cur.role < Required(cur.k) THEN Refuse("forbidden")
     ELSE pc' = "gate" /\ UNCHANGED <<cfg, cur, eff, out>>
\* is_debug_request while debug_enabled is off
DebugGate ==
  /\ pc = "gate"
  /\ IF DebugClass(TypeOf(cur.k)) /\ ~cfg.debug THEN Refuse("debug_disabled")
     ELSE pc' = "dispatch" /\ UNCHANGED <<cfg, cur, eff, out>>
\* handlers::dispatch: the handler may fail on its own (bad parameters, nothing to do), so a
\* mutating kind may or may not change state and a reply may or may not carry data
Dispatch ==
  /\ pc = "dispatch"
  /\ \E changed \in (IF Mutating(cur.k) THEN BOOLEAN ELSE {FALSE}), data \in BOOLEAN :
       /\ eff' = (IF changed THEN eff \cup {<<cur.k, cur.role>>} ELSE eff)
       /\ Reply(cur.role, "dispatched", changed, data)
  /\ UNCHANGED cfg

Step == Parse \/ Authenticate \/ Authorise \/ DebugGate \/ Dispatch
=================================================================================
