SPECIFICATION Spec
CONSTANTS
  MaxSteps = 7
  MaxCycles = 3
  ExportScripts = FALSE
  EnableFaults = TRUE
  SrcVals = {0, 3, 255}
  Dts = {1, 2, 5}
VIEW View
CHECK_DEADLOCK FALSE
INVARIANTS
  AtMostOncePerCycle
  OrderIsSorted
  BackgroundAfterTasks
  ExecutedIsDueSet
  BackgroundAlways
  OverrunsMonotone
  NoReplay
  DriverCallShape
  ReadsFirst
  PublishedIsEncodeOfFinal
  LatchStable
  InputsAreDriverData
  OutputLocality
  FaultLatchMonotone
  RefusedCyclesAreInert
  SafeStateDelivered
  NoProgramOutputsAfterFault
  FaultIsLatched
