SPECIFICATION Spec
CONSTANTS
  CodeTTL = 300
  TokenTTL = 2592000
  MaxTokens = 256
  Variant = "code"
  T0 = 10000000
  SeedMode = "all"
  MaxNow = 100000000
  MaxCodes = 8
  MaxIssued = 8
  ReqRoles <- ReqRolesAll
  Kinds = {"status", "restart", "io.unforce", "pair.list", "pair.start"}
  RealTime = TRUE
  MaxSteps = 16
  ExportScripts = TRUE
CHECK_DEADLOCK FALSE
INVARIANTS
  Export
