SPECIFICATION Spec
CONSTANTS
  Sessions = {"a", "b", "v"}
  Viewers = {"v"}
  MaxOps = 12
  MaxExpire = 1
  TornIds = {}
  Failures = FALSE
  Variant = "locked"
  External = TRUE
  Sequential = TRUE
  CheckTarget = TRUE
  PathLen = 0
  Mode = "export"
VIEW View
CHECK_DEADLOCK FALSE
INVARIANTS Export
