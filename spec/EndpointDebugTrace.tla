------------------------- MODULE EndpointDebugTrace -------------------------
(* C17 conformance at the control endpoint.  One run = one real ControlServer (control mode *)
(* debug) in front of the DebugControl of a three-task runtime whose cycles a harness thread *)
(* runs.  The log is totally ordered (one mutex):                                            *)
(*   Req{t}      a run-control request: `pause` logged when its reply was there, the others  *)
(*               before they were sent (what they set off is visible before the reply)       *)
(*   Stops{n}    `debug.stops` returned n > 0 stop notifications                             *)
(*   Cyc         a cycle ended                                                               *)
(*   NoStop / NoProgress   the controller waited 3-5 s for a stop / for two cycles in vain   *)
(* The controller is disciplined (it pauses only while running without breakpoints, steps   *)
(* and resumes only from a stop it has seen), so the rules are those of EndpointDebug:       *)
(*   PauseStops   between the acknowledgement of a pause and the stop it causes at most one  *)
(*                cycle ends (the one that was in flight)                                    *)
(*   while a reported stop has not been answered by resume / step, no cycle ends             *)
(*   one stop notification per stop; pause, step and (on a due task) a breakpoint do stop;   *)
(*   resume makes the cycles go on; the cycle thread can always be ended                     *)
EXTENDS Sequences, Integers, Json, IOUtils, TLC
Rec == ndJsonDeserialize(IOEnv.TRACE)
VARIABLES l, run, mode, ended, bad, nruns, npause, nstops
tvars == <<l, run, mode, ended, bad, nruns, npause, nstops>>
E == Rec[l]
More == l <= Len(Rec)
Init == l = 1 /\ run = 0 /\ mode = "run" /\ ended = 0 /\ bad = <<>> /\ nruns = 0 /\ npause = 0 /\ nstops = 0
Mark(why) == bad' = Append(bad, [run |-> run, line |-> l, why |-> why, mode |-> mode])
Steps == {"step_in", "step_over", "step_out"}

Reset == /\ E.a = "Reset" /\ l' = l + 1 /\ run' = run + 1 /\ nruns' = nruns + 1 /\ mode' = "run" /\ ended' = 0
         /\ UNCHANGED <<bad, npause, nstops>>
Req == /\ E.a = "Req" /\ l' = l + 1
       /\ mode' = (CASE E.t = "pause" -> "pausing" [] E.t = "resume" -> "run" [] E.t \in Steps -> "stepping" [] OTHER -> mode)
       /\ ended' = (IF E.t \in {"pause", "resume"} \cup Steps THEN 0 ELSE ended)
       /\ npause' = (IF E.t = "pause" THEN npause + 1 ELSE npause)
       /\ (IF ~E.ok THEN Mark({"request-refused:" \o E.t}) ELSE UNCHANGED bad)
       /\ UNCHANGED <<run, nruns, nstops>>
Cyc == /\ E.a = "Cyc" /\ l' = l + 1 /\ ended' = ended + 1
       /\ (IF mode = "stopped" THEN Mark({"cycle-ends-while-stopped"})
           ELSE IF mode = "pausing" /\ ended >= 1 THEN Mark({"cycles-end-after-pause-was-acknowledged"})
           ELSE UNCHANGED bad)
       /\ UNCHANGED <<run, mode, nruns, npause, nstops>>
Stops == /\ E.a = "Stops" /\ l' = l + 1 /\ mode' = "stopped" /\ ended' = 0 /\ nstops' = nstops + E.n
         /\ (IF E.n > 1 \/ mode = "stopped" THEN Mark({"more-than-one-stop-notification"}) ELSE UNCHANGED bad)
         /\ UNCHANGED <<run, nruns, npause>>
Waited == /\ E.a \in {"NoStop", "NoProgress", "Refused"} /\ l' = l + 1
          /\ Mark({IF E.a = "NoStop" THEN E.after \o "-never-stopped" ELSE IF E.a = "Refused" THEN "request-refused:" \o E.t ELSE "no-cycle-after-resume"})
          /\ UNCHANGED <<run, mode, ended, nruns, npause, nstops>>
End == /\ E.a = "End" /\ l' = l + 1
       /\ (IF ~E.joined THEN Mark({"cycle-thread-wedged"}) ELSE UNCHANGED bad)
       /\ UNCHANGED <<run, mode, ended, nruns, npause, nstops>>
Next == More /\ (Reset \/ Req \/ Cyc \/ Stops \/ Waited \/ End)
Spec == Init /\ [][Next]_tvars
Done == l = Len(Rec) + 1 => JsonSerialize(IOEnv.OUT, [events |-> Len(Rec), runs |-> nruns, pauses |-> npause, stops |-> nstops, bad |-> bad])
=============================================================================
