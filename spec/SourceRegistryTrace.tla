------------------------ MODULE SourceRegistryTrace ------------------------
(* Conformance of the real trust_hir::project::Project with SourceRegistry: every step of a    *)
(* recorded history carries the complete observable registry (`obs`: per key its id, whether   *)
(* key -> id -> key closes, the number of the text the Database holds under that id -- 9 = a   *)
(* text that is not this key's -- and whether the file's diagnostics equal those of a brand-   *)
(* new Database with the same (id, text) pairs).  The model keeps `text`; ids are the code's   *)
(* choice and only constrained: an existing key keeps its id, live ids are pairwise distinct.  *)
EXTENDS Sequences, Integers, FiniteSets, Json, IOUtils, TLC
Rec == ndJsonDeserialize(IOEnv.TRACE)
NKeys == 6
VARIABLES l, run, text, ids, bad, nsteps
tvars == <<l, run, text, ids, bad, nsteps>>
E == Rec[l]
More == l <= Len(Rec)
Init == l = 1 /\ run = 0 /\ text = [k \in 1..NKeys |-> 0] /\ ids = [k \in 1..NKeys |-> -1] /\ bad = <<>> /\ nsteps = 0
Reset == /\ E.a = "Reset" /\ l' = l + 1 /\ run' = run + 1 /\ text' = [k \in 1..NKeys |-> 0] /\ ids' = [k \in 1..NKeys |-> -1]
         /\ UNCHANGED <<bad, nsteps>>
ObsOf(k) == E.obs[k]
Why(t2) ==
    (IF E.panic THEN {"panic"} ELSE {})
    \cup (IF \E k \in 1..NKeys : ObsOf(k).live # (t2[k] # 0) THEN {"live-keys"} ELSE {})
    \cup (IF \E a, b \in 1..NKeys : a # b /\ ObsOf(a).live /\ ObsOf(b).live /\ ObsOf(a).id = ObsOf(b).id THEN {"file-id-handed-out-twice"} ELSE {})
    \cup (IF \E k \in 1..NKeys : ObsOf(k).live /\ ~ObsOf(k).back THEN {"id-does-not-map-back-to-its-key"} ELSE {})
    \cup (IF \E k \in 1..NKeys : ObsOf(k).live /\ t2[k] # 0 /\ ObsOf(k).text # t2[k] THEN {"file-reports-another-text"} ELSE {})
    \cup (IF \E k \in 1..NKeys : ObsOf(k).live /\ ids[k] # -1 /\ text[k] # 0 /\ t2[k] # 0 /\ ObsOf(k).id # ids[k] THEN {"id-of-a-live-key-changed"} ELSE {})
    \cup (IF \E k \in 1..NKeys : ObsOf(k).live /\ ~ObsOf(k).diagsOk THEN {"diagnostics-differ-from-fresh-database"} ELSE {})
Step == /\ E.a \in {"Set", "Remove"} /\ l' = l + 1 /\ nsteps' = nsteps + 1
        /\ LET t2 == [text EXCEPT ![E.k] = IF E.a = "Set" THEN E.t ELSE 0]
               w == Why(t2)
           IN /\ text' = t2
              /\ ids' = [k \in 1..NKeys |-> IF ObsOf(k).live THEN ObsOf(k).id ELSE -1]
              /\ bad' = IF w = {} THEN bad ELSE Append(bad, [run |-> run, line |-> l, why |-> w])
        /\ UNCHANGED run
Next == More /\ (Reset \/ Step)
Spec == Init /\ [][Next]_tvars
Done == l = Len(Rec) + 1 => JsonSerialize(IOEnv.OUT, [events |-> Len(Rec), steps |-> nsteps, bad |-> bad])
=============================================================================
