SPECIFICATION Spec
CONSTANTS
  Mode = "all"
  NScopes = 3
  NameSeq <- Names3
  MaxDecls = 3
  MaxRefs = 2
  MaxReqs = 1
  ExportScripts = FALSE
  AllowHomonyms = TRUE
VIEW View
CHECK_DEADLOCK FALSE
INVARIANTS
  AppliedPreservesBinding
  EditsAreTheOccurrences
  OnlyValidNamesApplied
  AppliedOnlyWhenAllowed
  BackIsAdmissible
  BackRestores
  RefusalChangesNothing
  SafeIsExactOnce
  CaseVariantIsSafeOnce
