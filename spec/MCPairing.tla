------------------------------- MODULE MCPairing -------------------------------
(* Design-level model checking of Pairing with tiny constants (code and token life times of *)
(* a few ticks, a cap of two enabled tokens, a clock of a few ticks): every interleaving of  *)
(* start / claim (right, wrong, stale code; every requested role) / validate / list /        *)
(* revoke (by id, unknown id, all) / tick / reload / request, from an empty file and from a  *)
(* file that already holds a token.  The invariants are the clauses about "a valid pairing   *)
(* token" written on the HISTORY (claims, revocations, clock), not on the mechanism.         *)
(* Instances with a deliberately broken store (Variant) must each violate the clause they    *)
(* break; the instance with a legacy file entry (no expiry) documents the one situation in   *)
(* which a restart does change what validates.                                               *)
(* The same module exports behaviours as scripts for the real PairingStore (Export).         *)
EXTENDS Pairing, Json

CONSTANTS T0,            \* clock at start
          SeedMode,      \* which token files the run may start from: "plain" | "legacy" | "none"
          MaxNow,        \* the clock stops here
          MaxCodes,      \* codes handed out per behaviour
          MaxIssued,     \* tokens per behaviour (seeded ones included)
          ReqRoles,      \* roles a claim may request (NoRole = none)
          Kinds,         \* request kinds of Req
          RealTime,      \* TRUE: ticks jump to the interesting instants of the real constants (export)
          MaxSteps,      \* exported behaviours have this many steps
          ExportScripts

VARIABLES hist
mvars == <<vars, hist>>
View == vars

ReqRolesSmall == {NoRole, Viewer, Admin}
ReqRolesAll == {NoRole, Viewer, Operator, Engineer, Admin}

SeedTok(role, en, exp, created) == [id |-> created, tok |-> 1, role |-> role, enabled |-> en, exp |-> exp, created |-> created]
Plain == <<(<<>>), <<SeedTok(Admin, TRUE, T0 + 1, T0)>>, <<SeedTok(Engineer, FALSE, T0 + TokenTTL, T0)>>>>
\* entries written by a version without expiry: one overdue at start, one not yet
Legacy == <<(<<SeedTok(Operator, TRUE, 0, 0)>>), <<SeedTok(Operator, TRUE, 0, T0)>>>>
SeedList == CASE SeedMode = "none" -> <<(<<>>)>>
              [] SeedMode = "plain" -> Plain
              [] SeedMode = "legacy" -> Legacy
              [] OTHER -> Plain \o Legacy

\* script step, uniform shape: [op, c, role, k, id, dt, kind]
Step(op, c, role, k, id, dt, kind) == [op |-> op, c |-> c, role |-> role, k |-> k, id |-> id, dt |-> dt, kind |-> kind]
Init == \E i \in DOMAIN SeedList :
          /\ InitWith(T0, SeedList[i])
          /\ hist = IF ExportScripts THEN <<Step("Seed", i, NoRole, 0, -1, 0, "")>> ELSE <<>>

Log(st) == hist' = IF ExportScripts THEN Append(hist, st) ELSE hist
Room == ~ExportScripts \/ Len(hist) <= MaxSteps

Ids == {issued[k].id : k \in DOMAIN issued} \cup {-1}
\* instants at which something changes: expiry of the pending code and of every token, each with
\* the second before and the second after
Instants == (IF pending.code # 0 THEN {pending.exp - 1, pending.exp, pending.exp + 1} ELSE {})
            \cup UNION {{tokens[i].exp - 1, tokens[i].exp, tokens[i].exp + 1} : i \in DOMAIN tokens}
Ticks == IF RealTime THEN {0, 1, 2, CodeTTL - 1, CodeTTL, CodeTTL + 1, TokenTTL} \cup {t - now : t \in {u \in Instants : u >= now}}
         ELSE {1}

DoStart == Room /\ ncode < MaxCodes /\ Start /\ Log(Step("Start", 0, NoRole, 0, -1, 0, ""))
DoClaim == \E c \in 0..ncode, rr \in ReqRoles :
             Room /\ ntok < MaxIssued /\ Claim(c, rr) /\ Log(Step("Claim", c, rr, 0, -1, 0, ""))
DoValidate == \E k \in 0..ntok : Room /\ Validate(k) /\ Log(Step("Validate", 0, NoRole, k, -1, 0, ""))
DoList == Room /\ List /\ Log(Step("List", 0, NoRole, 0, -1, 0, ""))
DoRevoke == \E id \in Ids : Room /\ Revoke(id) /\ Log(Step("Revoke", 0, NoRole, 0, id, 0, ""))
DoRevokeAll == Room /\ RevokeAll /\ Log(Step("RevokeAll", 0, NoRole, 0, -1, 0, ""))
DoTick == \E d \in Ticks : Room /\ now + d <= MaxNow /\ Tick(d) /\ Log(Step("Tick", 0, NoRole, 0, -1, d, ""))
DoReload == Room /\ Reload /\ Log(Step("Reload", 0, NoRole, 0, -1, 0, ""))
DoReq == \E k \in 0..ntok, kind \in Kinds : Room /\ Req(k, kind) /\ Log(Step("Req", 0, NoRole, k, -1, 0, kind))
Next == DoStart \/ DoClaim \/ DoValidate \/ DoList \/ DoRevoke \/ DoRevokeAll \/ DoTick \/ DoReload \/ DoReq
Spec == Init /\ [][Next]_mvars

\* ------------------------------------------------------------------ export (spec -> impl)
Export == (ExportScripts /\ Len(hist) = MaxSteps + 1) =>
            PrintT(<<"SCRIPT", ToJson([t0 |-> T0, seed |-> SeedList[hist[1].c], steps |-> SubSeq(hist, 2, Len(hist))])>>)
=================================================================================
