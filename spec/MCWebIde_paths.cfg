SPECIFICATION Spec
CONSTANTS
  Sessions = {"a"}
  Viewers = {}
  MaxOps = 0
  MaxExpire = 3
  TornIds = {}
  Failures = FALSE
  Variant = "locked"
  External = FALSE
  Sequential = FALSE
  CheckTarget = TRUE
  PathLen = 3
  Mode = "paths"
VIEW View
CHECK_DEADLOCK FALSE
INVARIANTS PathsHold
