------------------------------ MODULE StbcContainer ------------------------------
(* The STBC bytecode container (property C11): framing rules, the encoder's layout, and the *)
(* life cycle  Emit -> [Mutate] -> Decode -> Validate -> Metadata -> Apply  of one container. *)
(*                                                                                          *)
(* Written from property C11 and docs/specs/10-runtime.md ("ST Bytecode Format", sections   *)
(* 3-6: header, section table, alignment, "Arrays: u32 count followed by count entries");   *)
(* shaped like the code: one action per phase of crates/trust-runtime/src/bytecode          *)
(* (encode.rs, decode.rs, validate.rs, metadata.rs) and runtime/bytecode.rs.                 *)
(*                                                                                          *)
(* What the property demands of every phase is TOTALITY: the phase ends with a value or an  *)
(* error (`Outcomes`), for every byte string.  Which of the two is fixed only where the     *)
(* property or the format documentation fixes it:                                           *)
(*   - a container the compiler emitted decodes, validates and round-trips exactly;         *)
(*   - a byte string that breaks a documented framing rule is not decoded (Verdict);        *)
(*   - an array whose count cannot fit in the rest of its section is not decoded;           *)
(* everywhere else both outcomes are accepted.  Numbers are mathematical integers; the      *)
(* harness projects u32 values >= 2^24 to 2^24 + (v mod 4), which preserves every           *)
(* comparison made here because every file handled is shorter than 2^24 bytes.              *)
EXTENDS Integers, Sequences, FiniteSets, TLC

HeaderLen == 24
EntrySize == 12
SupportedMajor == 1
Big == 16777216
Align4(x) == ((x + 3) \div 4) * 4
Min(a, b) == IF a < b THEN a ELSE b

\* =============================== framing (docs 4.1, 4.2) ===============================
\* frame f: [len, magicOk, major, minor, headerSize, count, tableOff, crcFlag, crcOk, table]
\*   table = the `count` section-table entries [id, off, length] if the table lies inside the
\*   file, the empty sequence otherwise
End(e) == e.off + e.length
TableEnd(f) == f.tableOff + f.count * EntrySize

HeaderViolations(f) ==
       (IF f.len < HeaderLen THEN {"truncated-header"} ELSE {})
  \cup (IF ~f.magicOk THEN {"magic"} ELSE {})
  \cup (IF f.major # SupportedMajor THEN {"major-version"} ELSE {})
  \cup (IF f.headerSize < HeaderLen THEN {"header-size"} ELSE {})
  \cup (IF f.tableOff < HeaderLen THEN {"table-inside-header"} ELSE {})
  \cup (IF f.tableOff % 4 # 0 THEN {"table-unaligned"} ELSE {})
  \cup (IF TableEnd(f) > f.len THEN {"table-out-of-file"} ELSE {})
  \cup (IF f.crcFlag /\ ~f.crcOk THEN {"checksum"} ELSE {})

\* two sections overlap when they share a byte
Overlap(a, b) == a.length > 0 /\ b.length > 0 /\ a.off < End(b) /\ b.off < End(a)
TableViolations(f) ==
  IF HeaderViolations(f) # {} THEN {} ELSE
       (IF \E i \in DOMAIN f.table : f.table[i].off % 4 # 0 THEN {"section-unaligned"} ELSE {})
  \cup (IF \E i \in DOMAIN f.table : End(f.table[i]) > f.len THEN {"section-out-of-file"} ELSE {})
  \cup (IF \E i, j \in DOMAIN f.table : i < j /\ Overlap(f.table[i], f.table[j]) THEN {"section-overlap"} ELSE {})
Violations(f) == HeaderViolations(f) \cup TableViolations(f)

\* situations the documentation does not decide (either outcome is accepted)
BodyTrivial(id) == id = 6 \/ id > 12 \/ id = 0       \* raw payloads: POU_BODIES and unknown ("ignored") ids
FreeCases(f) ==
       (IF f.headerSize # HeaderLen THEN {"header-size-not-24"} ELSE {})
  \cup (IF f.minor # 1 THEN {"other-minor-version"} ELSE {})
  \cup (IF \E i \in DOMAIN f.table : f.table[i].off < TableEnd(f) THEN {"section-inside-header-or-table"} ELSE {})
  \cup (IF \E i, j \in DOMAIN f.table : i # j /\ f.table[i].length = 0 /\ f.table[j].length > 0
                 /\ f.table[j].off <= f.table[i].off /\ f.table[i].off < End(f.table[j])
        THEN {"empty-section-inside-another"} ELSE {})
  \cup (IF \E i \in DOMAIN f.table : ~BodyTrivial(f.table[i].id) THEN {"typed-section-body"} ELSE {})
Verdict(f) == IF Violations(f) # {} THEN "reject" ELSE IF FreeCases(f) # {} THEN "free" ELSE "accept"
FirstViolation(f) == IF Violations(f) = {} THEN "none" ELSE CHOOSE v \in Violations(f) : TRUE

\* ---- the same decision shaped like decode.rs: checks in code order, entries sorted by offset
\* (stable) and scanned with a running end
RECURSIVE InsertByOff(_, _)
InsertByOff(s, e) == IF s = <<>> THEN <<e>>
                     ELSE IF e.off < Head(s).off THEN <<e>> \o s
                     ELSE <<Head(s)>> \o InsertByOff(Tail(s), e)
RECURSIVE SortByOff(_)
SortByOff(t) == IF t = <<>> THEN <<>> ELSE InsertByOff(SortByOff(SubSeq(t, 1, Len(t) - 1)), t[Len(t)])
RECURSIVE Scan(_, _, _)
Scan(s, lastEnd, len) ==
  IF s = <<>> THEN "ok" ELSE
  LET e == Head(s) IN
  IF e.off % 4 # 0 THEN "section-unaligned"
  ELSE IF End(e) > len THEN "section-out-of-file"
  ELSE IF e.off < lastEnd THEN "section-overlap"
  ELSE Scan(Tail(s), End(e), len)
DecodeFraming(f) ==
  IF f.len < HeaderLen THEN "truncated-header"
  ELSE IF ~f.magicOk THEN "magic"
  ELSE IF f.headerSize < HeaderLen THEN "header-size"
  ELSE IF f.tableOff < HeaderLen THEN "table-inside-header"
  ELSE IF f.tableOff % 4 # 0 THEN "table-unaligned"
  ELSE IF TableEnd(f) > f.len THEN "table-out-of-file"
  ELSE IF f.crcFlag /\ ~f.crcOk THEN "checksum"
  ELSE IF f.major # SupportedMajor THEN "major-version"
  ELSE Scan(SortByOff(f.table), 0, f.len)

\* ---- the encoder's layout (encode.rs): header, table at 24, payloads in order at 4-aligned
\* offsets, zero padding, CRC over everything after the header
RECURSIVE LayoutFrom(_, _, _)
LayoutFrom(lens, i, off) ==
  IF i > Len(lens) THEN <<>>
  ELSE <<[id |-> lens[i].id, off |-> off, length |-> lens[i].length]>> \o LayoutFrom(lens, i + 1, Align4(off + lens[i].length))
EncodeFrame(secs) ==
  LET n == Len(secs)
      t == LayoutFrom(secs, 1, Align4(HeaderLen + n * EntrySize))
  IN [len |-> IF n = 0 THEN HeaderLen ELSE Align4(End(t[n])), magicOk |-> TRUE, major |-> SupportedMajor, minor |-> 1,
      headerSize |-> HeaderLen, count |-> n, tableOff |-> HeaderLen, crcFlag |-> TRUE, crcOk |-> TRUE, table |-> t]
\* decoding reads the sections back in table order
DecodeSections(f) == [i \in DOMAIN f.table |-> [id |-> f.table[i].id, length |-> f.table[i].length]]

\* ===================================== life cycle =====================================
\* c: the container under test
\*   frame    framing record of the bytes handed to Decode
\*   mut      [kind, cls, newc, rem, single]: what was done to the emitted container
\*            kind = "none": the bytes are exactly what the compiler emitted
\*            single /\ cls = "count": one array count was replaced by newc; rem = bytes left in
\*            its section after the count field
\*   img      bytes of process image the container declares (known after Metadata)
\* out: result of each phase, "-" = not run
\* mem: entries pre-allocated by Decode for the mutated array (memory proportional to input)
VARIABLES pc, c, out, mem
svars == <<pc, c, out, mem>>

Outcomes == {"ok", "err"}       \* a value or an error: never a panic, abort or hang
NoMut == [kind |-> "none", cls |-> "", newc |-> 0, rem |-> 0, single |-> FALSE]
NoOut == [decode |-> "-", validate |-> "-", metadata |-> "-", apply |-> "-"]
ImgBound == Big                  \* a container declaring >= 16 MiB of process image

Emitted(x) == x.mut.kind = "none"
CountCannotFit(x) == x.mut.single /\ x.mut.cls = "count" /\ x.mut.newc > x.mut.rem
DecodeAllowed(x) ==
  IF Emitted(x) THEN {"ok"}
  ELSE IF Verdict(x.frame) = "reject" THEN {"err"}
  ELSE IF CountCannotFit(x) THEN {"err"}
  ELSE Outcomes
\* a layout made of raw sections only: decided by the framing rules alone
FrameDecodeAllowed(f) == CASE Verdict(f) = "accept" -> {"ok"} [] Verdict(f) = "reject" -> {"err"} [] OTHER -> Outcomes
ValidateAllowed(x) == IF Emitted(x) THEN {"ok"} ELSE Outcomes
MetadataAllowed(x) == Outcomes
\* applying allocates the process image the container declares; when that alone exceeds the
\* harness's address-space limit the allocation failure is not judged
ApplyAllowed(x) == Outcomes \cup (IF x.img >= ImgBound THEN {"abort-alloc"} ELSE {})
\* pre-allocation for an array of `count` entries: never more than the bytes that are left
Prealloc(count, rem) == Min(count, rem)

Emit(f) == /\ pc = "start" /\ Verdict(f) # "reject"
           /\ c' = [frame |-> f, mut |-> NoMut, img |-> 0] /\ pc' = "emitted" /\ UNCHANGED <<out, mem>>
Mutate(m, f) == /\ pc = "emitted" /\ m.kind # "none"
                /\ c' = [c EXCEPT !.frame = f, !.mut = m] /\ pc' = "mutated" /\ UNCHANGED <<out, mem>>
Decode(r) == /\ pc \in {"emitted", "mutated"} /\ r \in DecodeAllowed(c)
             /\ out' = [out EXCEPT !.decode = r]
             /\ mem' = IF c.mut.cls = "count" THEN Prealloc(c.mut.newc, c.mut.rem) ELSE 0
             /\ pc' = (IF r = "ok" THEN "decoded" ELSE "done") /\ UNCHANGED c
Validate(r) == /\ pc = "decoded" /\ r \in ValidateAllowed(c)
               /\ out' = [out EXCEPT !.validate = r] /\ pc' = "validated" /\ UNCHANGED <<c, mem>>
Metadata(r, img) == /\ pc = "validated" /\ r \in MetadataAllowed(c)
                    /\ out' = [out EXCEPT !.metadata = r] /\ c' = [c EXCEPT !.img = img]
                    /\ pc' = "described" /\ UNCHANGED mem
Apply(r) == /\ pc = "described" /\ r \in ApplyAllowed(c)
            /\ out' = [out EXCEPT !.apply = r] /\ pc' = "done" /\ UNCHANGED <<c, mem>>
=================================================================================
