------------------------------- MODULE StdFbTrace -------------------------------
(* Trace validation of recorded standard-function-block calls (struct path and ST path)    *)
(* against the StdFb machines.  Two instances per run, calls interleaved arbitrarily: each *)
(* instance must follow its own machine (independence).  Deterministic: one TLC pass,      *)
(* mismatching runs collected in `bad`.                                                    *)
EXTENDS StdFb, TLC, Json, IOUtils
Rec == ndJsonDeserialize(IOEnv.TRACE)
VARIABLES l, run, bad, skip, kind, via, lo, hi, now, lastCall, mem, doubt, ncall, ninc
tvars == <<l, run, bad, skip, kind, via, lo, hi, now, lastCall, mem, doubt, ncall, ninc>>
E == Rec[l]
More == l <= Len(Rec)
Inst == {1, 2}
BigHi == 2147483647
\* Runs of the 64-bit / unsigned 32-bit counters look at a window of the type's range (real value = off +
\* logged value, TLC's integers being 32-bit): hi = 1000 without a lower bound is a window just below the
\* type's maximum (the absolute 0 is far below every value of the run), lo = -1000 without an upper bound a
\* window just above the minimum of LINT (0 far above).  Such runs never reset CV to 0.
Zero == IF hi = 1000 /\ lo = -BigHi THEN -BigHi ELSE IF lo = -1000 /\ hi = BigHi THEN BigHi ELSE 0
InitMem(k) == CASE k = "TON" -> TonInit [] k = "TOF" -> TofInit [] k = "TP" -> TpInit
                [] k \in {"CTU", "CTD", "CTUD"} -> CtrInit
                [] k \in {"R_TRIG", "F_TRIG"} -> TrigInit
                [] k \in {"SR", "RS"} -> [q |-> FALSE]
Load(r) == /\ kind' = r.kind /\ via' = r.via
           /\ lo' = (IF r.hasLo THEN r.lo ELSE -BigHi) /\ hi' = (IF r.hasHi THEN r.hi ELSE BigHi)
           /\ now' = 0 /\ lastCall' = [i \in Inst |-> -1] /\ mem' = [i \in Inst |-> InitMem(r.kind)]
           /\ doubt' = [i \in Inst |-> FALSE] /\ skip' = FALSE
Init == /\ l = 2 /\ run = 1 /\ bad = <<>> /\ ncall = 0 /\ ninc = 0 /\ Rec[1].a = "Reset"
        /\ kind = Rec[1].kind /\ via = Rec[1].via
        /\ lo = (IF Rec[1].hasLo THEN Rec[1].lo ELSE -BigHi) /\ hi = (IF Rec[1].hasHi THEN Rec[1].hi ELSE BigHi)
        /\ now = 0 /\ lastCall = [i \in Inst |-> -1] /\ mem = [i \in Inst |-> InitMem(Rec[1].kind)]
        /\ doubt = [i \in Inst |-> FALSE] /\ skip = FALSE
Reset == E.a = "Reset" /\ Load(E) /\ l' = l + 1 /\ run' = run + 1 /\ UNCHANGED <<bad, ncall, ninc>>
Skip == skip /\ E.a # "Reset" /\ l' = l + 1 /\ UNCHANGED <<run, bad, skip, kind, via, lo, hi, now, lastCall, mem, doubt, ncall, ninc>>
\* a debugger-style write of CV (used to reach the saturation bounds of wide counters)
Preset == /\ ~skip /\ E.a = "Preset" /\ l' = l + 1
          /\ mem' = [mem EXCEPT ![E.i].cv = E.cv]
          /\ UNCHANGED <<run, bad, skip, kind, via, lo, hi, now, lastCall, doubt, ncall, ninc>>

Has(r, f) == f \in DOMAIN r
\* expected memory after the call
StepOf(m, in, d) ==
  CASE kind = "TON" -> TonStep(m, in.in, in.pt, d)
    [] kind = "TOF" -> TofStep(m, in.in, in.pt, d)
    [] kind = "TP"  -> TpStep(m, in.in, in.pt, d)
    [] kind = "CTU" -> CtuStep(m, in.cu, in.r, in.pv, hi)
    [] kind = "CTD" -> CtdStep(m, in.cd, in.ld, in.pv, lo)
    [] kind = "CTUD" -> CtudStep(m, in.cu, in.cd, in.r, in.ld, in.pv, lo, hi)
    [] kind \in {"R_TRIG", "F_TRIG"} -> TrigStep(m, in.clk)
    [] kind = "SR" -> [q |-> SrStep(m.q, in.s1, in.r)]
    [] kind = "RS" -> [q |-> RsStep(m.q, in.s, in.r1)]
\* which output fields disagree with the specification (m0: before, m: after)
Why(m0, m, in, out) ==
  IF Has(out, "error") THEN {"runtime-error"} ELSE
  CASE kind = "TON" -> LET o == TonOut(m, in.pt) IN
                         (IF out.q = o.q THEN {} ELSE {"TON.Q"}) \cup (IF out.et = o.et THEN {} ELSE {"TON.ET"})
    [] kind = "TOF" -> (IF out.q = m.q THEN {} ELSE {"TOF.Q"})
                       \cup (IF m.timing /\ out.et # m.et THEN {"TOF.ET"} ELSE {})
                       \cup (IF out.et > Pos(in.pt) THEN {"TOF.ET>PT"} ELSE {})
    [] kind = "TP"  -> (IF out.q = m.active THEN {} ELSE {"TP.Q"})
                       \cup (IF m.active /\ out.et # m.et THEN {"TP.ET"} ELSE {})
                       \cup (IF out.et > Pos(in.pt) THEN {"TP.ET>PT"} ELSE {})
    [] kind = "CTU" -> LET o == CtuOut(m, in.pv) IN
                         (IF out.q = o.q THEN {} ELSE {"CTU.Q"}) \cup (IF out.cv = o.cv THEN {} ELSE {"CTU.CV"})
    [] kind = "CTD" -> LET o == CtdOutZ(m, Zero) IN
                         (IF out.q = o.q THEN {} ELSE {"CTD.Q"}) \cup (IF out.cv = o.cv THEN {} ELSE {"CTD.CV"})
    [] kind = "CTUD" -> LET o == CtudOutZ(m, in.pv, Zero) IN
                         (IF out.qu = o.qu THEN {} ELSE {"CTUD.QU"}) \cup (IF out.qd = o.qd THEN {} ELSE {"CTUD.QD"})
                         \cup (IF out.cv = o.cv THEN {} ELSE {"CTUD.CV"})
    [] kind = "R_TRIG" -> IF out.q = RTrigOut(m0, in.clk) THEN {} ELSE {"R_TRIG.Q"}
    [] kind = "F_TRIG" -> IF FTrigFirstFree(m0, in.clk) \/ out.q = FTrigOut(m0, in.clk) THEN {} ELSE {"F_TRIG.Q"}
    [] kind \in {"SR", "RS"} -> IF out.q1 = m.q THEN {} ELSE {kind \o ".Q1"}
\* the finding class of a TP mismatch: a rising edge while the pulse was active
Class(m0, in, why) ==
  IF kind = "TP" /\ m0.active /\ in.in /\ ~m0.prev THEN "TP-retrigger-while-active"
  ELSE "outputs"

Call ==
  /\ ~skip /\ E.a = "Call" /\ l' = l + 1 /\ ncall' = ncall + 1
  /\ LET i == E.i
         t == now + E.dt
         d == IF lastCall[i] < 0 THEN 0 ELSE t - lastCall[i]
         m0 == mem[i]
         m == StepOf(m0, E.in, d)
         newDoubt == FALSE
         why == IF newDoubt THEN {} ELSE Why(m0, m, E.in, E.out)
         m1 == IF kind = "TON" THEN [et |-> m.et, q |-> m.q, lastPt |-> E.in.pt] ELSE m
     IN /\ now' = t /\ lastCall' = [lastCall EXCEPT ![i] = t] /\ mem' = [mem EXCEPT ![i] = m1]
        /\ doubt' = [doubt EXCEPT ![i] = newDoubt]
        /\ ninc' = IF newDoubt THEN ninc + 1 ELSE ninc
        /\ IF why = {} THEN bad' = bad /\ skip' = FALSE
           ELSE /\ bad' = Append(bad, [run |-> run, line |-> l, why |-> why, kind |-> kind, via |-> via, class |-> Class(m0, E.in, why)])
                /\ skip' = TRUE
  /\ UNCHANGED <<run, kind, via, lo, hi>>

Next == More /\ (Reset \/ Skip \/ Preset \/ Call)
Spec == Init /\ [][Next]_tvars
Done == l = Len(Rec) + 1 =>
          JsonSerialize(IOEnv.OUT, [runs |-> run, calls |-> ncall, inconclusive |-> ninc, events |-> Len(Rec), bad |-> bad])
=================================================================================
