SPECIFICATION Spec
CONSTANTS
  Modes = {"frame", "life"}
  MaxEntries = 4
  ExportScripts = FALSE
VIEW View
CHECK_DEADLOCK FALSE
INVARIANTS
  ScanAgrees
  FreeIsSafe
  OverlapIsSharedByte
  AcceptedPartitions
  EncoderLayoutValid
  Total
  PhaseOrder
  EmittedDecodesAndValidates
  BrokenFramingNeverDecoded
  TruncatedArrayNeverDecoded
  MemProportional
