SPECIFICATION SpecFb
CONSTANTS
  MaxSteps = 6
  MaxCycles = 3
  ExportScripts = FALSE
  EnableFaults = TRUE
  EnableRestart = FALSE
  EnableDebugWrites = FALSE
  SrcVals = {0, 255}
  Dts = {2}
  CfgSel = "fb"
VIEW View
CHECK_DEADLOCK FALSE
INVARIANTS
  FaultLatchMonotone
  RefusedCyclesAreInert
  SafeStateDelivered
  NoProgramOutputsAfterFault
  FaultIsLatched
  ReadsFirst
  FaultEndsExecution
  FbFaultIsLatched
  ItemsBelongToActivations
  FbStatePersists
