SPECIFICATION Spec
CONSTANTS
  Mode = "skel"
  NScopes = 0
  NameSeq <- Names8
  MaxDecls = 0
  MaxRefs = 0
  MaxReqs = 6
  ExportScripts = TRUE
  AllowHomonyms = FALSE
VIEW View
CHECK_DEADLOCK FALSE
INVARIANTS
  Export
