SPECIFICATION HSpec
CONSTANTS
  Sessions = {1, 2, 3, 4, 5, 6}
  Viewers = {}
  MaxOps = 1000000
  MaxExpire = 100
  TornIds = {9000, 9001, 9002, 9003, 9004, 9005, 9006, 9007}
  Failures = TRUE
  Variant = "locked"
  External = TRUE
  Sequential = FALSE
  CheckTarget = TRUE
CONSTRAINT HighWater
POSTCONDITION Post
CHECK_DEADLOCK FALSE
