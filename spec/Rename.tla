-------------------------------- MODULE Rename --------------------------------
(* Rename of a declared symbol in a multi-file Structured Text project, at the grain of   *)
(* trust_ide::rename::rename (crates/trust-ide/src/rename.rs):                             *)
(*     resolve the symbol under the cursor -> validate the new name -> conflict check ->   *)
(*     collect the occurrences (find references) -> apply the edits,   and rename back.    *)
(*                                                                                         *)
(* Written from property C16 ("rename preserves program meaning and is reversible") and    *)
(* IEC 61131-3 scoping (identifiers are case-insensitive; a name is looked up in the       *)
(* enclosing scopes from the inside out; a member / qualified access `x.n`, `Ns.n`,        *)
(* `f(n := ..)` is looked up in exactly one scope).  It is NOT a transcription of the      *)
(* implementation: the conflict check of the specification inspects every reference site   *)
(* (Safe), which is what the property demands.                                             *)
(*                                                                                         *)
(* A project p is a record                                                                 *)
(*   par   : scope -> parent scope (0 for a root scope); scopes are global, namespace,     *)
(*           POU (program / function / function block), method, structure type            *)
(*   decls : set of [id, scope, name, kind]     names are case-folded                      *)
(*   refs  : set of [id, site, name, mode, role]                                            *)
(*           mode "lex": looked up from scope `site` outwards;  "mem": looked up in        *)
(*           scope `site` only (field, method, named argument, qualified name)            *)
(* The project is a VARIABLE (fixed by Init / Reset of the instances), so that one model   *)
(* run ranges over a set of projects and one trace validation over hundreds of them.       *)
EXTENDS Integers, Sequences, FiniteSets, TLC

\* ------------------------------------------------------------------ scoping
RECURSIVE Chain(_, _)
Chain(par, s) == IF s = 0 THEN <<>> ELSE <<s>> \o Chain(par, par[s])
Depth(par, s) == Len(Chain(par, s))
Encl(par, s)  == {Chain(par, s)[i] : i \in DOMAIN Chain(par, s)}       \* s and every scope around it

DeclById(p, i) == CHOOSE d \in p.decls : d.id = i
RefById(p, i)  == CHOOSE r \in p.refs : r.id = i
DeclIds(p) == {d.id : d \in p.decls}
RefIds(p)  == {r.id : r \in p.refs}

\* two name spaces: type names (STRUCT and FUNCTION_BLOCK types, looked up from type positions:
\* `x : T`, `x : Ns.T`, EXTENDS T) and everything else.  A variable may be spelled like its own
\* type (`limits : Limits`); the two never denote each other.
TypeKinds == {"struct", "fb"}
TypeRoles == {"type", "qtype", "base"}
NsD(d) == IF d.kind \in TypeKinds THEN "t" ELSE "v"
NsR(r) == IF r.role \in TypeRoles THEN "t" ELSE "v"

\* no two declarations of one (case-folded) name in one scope -- whatever they declare: a scope has ONE table of
\* names (a global variable `nff` next to a type `NFF` makes `x : NFF` unresolvable); the name spaces only decide
\* which declarations a LOOKUP from a type position / any other position considers on its way outwards
WellFormed(p) == \A d, e \in p.decls : (d.scope = e.scope /\ d.name = e.name) => d.id = e.id

\* the declarations a reference can see, and the one it denotes (0: none): the innermost
Visible(p, r) == IF r.mode = "mem" THEN {d \in p.decls : d.name = r.name /\ NsD(d) = NsR(r) /\ d.scope = r.site}
                 ELSE {d \in p.decls : d.name = r.name /\ NsD(d) = NsR(r) /\ d.scope \in Encl(p.par, r.site)}
Resolve(p, r) == LET c == Visible(p, r) IN
                 IF c = {} THEN 0
                 ELSE (CHOOSE d \in c : \A e \in c : Depth(p.par, d.scope) >= Depth(p.par, e.scope)).id
Binding(p) == [i \in RefIds(p) |-> Resolve(p, RefById(p, i))]

\* an occurrence is a declaration [t |-> "d", id] or a reference [t |-> "r", id]
Occurrences(p) == [t : {"d"}, id : DeclIds(p)] \cup [t : {"r"}, id : RefIds(p)]
TargetOf(p, o) == IF o.t = "d" THEN o.id ELSE Resolve(p, RefById(p, o.id))
\* every occurrence of declaration d: the declaration and the references that denote it
OccsOf(p, d) == [d |-> {d}, r |-> {r.id : r \in {x \in p.refs : Resolve(p, x) = d}}]

\* the text after replacing the given occurrences by `new`
ApplyEdits(p, e, new) ==
  [p EXCEPT !.decls = {IF d.id \in e.d THEN [d EXCEPT !.name = new] ELSE d : d \in p.decls},
            !.refs  = {IF r.id \in e.r THEN [r EXCEPT !.name = new] ELSE r : r \in p.refs}]
Renamed(p, d, new) == ApplyEdits(p, OccsOf(p, d), new)

\* "no captured or newly shadowed binding": same declarations denoted by the same references
Preserved(p, q) == WellFormed(q) /\ Binding(q) = Binding(p)

\* ------------------------------------------------------------------ the conflict check
\* A correct rename of declaration d to `new` has to look at every reference site, not only
\* at the declaring scope:
\*  1 no other declaration named `new` in the declaring scope;
\*  2 no declaration named `new` between a reference to d and d's scope (it would capture
\*    the renamed reference);
\*  3 no reference named `new` that can see d's scope and today binds further out or nowhere
\*    (the renamed d would capture it).
Clash(p, d, new) == \E e \in p.decls : e.id # d.id /\ e.scope = d.scope /\ e.name = new
CapturedRefs(p, d, new) ==
  {r \in p.refs : /\ Resolve(p, r) = d.id /\ r.mode = "lex"
                  /\ \E e \in p.decls : /\ e.name = new /\ e.id # d.id /\ NsD(e) = NsD(d) /\ e.scope \in Encl(p.par, r.site)
                                        /\ Depth(p.par, e.scope) > Depth(p.par, d.scope)}
SeesScope(p, r, s) == IF r.mode = "mem" THEN r.site = s ELSE s \in Encl(p.par, r.site)
CapturingRefs(p, d, new) ==
  {r \in p.refs : /\ r.name = new /\ NsR(r) = NsD(d) /\ SeesScope(p, r, d.scope) /\ Resolve(p, r) # d.id
                  /\ LET b == Resolve(p, r) IN
                       b = 0 \/ Depth(p.par, DeclById(p, b).scope) <= Depth(p.par, d.scope)}
Safe(p, d, new) == ~Clash(p, d, new) /\ CapturedRefs(p, d, new) = {} /\ CapturingRefs(p, d, new) = {}
\* names of the classes of an unsafe rename (used to report a violation narrowly)
UnsafeClasses(p, d, new) ==
     (IF Clash(p, d, new) THEN {"new-name-declared-in-declaring-scope"} ELSE {})
  \cup (IF CapturedRefs(p, d, new) # {} THEN {"new-name-declared-between-reference-and-declaration"} ELSE {})
  \cup (IF CapturingRefs(p, d, new) # {} /\ ~Clash(p, d, new) THEN {"new-name-referenced-inside-scope-of-declaration"} ELSE {})
\* what a check of the declaring scope alone would conclude (NOT what the property allows)
DeclaringScopeOnly(p, d, new) == ~Clash(p, d, new)

\* the outcomes of one request (composition of the phases below): refusing is always
\* possible; applying only for a resolvable occurrence, a valid name and a safe rename, and
\* then the edits are exactly the occurrences of the symbol
CanApply(p, o, new, cls) ==
  LET t == TargetOf(p, o) IN t # 0 /\ cls = "name" /\ Safe(p, DeclById(p, t), new)

\* ------------------------------------------------------------------ the rename machine
VARIABLES proj,     \* the project text (abstractly)
          orig,     \* the project before the rename in progress
          pc,       \* "idle" "request" "resolved" "validated" "checked" "collected" "applied" "refused"
          req,      \* [occ, new, cls]  cls: "name" (a valid identifier) | "keyword" | "invalid"
          target,   \* id of the declaration under the cursor (0: none)
          edits     \* [d |-> decl ids, r |-> ref ids] to be replaced
rvars == <<proj, orig, pc, req, target, edits>>

NoReq == [occ |-> [t |-> "d", id |-> 0], new |-> "", cls |-> "name"]
NoEdits == [d |-> {}, r |-> {}]
Idle(p) == /\ proj = p /\ orig = p /\ pc = "idle" /\ req = NoReq /\ target = 0 /\ edits = NoEdits

Request(o, new, cls) ==
  /\ pc = "idle" /\ o \in Occurrences(proj)
  /\ pc' = "request" /\ req' = [occ |-> o, new |-> new, cls |-> cls] /\ orig' = proj
  /\ UNCHANGED <<proj, target, edits>>
\* the symbol under the cursor: the declaration itself, or what the reference denotes
ResolveTarget ==
  /\ pc = "request" /\ target' = TargetOf(proj, req.occ)
  /\ pc' = IF target' = 0 THEN "refused" ELSE "resolved"
  /\ UNCHANGED <<proj, orig, req, edits>>
\* only a valid, non-reserved identifier can be a name
Validate ==
  /\ pc = "resolved" /\ pc' = IF req.cls = "name" THEN "validated" ELSE "refused"
  /\ UNCHANGED <<proj, orig, req, target, edits>>
\* refusing is always allowed; going on is allowed only when the rename is safe
ConflictCheck ==
  /\ pc = "validated"
  /\ \/ Safe(proj, DeclById(proj, target), req.new) /\ pc' = "checked"
     \/ pc' = "refused"
  /\ UNCHANGED <<proj, orig, req, target, edits>>
Collect ==
  /\ pc = "checked" /\ edits' = OccsOf(proj, target) /\ pc' = "collected"
  /\ UNCHANGED <<proj, orig, req, target>>
Apply ==
  /\ pc = "collected" /\ proj' = ApplyEdits(proj, edits, req.new) /\ pc' = "applied"
  /\ UNCHANGED <<orig, req, target, edits>>
\* renaming the same symbol back to its old name (the whole pipeline in one step)
RenameBack ==
  /\ pc = "applied"
  /\ LET old == DeclById(orig, target).name IN proj' = Renamed(proj, target, old)
  /\ pc' = "idle" /\ req' = NoReq /\ target' = 0 /\ edits' = NoEdits /\ UNCHANGED orig
Refused ==
  /\ pc = "refused" /\ pc' = "idle" /\ req' = NoReq /\ target' = 0 /\ edits' = NoEdits
  /\ UNCHANGED <<proj, orig>>
Phases == ResolveTarget \/ Validate \/ ConflictCheck \/ Collect \/ Apply \/ RenameBack \/ Refused

\* ------------------------------------------------------------------ what the property says
\* (checked by the MC instance on every reachable state; the trace specification uses the
\* same operators on recorded requests)
AppliedPreservesBinding == pc = "applied" => Preserved(orig, proj)
EditsAreTheOccurrences  == pc \in {"collected", "applied"} => edits = OccsOf(orig, target)
OnlyValidNamesApplied   == pc = "applied" => req.cls = "name"
AppliedOnlyWhenAllowed  == pc = "applied" => CanApply(orig, req.occ, req.new, req.cls)
BackIsAdmissible        == pc = "applied" => Safe(proj, DeclById(proj, target), DeclById(orig, target).name)
BackRestores            == pc = "idle" => proj = orig
RefusalChangesNothing   == pc = "refused" => proj = orig
\* the three-part conflict check is exactly binding preservation
SafeIsExact == \A d \in proj.decls, new \in {e.name : e \in proj.decls} \cup {r.name : r \in proj.refs} \cup {"fresh"} :
                 Safe(proj, d, new) <=> Preserved(proj, Renamed(proj, d.id, new))
\* changing only the spelling (same case-folded name) is always safe
CaseVariantIsSafe == \A d \in proj.decls : Safe(proj, d, d.name)
=================================================================================
