-------------------------------- MODULE ParseSink --------------------------------
(* C12 — parsing is total and lossless.                                                    *)
(*                                                                                         *)
(* The contract between the lexer, the parser's event stream and the tree that the sink    *)
(* builds from it, written from the property text and from the crate's own description     *)
(* ("Lossless: all source text is preserved, including whitespace and comments";           *)
(* "Error-tolerant: parsing continues after errors"), shaped like the code:                *)
(*                                                                                         *)
(*   parser phase  one action per call of the parser's marker interface                    *)
(*                   PStart / PStartNode / PBump / PComplete / PFinishNode / PPrecede /     *)
(*                   PError / PEnd                                                          *)
(*   sink phase    one action per event kind replayed into the tree builder                *)
(*                   StartNode (with its forward-parent chain) / Token / FinishNode / Hole  *)
(*   metamorphic   InsertTrivia(i, kind): the same text with white space or a comment      *)
(*                   between two adjacent tokens, replayed again                            *)
(*                                                                                         *)
(* The first half of the module is the CONTRACT as pure operators on observable data       *)
(* (token list, builder-call walk of a tree, error ranges).  The design-level model checks *)
(* it on the trees its sink produces; the trace specification (ParseSinkTrace) checks the  *)
(* very same operators on what the real lexer / parser / tree returned.                    *)
EXTENDS Integers, Sequences, FiniteSets, SequencesExt

(* ------------------------------------------------------------------------------------ *)
(* Observable data                                                                        *)
(*   token       <<kind, start, end, hash, trivia>>     trivia = 1 for white space,       *)
(*               comments, pragmas; hash = hash of the slice of the input the range names  *)
(*   walk entry  <<"S", kind>> | <<"T", kind, len, trivia>> | <<"F">>                       *)
(*               the builder calls (start node / token / finish node) that make the tree,  *)
(*               i.e. its pre-order walk                                                    *)
(*   error       <<start, end>>                                                             *)
(* ------------------------------------------------------------------------------------ *)
TKind(t) == t[1]
TStart(t) == t[2]
TEnd(t) == t[3]
THash(t) == t[4]
TIsTrivia(t) == t[5] = 1

(* ---- tokens tile [0, n): contiguous, non-overlapping, nothing before, nothing after.   *)
(* The concatenated token texts are then the input, byte for byte (a token's text IS the   *)
(* slice its range names).  Result: the set of ways in which the list fails.               *)
TileWhy(toks, n) ==
  LET m == Len(toks)
      prevEnd(i) == IF i = 1 THEN 0 ELSE TEnd(toks[i - 1])
  IN IF /\ \A i \in 1..m : TStart(toks[i]) = prevEnd(i) /\ TStart(toks[i]) <= TEnd(toks[i])
        /\ (IF m = 0 THEN 0 ELSE TEnd(toks[m])) = n
     THEN {}
     ELSE   (IF \E i \in 1..m : TStart(toks[i]) > prevEnd(i) THEN {"tokens:gap"} ELSE {})
       \cup (IF \E i \in 1..m : TStart(toks[i]) < prevEnd(i) THEN {"tokens:overlap"} ELSE {})
       \cup (IF \E i \in 1..m : TStart(toks[i]) > TEnd(toks[i]) THEN {"tokens:backwards"} ELSE {})
       \cup (IF (IF m = 0 THEN 0 ELSE TEnd(toks[m])) < n THEN {"tokens:stop-early"} ELSE {})
       \cup (IF (IF m = 0 THEN 0 ELSE TEnd(toks[m])) > n THEN {"tokens:past-end"} ELSE {})

(* ---- the tree builder: what a sequence of builder calls amounts to                     *)
B0 == [depth |-> 0, off |-> 0, roots |-> 0, ok |-> TRUE]
BStart(b) == [b EXCEPT !.depth = @ + 1, !.ok = @ /\ (b.depth > 0 \/ b.roots = 0)]
BToken(b, len) == [b EXCEPT !.off = @ + len, !.ok = @ /\ b.depth > 0 /\ len >= 0]
BFinish(b) == [b EXCEPT !.depth = @ - 1, !.roots = IF b.depth = 1 THEN @ + 1 ELSE @, !.ok = @ /\ b.depth > 0]
BStep(b, e) == CASE e[1] = "S" -> BStart(b)
                 [] e[1] = "T" -> BToken(b, e[3])
                 [] e[1] = "F" -> BFinish(b)
\* (FoldLeft is evaluated by TLC as a loop; a RECURSIVE definition is quadratic on long walks)
Replay(w, b0) == FoldLeft(BStep, b0, w)
(* node starts and finishes are balanced, there is exactly one root, every token sits     *)
(* inside a node, and the leaves add up to n bytes of text                                 *)
WalkWhy(w, n) ==
  LET b == Replay(w, B0)
  IN   (IF b.ok /\ b.depth = 0 /\ b.roots = 1 THEN {} ELSE {"tree:unbalanced"})
  \cup (IF b.off = n THEN {} ELSE {"tree:text-length"})

(* ---- every reported error range lies inside the text                                    *)
ErrWhy(errs, n) ==
  IF \A i \in 1..Len(errs) : 0 <= errs[i][1] /\ errs[i][1] <= errs[i][2] /\ errs[i][2] <= n
  THEN {} ELSE {"errors:range"}

(* ---- tree shape: node kinds and non-trivia token kinds in pre-order                     *)
InShape(e) == e[1] = "S" \/ (e[1] = "T" /\ e[4] = 0)
Shape(w) == LET f == SelectSeq(w, InShape) IN [i \in 1..Len(f) |-> <<f[i][1], f[i][2]>>]
(* the non-trivia tokens of a token list (kind and text hash)                               *)
NotTrivia(t) == t[5] = 0
NonTrivia(toks) == LET f == SelectSeq(toks, NotTrivia) IN [i \in 1..Len(f) |-> <<f[i][1], f[i][4]>>]

(* ------------------------------------------------------------------------------------ *)
(* Design-level model: an abstract parser that obeys the marker interface, and the sink.  *)
(* ------------------------------------------------------------------------------------ *)
VARIABLES
  toks,     \* the input as its token list (static per behaviour; InsertTrivia replaces it)
  phase,    \* "parse" | "sink" | "done"
  events,   \* the parser's event stream: <<"Start", id, fp>> | <<"Tok">> | <<"Finish">> | <<"Hole">>
            \*   (fp = distance to the forward parent's Start event, 0 = none; Hole = placeholder)
  open,     \* parser: stack of open nodes, <<event position, isMarker>>
  consumed, \* parser: number of non-trivia tokens bumped so far
  lastDone, \* parser: event position of the node completed by the very last event (0 = none)
  iwalk,    \* parser: the tree the marker calls MEAN, as a walk over non-trivia tokens
  errs,     \* error ranges reported by the parser
  pc, cursor, walk, b,   \* sink: next event, token cursor, builder calls so far, builder state
  dead,     \* sink: positions of Start events already replayed as somebody's forward parent
  shape0    \* shape of the tree before InsertTrivia (<<>> = no insertion yet)
pvars == <<toks, phase, events, open, consumed, lastDone, iwalk, errs, pc, cursor, walk, b, dead, shape0>>

NTok == Len(toks)
TextLen == IF NTok = 0 THEN 0 ELSE TEnd(toks[NTok])
NNonTrivia == Cardinality({i \in 1..NTok : ~TIsTrivia(toks[i])})
\* index of the k-th non-trivia token (k in 1..NNonTrivia)
NthNonTrivia(k) == CHOOSE i \in 1..NTok : ~TIsTrivia(toks[i]) /\ Cardinality({j \in 1..i : ~TIsTrivia(toks[j])}) = k

ParserInit ==
  /\ phase = "parse" /\ events = << <<"Start", 1, 0>> >> /\ open = << <<1, FALSE>> >>
  /\ consumed = 0 /\ lastDone = 0 /\ iwalk = << <<"S", 1>> >> /\ errs = <<>>
  /\ pc = 1 /\ cursor = 1 /\ walk = <<>> /\ b = B0 /\ dead = {} /\ shape0 = <<>>

SinkIdle == UNCHANGED <<pc, cursor, walk, b, dead, shape0, toks>>
Top == open[Len(open)]
Pop == SubSeq(open, 1, Len(open) - 1)

\* p.start(): a placeholder that a later complete() turns into the node's Start event
PStart ==
  /\ phase = "parse" /\ open # <<>>
  /\ events' = Append(events, <<"Hole">>) /\ open' = Append(open, <<Len(events) + 1, TRUE>>)
  /\ iwalk' = Append(iwalk, <<"S", Len(events) + 1>>) /\ lastDone' = 0
  /\ UNCHANGED <<phase, consumed, errs>> /\ SinkIdle
\* p.start_node(kind)
PStartNode ==
  /\ phase = "parse" /\ open # <<>>
  /\ events' = Append(events, <<"Start", Len(events) + 1, 0>>) /\ open' = Append(open, <<Len(events) + 1, FALSE>>)
  /\ iwalk' = Append(iwalk, <<"S", Len(events) + 1>>) /\ lastDone' = 0
  /\ UNCHANGED <<phase, consumed, errs>> /\ SinkIdle
\* p.bump(): consumes the next non-trivia token; at the end of input it still pushes a
\* token event (kind Eof) for which no token is left
PBump ==
  /\ phase = "parse" /\ open # <<>>
  /\ events' = Append(events, <<"Tok">>) /\ lastDone' = 0
  /\ IF consumed < NNonTrivia
     THEN consumed' = consumed + 1 /\ iwalk' = Append(iwalk, <<"T", consumed + 1>>)
     ELSE UNCHANGED <<consumed, iwalk>>
  /\ UNCHANGED <<phase, open, errs>> /\ SinkIdle
\* marker.complete(kind): the placeholder becomes the Start event, a Finish event is pushed
PComplete ==
  /\ phase = "parse" /\ Len(open) > 1 /\ Top[2]
  /\ events' = Append([events EXCEPT ![Top[1]] = <<"Start", Top[1], 0>>], <<"Finish">>)
  /\ open' = Pop /\ lastDone' = Top[1] /\ iwalk' = Append(iwalk, <<"F">>)
  /\ UNCHANGED <<phase, consumed, errs>> /\ SinkIdle
\* p.finish_node(); the root is finished only when every token has been consumed
PFinishNode ==
  /\ phase = "parse" /\ open # <<>> /\ ~Top[2]
  /\ Len(open) = 1 => consumed = NNonTrivia
  /\ events' = Append(events, <<"Finish">>) /\ open' = Pop /\ lastDone' = 0
  /\ iwalk' = Append(iwalk, <<"F">>)
  /\ UNCHANGED <<phase, consumed, errs>> /\ SinkIdle
\* completed.precede(): a new node that will enclose the node just completed; the completed
\* node's Start event (the last one of its forward-parent chain) is made to point at it
RECURSIVE ChainEnd(_, _)
ChainEnd(ev, p) == IF ev[p][1] = "Start" /\ ev[p][3] # 0 THEN ChainEnd(ev, p + ev[p][3]) ELSE p
\* position in iwalk of the entry <<"S", id>>
IPos(id) == CHOOSE k \in 1..Len(iwalk) : iwalk[k] = <<"S", id>>
PPrecede ==
  /\ phase = "parse" /\ lastDone # 0 /\ Len(open) >= 1
  /\ LET q == Len(events) + 1
         c == ChainEnd(events, lastDone)
     IN /\ events' = Append([events EXCEPT ![c] = <<"Start", events[c][2], q - c>>], <<"Hole">>)
        /\ open' = Append(open, <<q, TRUE>>)
        /\ iwalk' = InsertAt(iwalk, IPos(lastDone), <<"S", q>>)
  /\ lastDone' = 0
  /\ UNCHANGED <<phase, consumed, errs>> /\ SinkIdle
\* p.error(msg): the range of the current token, or the empty range at 0 at the end of input
PError ==
  /\ phase = "parse" /\ open # <<>> /\ Len(errs) < 1
  /\ errs' = Append(errs, IF consumed < NNonTrivia
                          THEN LET t == toks[NthNonTrivia(consumed + 1)] IN <<TStart(t), TEnd(t)>>
                          ELSE <<0, 0>>)
  /\ UNCHANGED <<phase, events, open, consumed, lastDone, iwalk>> /\ SinkIdle
PEnd ==
  /\ phase = "parse" /\ open = <<>>
  /\ phase' = "sink"
  /\ UNCHANGED <<events, open, consumed, lastDone, iwalk, errs>> /\ SinkIdle

(* ---- sink: replay of the event stream into the builder                                  *)
ParserIdle == UNCHANGED <<toks, events, open, consumed, lastDone, iwalk, errs, shape0>>
\* trivia tokens from position c on, as builder calls (eat_trivia)
RECURSIVE TriviaRun(_)
TriviaRun(c) == IF c <= NTok /\ TIsTrivia(toks[c])
                THEN << <<"T", TKind(toks[c]), TEnd(toks[c]) - TStart(toks[c]), 1>> >> \o TriviaRun(c + 1)
                ELSE <<>>
AfterTrivia(c) == c + Len(TriviaRun(c))
Emit(w) == walk' = walk \o w /\ b' = Replay(w, b)
\* ids along the forward-parent chain that starts at event position p
RECURSIVE Chain(_, _)
Chain(ev, p) == IF ev[p][1] # "Start" THEN <<>>
                ELSE <<p>> \o (IF ev[p][3] = 0 THEN <<>> ELSE Chain(ev, p + ev[p][3]))
\* Start event: the outermost forward parent is started first; the chain is tombstoned
Live(p) == p \notin dead
StartNode ==
  /\ phase = "sink" /\ pc <= Len(events) /\ Live(pc) /\ events[pc][1] = "Start"
  /\ LET ch == Chain(events, pc)
     IN /\ Emit([i \in 1..Len(ch) |-> <<"S", events[Reverse(ch)[i]][2]>>])
        /\ dead' = dead \cup {ch[i] : i \in 1..Len(ch)}
  /\ pc' = pc + 1 /\ UNCHANGED <<phase, cursor>> /\ ParserIdle
\* Token event: pending trivia first, then the token (nothing if no token is left)
Token ==
  /\ phase = "sink" /\ pc <= Len(events) /\ events[pc][1] = "Tok"
  /\ LET c == AfterTrivia(cursor)
     IN IF c <= NTok
        THEN /\ Emit(TriviaRun(cursor) \o << <<"T", TKind(toks[c]), TEnd(toks[c]) - TStart(toks[c]), 0>> >>)
             /\ cursor' = c + 1
        ELSE Emit(TriviaRun(cursor)) /\ cursor' = c
  /\ pc' = pc + 1 /\ UNCHANGED <<phase, dead>> /\ ParserIdle
\* Finish event: pending trivia goes into the node that is being closed
FinishNode ==
  /\ phase = "sink" /\ pc <= Len(events) /\ events[pc][1] = "Finish"
  /\ Emit(TriviaRun(cursor) \o << <<"F">> >>) /\ cursor' = AfterTrivia(cursor)
  /\ pc' = pc + 1 /\ UNCHANGED <<phase, dead>> /\ ParserIdle
\* a placeholder, or a Start event that was already replayed through a forward-parent chain
Hole ==
  /\ phase = "sink" /\ pc <= Len(events) /\ (events[pc][1] = "Hole" \/ (events[pc][1] = "Start" /\ ~Live(pc)))
  /\ pc' = pc + 1 /\ UNCHANGED <<phase, cursor, walk, b, dead>> /\ ParserIdle
SinkEnd ==
  /\ phase = "sink" /\ pc > Len(events) /\ phase' = "done"
  /\ UNCHANGED <<pc, cursor, walk, b, dead>> /\ ParserIdle

(* ---- InsertTrivia(i, kind): a trivia token of `len` bytes between tokens i and i+1.     *)
(* The parser never looks at trivia, so it emits the same events; the sink runs again.     *)
Shift(t, d) == <<t[1], t[2] + d, t[3] + d, t[4], t[5]>>
WithTrivia(ts, i, kind, len) ==
  LET at == TEnd(ts[i])
  IN SubSeq(ts, 1, i) \o << <<kind, at, at + len, 0, 1>> >> \o [k \in 1..(Len(ts) - i) |-> Shift(ts[i + k], len)]
InsertTrivia(i, kind, len) ==
  /\ phase = "done" /\ shape0 = <<>> /\ errs = <<>> /\ i \in 1..(NTok - 1)
  /\ toks' = WithTrivia(toks, i, kind, len)
  /\ shape0' = Shape(walk)
  /\ phase' = "sink" /\ pc' = 1 /\ cursor' = 1 /\ walk' = <<>> /\ b' = B0 /\ dead' = {}
  /\ UNCHANGED <<events, open, consumed, lastDone, iwalk, errs>>

(* ------------------------------------------------------------------------------------ *)
(* Properties of the design                                                                *)
(* ------------------------------------------------------------------------------------ *)
\* the walk restricted to nodes and non-trivia tokens, tokens numbered in order
RECURSIVE Skeleton(_, _, _)
Skeleton(w, i, k) ==
  IF i > Len(w) THEN <<>>
  ELSE LET e == w[i]
       IN IF e[1] = "S" THEN << <<"S", e[2]>> >> \o Skeleton(w, i + 1, k)
          ELSE IF e[1] = "F" THEN << <<"F">> >> \o Skeleton(w, i + 1, k)
          ELSE IF e[4] = 0 THEN << <<"T", k + 1>> >> \o Skeleton(w, i + 1, k + 1)
          ELSE Skeleton(w, i + 1, k)
\* leaves emitted so far, as <<kind, len>>
Leaves(w) == LET f == SelectSeq(w, LAMBDA e : e[1] = "T") IN [i \in 1..Len(f) |-> <<f[i][2], f[i][3]>>]
TokLeaves(n) == [i \in 1..n |-> <<TKind(toks[i]), TEnd(toks[i]) - TStart(toks[i])>>]

\* EmittedText = Prefix(input): at every step of the sink the leaves are exactly the tokens
\* before the cursor, in order
EmittedIsPrefix == phase \in {"sink", "done"} => Leaves(walk) = TokLeaves(cursor - 1) /\ b.off = (IF cursor = 1 THEN 0 ELSE TEnd(toks[cursor - 1]))
\* the builder is never asked to close a node that is not open, nor to add a token outside a node
NoUnderflow == b.ok
\* at the end: nothing of the input is missing, the stack is empty, one root
Lossless == phase = "done" => cursor = NTok + 1 /\ WalkWhy(walk, TextLen) = {}
\* the tree is the tree the marker calls meant (forward parents enclose what they precede)
TreeIsIntended == phase = "done" => Skeleton(walk, 1, 0) = iwalk
\* errors lie inside the text
ErrorsInside == ErrWhy(errs, TextLen) = {}
\* inserting trivia between two tokens does not change the shape of the tree
TriviaInvariant == phase = "done" /\ shape0 # <<>> => Shape(walk) = shape0
\* the input of the model is a tiling token list (sanity of the instance)
InputTiles == TileWhy(toks, TextLen) = {}
=================================================================================
