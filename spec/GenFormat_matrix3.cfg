SPECIFICATION Spec
CONSTANTS
  WithPairs = TRUE
  WithTriples = TRUE
  MaxLines = 3
  WithRanges = FALSE
  Maxes = {0, 10}
  Ends = {"aligned", "indented"}
  BlindGlue = FALSE
  ByIndex = FALSE
  ExportScripts = TRUE
  RunModel = FALSE
  GenMaxLines = 0
CHECK_DEADLOCK FALSE
INVARIANT Export
