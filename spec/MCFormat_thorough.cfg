SPECIFICATION Spec
CONSTANTS
  WithPairs = TRUE
  WithTriples = TRUE
  MaxLines = 2
  WithRanges = TRUE
  Maxes = {0, 10, 16}
  Ends = {"aligned", "indented"}
  BlindGlue = FALSE
  ByIndex = FALSE
  ExportScripts = FALSE
  RunModel = TRUE
  GenMaxLines = 0
CHECK_DEADLOCK FALSE
INVARIANTS
  TokensPreserved
  Idempotent
  EditsConfined
  OriginsInOrder
  KeptLinesVerbatim
  OutsideUntouched
