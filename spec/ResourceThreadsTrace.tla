-------------------------- MODULE ResourceThreadsTrace --------------------------
(* C20 conformance at the grain the code guarantees: a cycle (snapshot of the shared         *)
(* globals, program execution, write-back) is ONE atomic step — which is exactly what       *)
(* ResourceThreads' NoLostUpdate / PairedEqual establish for the single-lock protocol and    *)
(* refute for the split-lock variant.                                                        *)
(* One run = one Reset event carrying two recorded streams:                                  *)
(*   cyc : the cycles of all resources in the order in which their outputs reached the       *)
(*         logging I/O driver (called inside execute_cycle, i.e. while the shared-globals    *)
(*         lock is held; the global sequence number is taken there): [r, a, b, n]            *)
(*   ctl : what the controller thread did and saw, in its own program order:                 *)
(*         Pause{r} ObservePaused{r} Snap{r,n} Resume{r} Advance Stop{r}                     *)
(*         Join{r,state,saves,timeout} Fault{r} ObserveFaulted{r} Progress{r,n}              *)
(* How the two streams interleave is not recorded; TLC searches for an interleaving that     *)
(* the atomic-cycle model explains:  every cycle reads the latest written value (a = last    *)
(* a + 1, no lost update), b = a (no half-updated pair), each resource's own counter         *)
(* advances by one, a snapshot's n is the resource's count at some instant between the       *)
(* controller's neighbouring actions, no cycle of r between ObservePaused{r} and Resume{r},  *)
(* none after Join{r} / ObserveFaulted{r}; Join returns in time with state Stopped (or       *)
(* Faulted) and exactly one retain save from the stop path.                                  *)
EXTENDS Integers, Sequences, FiniteSets, TLC, Json, IOUtils
Rec == ndJsonDeserialize(IOEnv.TRACE)
VARIABLES l, ci, ki, shared, cnt, held, dead, hw
\* l: run index; ci / ki: cursors into cyc / ctl of the current run; cnt: cycles per resource;
\* held: resources observed Paused and not yet resumed; dead: joined or observed Faulted
vars == <<l, ci, ki, shared, cnt, held, dead, hw>>
ASSUME TLCSet(1, 0) /\ TLCSet(2, 0) /\ TLCSet(3, 0)
Run == Rec[l]
More == l <= Len(Rec)
Names(r) == {r.res[i] : i \in DOMAIN r.res}
Start(k) == /\ l = k /\ ci = 1 /\ ki = 1 /\ shared = 0 /\ cnt = [x \in Names(Rec[k]) |-> 0] /\ held = {} /\ dead = {}
Init == Start(1) /\ hw = 0

C == Run.cyc[ci]
K == Run.ctl[ki]
Cycle == /\ ci <= Len(Run.cyc)
         /\ C.a = shared + 1 /\ C.b = C.a /\ C.n = cnt[C.r] + 1
         /\ C.r \notin held /\ C.r \notin dead
         /\ shared' = C.a /\ cnt' = [cnt EXCEPT ![C.r] = C.n] /\ ci' = ci + 1
         /\ UNCHANGED <<l, ki, held, dead>>
Ctl == /\ ki <= Len(Run.ctl) /\ ki' = ki + 1 /\ UNCHANGED <<l, ci, shared, cnt>>
       /\ CASE K.a = "ObservePaused" -> held' = held \cup {K.r} /\ UNCHANGED dead
            [] K.a = "Resume" -> held' = held \ {K.r} /\ UNCHANGED dead
            [] K.a = "Snap" -> K.n = cnt[K.r] /\ UNCHANGED <<held, dead>>
            [] K.a = "Progress" -> K.n <= cnt[K.r] /\ UNCHANGED <<held, dead>>
            [] K.a = "Join" -> /\ ~K.timeout
                               /\ K.state \in {"Stopped", "Faulted"}
                               /\ (K.state = "Stopped" => IF K.gated THEN K.saves <= 1 ELSE K.saves = 1)
                               /\ dead' = dead \cup {K.r} /\ UNCHANGED held
            [] K.a = "ObserveFaulted" -> dead' = dead \cup {K.r} /\ UNCHANGED held
            [] K.a \in {"Pause", "Advance", "Stop", "Fault"} -> UNCHANGED <<held, dead>>   \* no constraint by themselves
            [] OTHER -> FALSE     \* PauseNotObserved, SnapshotNotAnswered, FaultNotObserved, NoProgressAfterFault
\* the whole run is explained: move on to the next one
NextRun == /\ ci > Len(Run.cyc) /\ ki > Len(Run.ctl)
           /\ l' = l + 1
           /\ IF l + 1 <= Len(Rec)
              THEN ci' = 1 /\ ki' = 1 /\ shared' = 0 /\ cnt' = [x \in Names(Rec[l + 1]) |-> 0] /\ held' = {} /\ dead' = {}
              ELSE UNCHANGED <<ci, ki, shared, cnt, held, dead>>
Next == More /\ (Cycle \/ Ctl \/ NextRun) /\ UNCHANGED hw
Spec == Init /\ [][Next]_vars
\* high-water marks: furthest run, and within it the furthest (cycles + controller events) explained
HighWater ==
  /\ IF l > TLCGet(1) THEN TLCSet(1, l) /\ TLCSet(2, 0) /\ TLCSet(3, 0) ELSE TRUE
  /\ IF l = TLCGet(1) /\ More /\ (ci + ki) > TLCGet(2) + TLCGet(3) THEN TLCSet(2, ci) /\ TLCSet(3, ki) ELSE TRUE
Post == JsonSerialize(IOEnv.OUT, [runs |-> Len(Rec), explained |-> TLCGet(1) - 1, stuckCyc |-> TLCGet(2), stuckCtl |-> TLCGet(3)])
=================================================================================
