SPECIFICATION Spec
CONSTANTS
  Threads = {1}
  Dev = {"genDropKeepsPaused", "gateAfterAct"}
  MaxReqs = 2
  MaxQueued = 1
  MaxStops = 2
INVARIANTS TypeOK NoDuplicateStopped NoStoppedAfterResume WaitHasCause
PROPERTIES EveryRequestAnswered ContinueResumes
CHECK_DEADLOCK FALSE
