SPECIFICATION Spec
CONSTANTS
  MaxCount = 6
  LoadAfterRestart = TRUE
INVARIANTS TypeOK WarmKeeps
CHECK_DEADLOCK FALSE
