SPECIFICATION Spec
CONSTANTS
  CodeTTL = 1
  TokenTTL = 2
  MaxTokens = 2
  Variant = "code"
  T0 = 3
  SeedMode = "legacy"
  MaxNow = 7
  MaxCodes = 2
  MaxIssued = 3
  ReqRoles <- ReqRolesSmall
  Kinds = {"status"}
  RealTime = FALSE
  MaxSteps = 0
  ExportScripts = FALSE
VIEW View
CHECK_DEADLOCK FALSE
INVARIANTS
  ReloadKeepsValidity
