SPECIFICATION Spec
CONSTANTS
  KindNames = {"ka"}
  TypeNames = {"set", "status"}
  ReqRoles = {0, 1, 2, 3, 4}
  OneTable = FALSE
  WFs = {"yes", "no", "maybe"}
  StaleRoles = {2}
  MaxReq = 3
  ExportScripts = FALSE
VIEW View
CHECK_DEADLOCK FALSE
INVARIANTS
  OnlyWithSufficientRole
  UnauthenticatedIsInert
  MutatingNeedsMoreThanViewer
  DebugClassRefusedWhileDisabled
  MalformedIsAnErrorReply
  RefusalsAreInert
  RoleOrderMonotone
  PipelineIsOutcomes
  AlwaysAnswered
