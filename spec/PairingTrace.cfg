SPECIFICATION Spec
CONSTANTS
  CodeTTL = 300
  TokenTTL = 2592000
  MaxTokens = 256
  Variant = "code"
INVARIANT Done
CHECK_DEADLOCK FALSE
