SPECIFICATION SpecFb
CONSTANTS
  MaxSteps = 7
  MaxCycles = 3
  ExportScripts = FALSE
  EnableFaults = FALSE
  EnableRestart = FALSE
  EnableDebugWrites = TRUE
  SrcVals = {0, 3, 255}
  Dts = {2}
  CfgSel = "fb1"
VIEW View
CHECK_DEADLOCK FALSE
INVARIANTS
  WritesOnlyAtBoundaries
  DriverCallShape
  ReadsFirst
  PublishedIsEncodeOfFinal
  LatchStable
  InputsAreDriverData
  OutputLocality
  AtMostOncePerCycle
  ActivationsAreBlocks
