SPECIFICATION TSpec
CONSTANTS
  Sessions = {"a"}
  Viewers = {}
  MaxOps = 0
  MaxExpire = 0
  TornIds = {}
  Failures = FALSE
  Variant = "locked"
  External = FALSE
  Sequential = FALSE
  CheckTarget = TRUE
INVARIANT Done
CHECK_DEADLOCK FALSE
