SPECIFICATION SpecFb
CONSTANTS
  MaxSteps = 6
  MaxCycles = 4
  ExportScripts = FALSE
  EnableFaults = TRUE
  EnableRestart = TRUE
  EnableDebugWrites = FALSE
  SrcVals = {0, 255}
  Dts = {2}
  CfgSel = "fb1"
VIEW View
CHECK_DEADLOCK FALSE
INVARIANTS
  WarmKeepsExactlyRetained
  ColdEqualsFresh
  RestartResets
  PowerCycleSetEqualsWarmSet
  RestartClearsFault
  PublishedIsEncodeOfFinal
  LatchStable
  ExecutedIsDueSet
  FbOncePerActivation
  FbStatePersists
