SPECIFICATION Spec
CONSTANTS
  WithPairs = TRUE
  WithTriples = FALSE
  MaxLines = 0
  WithRanges = FALSE
  Maxes = {0, 10}
  Ends = {"aligned"}
  BlindGlue = TRUE
  ByIndex = FALSE
  ExportScripts = FALSE
  RunModel = TRUE
  GenMaxLines = 0
CHECK_DEADLOCK FALSE
INVARIANTS
  TokensPreserved
  Idempotent
  EditsConfined
  OriginsInOrder
  KeptLinesVerbatim
  OutsideUntouched
