SPECIFICATION GenSpec
CONSTANTS
  MaxToks = 0
  MaxEvents = 0
  WithStartNode = FALSE
  WithError = FALSE
  ExportScripts = TRUE
  MaxSoup = 40
  MaxOps = 3
  MaxIns = 3
  NFiles = 125
  Positions = {0, 50, 100, 200, 300, 400, 500, 600, 700, 800, 900, 950, 999}
CHECK_DEADLOCK FALSE
INVARIANT Export
