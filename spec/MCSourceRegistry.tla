------------------------- MODULE MCSourceRegistry -------------------------
EXTENDS SourceRegistry
Bound == mark <= MaxId
=============================================================================
