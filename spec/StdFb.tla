--------------------------------- MODULE StdFb ---------------------------------
(* The IEC 61131-3 standard function blocks TON TOF TP CTU CTD CTUD R_TRIG F_TRIG SR RS.   *)
(* Two layers, both written from IEC 61131-3 (tables 35-38 and the timing diagrams) and    *)
(* property C04, not from the code:                                                        *)
(*  (a) history-based definitions: the outputs as a function of the whole call history of  *)
(*      one instance, under the runtime's documented sampling rule (the time between two   *)
(*      calls of an instance is attributed to the input seen at the later call);           *)
(*  (b) state machines with per-instance memory — what the trace specification steps.      *)
(* MCStdFb checks (b) = (a) on every history up to a bound, ET <= PT, ET monotone while    *)
(* timing, saturation, one-call edges and instance independence.                           *)
EXTENDS Integers, Sequences, FiniteSets

Pos(x) == IF x < 0 THEN 0 ELSE x
Min(a, b) == IF a < b THEN a ELSE b
RECURSIVE SumDt(_, _, _)
SumDt(s, a, b) == IF a > b THEN 0 ELSE s[a].dt + SumDt(s, a + 1, b)
In(s, i) == IF i < 1 THEN FALSE ELSE s[i].in

\* =========================== (a) definitions over a history ===========================
\* a timer history is a sequence of [in, pt, dt]; dt of the first call is 0
\* start of the maximal run of calls with in = v ending at k
RunStart(s, k, v) == CHOOSE j \in 1..k : (\A i \in j..k : s[i].in = v) /\ (j = 1 \/ s[j - 1].in # v)

\* TON: Q is true exactly when IN has been true over consecutive calls whose accumulated
\* time reaches PT (PT as seen at the current call; negative PT counts as 0)
\* (the interval ending at the first IN-true call already counts: it is attributed to the
\* input seen at the later call)
DefTON(s) ==
  LET k == Len(s) IN
  IF ~s[k].in THEN [q |-> FALSE, et |-> 0]
  ELSE LET acc == SumDt(s, RunStart(s, k, TRUE), k)
           pt  == Pos(s[k].pt)
       IN [q |-> acc >= pt, et |-> Min(acc, pt)]

\* TOF: Q stays true until the accumulated time since IN fell reaches PT
DefTOF(s) ==
  LET k == Len(s) IN
  IF s[k].in THEN [q |-> TRUE, et |-> 0, timing |-> FALSE]
  ELSE LET f == RunStart(s, k, FALSE) IN
       IF f = 1 THEN [q |-> FALSE, et |-> 0, timing |-> FALSE]          \* IN has never been true
       ELSE LET alive == \A m \in f..k : SumDt(s, f, m) < Pos(s[m].pt)  \* not yet expired
            IN [q |-> alive, et |-> IF alive THEN SumDt(s, f, k) ELSE -1, timing |-> alive]  \* et = -1: unconstrained

\* TP: one non-retriggerable pulse of accumulated length PT; a pulse starts at a rising
\* edge seen while no pulse is active; edges inside a pulse are ignored
RECURSIVE PulseStart(_, _)
\* index at which the pulse active at call k started, 0 if none is active at k
PulseStart(s, k) ==
  IF k < 1 THEN 0
  ELSE LET prev == PulseStart(s, k - 1)
           rising == s[k].in /\ ~In(s, k - 1)
           start == IF prev # 0 THEN prev ELSE IF rising THEN k ELSE 0
       IN IF start = 0 THEN 0
          ELSE IF SumDt(s, start, k) >= Pos(s[k].pt) THEN 0 ELSE start
DefTP(s) ==
  LET k == Len(s) st == PulseStart(s, k) IN
  [q |-> st # 0, et |-> IF st # 0 THEN SumDt(s, st, k) ELSE -1]

\* edge detectors over a history of CLK values: exactly one call per edge
DefRTRIG(c) == LET k == Len(c) IN c[k] /\ (k = 1 \/ ~c[k - 1])
DefFTRIG(c) == LET k == Len(c) IN ~c[k] /\ k > 1 /\ c[k - 1]       \* first call: see FTrigFirstFree

\* ================================ (b) state machines ================================
TonInit == [et |-> 0, q |-> FALSE]
TonStep(m, in, ptRaw, dt) ==
  LET pt == Pos(ptRaw) IN
  IF ~in THEN [et |-> 0, q |-> FALSE]
  ELSE [et |-> m.et + dt, q |-> m.et + dt >= pt]
TonOut(m, ptRaw) == [q |-> m.q, et |-> Min(m.et, Pos(ptRaw))]

TofInit == [et |-> 0, q |-> FALSE, prev |-> FALSE, timing |-> FALSE]
TofStep(m, in, ptRaw, dt) ==
  LET pt == Pos(ptRaw) IN
  IF in THEN [et |-> 0, q |-> TRUE, prev |-> TRUE, timing |-> FALSE]
  ELSE LET t0 == IF m.prev THEN TRUE ELSE m.timing
           e0 == IF m.prev THEN 0 ELSE m.et
       IN IF t0 THEN (IF e0 + dt >= pt THEN [et |-> e0 + dt, q |-> FALSE, prev |-> FALSE, timing |-> FALSE]
                      ELSE [et |-> e0 + dt, q |-> TRUE, prev |-> FALSE, timing |-> TRUE])
          ELSE [et |-> 0, q |-> FALSE, prev |-> FALSE, timing |-> FALSE]

TpInit == [et |-> 0, prev |-> FALSE, active |-> FALSE]
TpStep(m, in, ptRaw, dt) ==
  LET pt == Pos(ptRaw)
      rising == in /\ ~m.prev
      a0 == m.active \/ rising
      e0 == IF rising /\ ~m.active THEN 0 ELSE m.et        \* non-retriggerable
  IN IF a0 THEN (IF e0 + dt >= pt THEN [et |-> pt, prev |-> in, active |-> FALSE]
                 ELSE [et |-> e0 + dt, prev |-> in, active |-> TRUE])
     ELSE [et |-> m.et, prev |-> in, active |-> FALSE]

\* counters (IEC bodies); lo/hi are the bounds of CV's type; they saturate, never wrap
CtrInit == [cv |-> 0, pcu |-> FALSE, pcd |-> FALSE]
CtuStep(m, cu, r, pv, hi) ==
  LET rising == cu /\ ~m.pcu
      cv == IF r THEN 0 ELSE IF rising /\ m.cv < hi THEN m.cv + 1 ELSE m.cv
  IN [cv |-> cv, pcu |-> cu, pcd |-> m.pcd]
CtuOut(m, pv) == [q |-> m.cv >= pv, cv |-> m.cv]
CtdStep(m, cd, ld, pv, lo) ==
  LET rising == cd /\ ~m.pcd
      cv == IF ld THEN pv ELSE IF rising /\ m.cv > lo THEN m.cv - 1 ELSE m.cv
  IN [cv |-> cv, pcu |-> m.pcu, pcd |-> cd]
\* zero = where the absolute 0 lies relative to the values of the run (0 itself unless the run looks at a
\* window of a wide type far from 0, see StdFbTrace)
CtdOutZ(m, zero) == [q |-> m.cv <= zero, cv |-> m.cv]
CtdOut(m) == CtdOutZ(m, 0)
CtudStep(m, cu, cd, r, ld, pv, lo, hi) ==
  LET ru == cu /\ ~m.pcu
      rd == cd /\ ~m.pcd
      cv == IF r THEN 0 ELSE IF ld THEN pv
            ELSE IF ru /\ rd THEN m.cv
            ELSE IF ru /\ m.cv < hi THEN m.cv + 1
            ELSE IF rd /\ ~ru /\ m.cv > lo THEN m.cv - 1 ELSE m.cv
  IN [cv |-> cv, pcu |-> cu, pcd |-> cd]
CtudOutZ(m, pv, zero) == [qu |-> m.cv >= pv, qd |-> m.cv <= zero, cv |-> m.cv]
CtudOut(m, pv) == CtudOutZ(m, pv, 0)

\* edge detectors: memory = CLK of the previous call (FALSE before the first)
TrigInit == [prev |-> FALSE, calls |-> 0]
TrigStep(m, clk) == [prev |-> clk, calls |-> IF m.calls < 2 THEN m.calls + 1 ELSE 2]
RTrigOut(m, clk) == clk /\ ~m.prev
FTrigOut(m, clk) == ~clk /\ m.prev
\* the one place where IEC's body (M initially 0 => Q on a first call with CLK = FALSE) and
\* "exactly one call per edge" disagree: the very first call of F_TRIG with CLK = FALSE
FTrigFirstFree(m, clk) == m.calls = 0 /\ ~clk

\* bistables: SR is set-dominant, RS reset-dominant
SrStep(q, s1, r) == s1 \/ (~r /\ q)
RsStep(q, s, r1) == ~r1 /\ (s \/ q)
=================================================================================
