SPECIFICATION Spec
CONSTANTS
  MaxOps = 3
  NFiles = {2}
  QKinds = {"diagnostics", "symbols", "types"}
  CatSet = {"small"}
  ExportScripts = TRUE
CHECK_DEADLOCK FALSE
INVARIANTS
  Export
