------------------------------ MODULE RenameTrace ------------------------------
(* Trace validation of recorded rename requests on the real code against Rename.           *)
(* One TLC pass walks the whole ndjson file; every event is judged with the operators of   *)
(* the design module; a rejected request goes into `bad`.                                   *)
(*                                                                                         *)
(*   Reset{par, kinds, decls, refs}   the abstract project of a run (a VARIABLE of Rename)  *)
(*                             and the kind of every scope (used only to name classes)     *)
(*   Check{res, runs}          "ready": the rendered project is error-free (the property    *)
(*                             quantifies over those); anything else: the run is skipped    *)
(*   Rename{ot, oid, file, new, cls, res, ed, er, unk, wf, diag, beh}                      *)
(*       request at occurrence (ot, oid) in file `file` for the case-folded name `new` of  *)
(*       class cls;                                                                        *)
(*       res "refused" | "applied" | "panic"; ed / er: the declarations / references       *)
(*       whose identifier token was replaced, unk: edits on no known occurrence;           *)
(*       wf: edits in bounds, disjoint, one identifier each; diag: re-analysis gives the   *)
(*       same diagnostics modulo the name; beh: same outputs on the input trace            *)
(*   Back{res}                 rename back: "restored" | "differs" | "refused" | "panic"   *)
(*                             | "none"                                                    *)
(*   Panic{msg}                the process died while this run was executing               *)
(*                                                                                         *)
(* Every request starts from the project of the Reset (the harness never keeps an edited   *)
(* text), so a rejected request does not invalidate the following ones: only its own Back  *)
(* event is skipped, and the rest of a run is skipped only after Check # ready or Panic.   *)
(*                                                                                         *)
(* Acceptance = the design action (refuse, or apply exactly OccsOf when CanApply, with the *)
(* consequences the property states), made permissive where the property is silent:        *)
(* an applied request whose edits differ from the model's expectation, or that the model   *)
(* calls unsafe, but for which nothing observable changed (well-formed edits, same         *)
(* diagnostics, same behaviour, rename-back restores) is counted as inconclusive, never    *)
(* as a violation; a refused rename-back is accepted (refusing is always allowed).         *)
EXTENDS Rename, Json, IOUtils
Rec == ndJsonDeserialize(IOEnv.TRACE)
VARIABLES l, run, bad, odd, skip, ready, last, stats, kinds
tvars == <<l, run, bad, odd, skip, ready, last, stats, kinds, rvars>>
E == Rec[l]
More == l <= Len(Rec)

Set(q) == {q[i] : i \in DOMAIN q}
ProjectOf(e) == [par |-> e.par, decls |-> Set(e.decls), refs |-> Set(e.refs)]
Stats0 == [requests |-> 0, applied |-> 0, refused |-> 0, refusedThoughAllowed |-> 0, appliedAsSpecified |-> 0,
           inconclusive |-> 0, backRestored |-> 0, backRefused |-> 0, skippedRuns |-> 0, ready |-> 0]
NoLast == [applied |-> FALSE, rejected |-> FALSE, other |-> FALSE, unsafe |-> "", dkind |-> "", orole |-> "", homonyms |-> FALSE, homAfter |-> FALSE]

Init == /\ l = 2 /\ run = 1 /\ bad = <<>> /\ odd = <<>> /\ skip = FALSE /\ ready = FALSE /\ last = NoLast /\ stats = Stats0
        /\ Rec[1].a = "Reset" /\ Idle(ProjectOf(Rec[1])) /\ kinds = Rec[1].kinds
Reset == /\ More /\ E.a = "Reset" /\ l' = l + 1 /\ run' = run + 1
         /\ proj' = ProjectOf(E) /\ orig' = proj' /\ pc' = "idle" /\ req' = NoReq /\ target' = 0 /\ edits' = NoEdits
         /\ kinds' = E.kinds /\ skip' = FALSE /\ ready' = FALSE /\ last' = NoLast /\ UNCHANGED <<bad, odd, stats>>
Skip  == /\ More /\ skip /\ E.a # "Reset" /\ l' = l + 1 /\ UNCHANGED <<run, bad, odd, skip, ready, last, stats, kinds, rvars>>
Check == /\ More /\ ~skip /\ E.a = "Check" /\ l' = l + 1 /\ skip' = (E.res # "ready") /\ ready' = (E.res = "ready")
         /\ stats' = IF E.res = "ready" THEN [stats EXCEPT !.ready = @ + 1] ELSE [stats EXCEPT !.skippedRuns = @ + 1]
         /\ UNCHANGED <<run, bad, odd, last, kinds, rvars>>
\* the process died (abort / stack overflow / allocation failure): inside a rename request it
\* is a rejected request; while the ORIGINAL project was analysed / executed (before Check)
\* the project is not one the property quantifies over, and the run is skipped
Died  == /\ More /\ ~skip /\ E.a = "Panic" /\ l' = l + 1 /\ skip' = TRUE
         /\ IF ready
            THEN /\ bad' = Append(bad, [run |-> run, line |-> l, why |-> {"process-died"}, dkind |-> "", orole |-> "",
                                        homonyms |-> FALSE, homAfter |-> FALSE, kind |-> "Panic"])
                 /\ stats' = stats
            ELSE bad' = bad /\ stats' = [stats EXCEPT !.skippedRuns = @ + 1]
         /\ UNCHANGED <<run, odd, ready, last, kinds, rvars>>

\* ---------------------------------------------------------------- one rename request
Occ      == [t |-> E.ot, id |-> E.oid]
Tgt      == TargetOf(proj, Occ)
Obs      == [d |-> Set(E.ed), r |-> Set(E.er)]
Exp      == OccsOf(proj, Tgt)
Broken   == ~E.wf \/ ~E.diag \/ ~E.beh
ORole    == IF E.ot = "d" THEN "declaration" ELSE RefById(proj, E.oid).role
\* kind of the symbol under the cursor; "ns-" marks a unit declared directly in a namespace and
\* the fields of such a structure type
InNamespace(d) == kinds[d.scope] = "namespace"
                  \/ (d.kind = "field" /\ proj.par[d.scope] # 0 /\ kinds[proj.par[d.scope]] = "namespace")
DKind    == IF Tgt = 0 THEN "none"
            ELSE LET d == DeclById(proj, Tgt) IN (IF InNamespace(d) THEN "ns-" ELSE "") \o d.kind
\* scenario class "homonymous units": the name of a unit (a declaration that owns a scope:
\* POU, method, type, namespace) is also the name of another declaration of the project
\* (PROGRAM P and METHOD P, FUNCTION F and FUNCTION Ns.F, FUNCTION F and a variable F) --
\* in the project as it is, or in the project as edited
\* (a STRUCT type and a variable / field / parameter of the same spelling are NOT of this class:
\* a structure has no body that is found by name, and `limits : Limits` is ordinary code)
HomonymsIn(p) == \E d \in {x \in p.decls : x.owns # 0}, e \in p.decls :
                   d.id # e.id /\ d.name = e.name /\ ~(d.kind = "struct" /\ e.owns = 0)
Homonyms == HomonymsIn(proj)
HomonymsAfter == HomonymsIn(ApplyEdits(proj, Obs, E.new))
\* the first class (in the order of Rename!Safe) that makes the request unsafe
Unsafe   == IF Tgt = 0 \/ E.cls # "name" THEN {} ELSE UnsafeClasses(proj, DeclById(proj, Tgt), E.new)
\* (the clash is "local" when the request is made in the file that holds both the renamed
\* declaration and the clashing one; otherwise it spans files and is named separately)
ClashLocal == LET d == DeclById(proj, Tgt) IN
              /\ E.file = d.file
              /\ \E e \in proj.decls : e.id # d.id /\ e.scope = d.scope /\ e.name = E.new /\ e.file = d.file
FirstUnsafe == IF "new-name-declared-in-declaring-scope" \in Unsafe
               THEN (IF ClashLocal THEN "new-name-declared-in-declaring-scope" ELSE "new-name-declared-in-declaring-scope-across-files")
               ELSE IF "new-name-declared-between-reference-and-declaration" \in Unsafe THEN "new-name-declared-between-reference-and-declaration"
               ELSE "new-name-referenced-inside-scope-of-declaration"
MissedRoles == {RefById(proj, r).role : r \in Exp.r \ Obs.r} \cup (IF Tgt \in Obs.d THEN {} ELSE {"declaration"})
Extra    == (Obs.r \ Exp.r) # {} \/ (Obs.d \ Exp.d) # {} \/ E.unk > 0
AsSpecified == CanApply(proj, Occ, E.new, E.cls) /\ Obs = Exp /\ E.unk = 0
Why ==
  IF E.res = "refused" THEN {}
  ELSE IF E.res = "panic" THEN {"panic"}
  ELSE IF ~Broken THEN {}
  ELSE IF E.cls # "name" THEN {"invalid-name-applied:" \o E.cls}
  ELSE IF Tgt = 0 THEN {"applied-on-unresolved-occurrence"}
  ELSE IF ~E.wf THEN {"malformed-edits"}
  ELSE IF Tgt \notin Obs.d THEN {"other-symbol-renamed"}          \* not even the declaration under the cursor
  ELSE IF Unsafe # {} THEN {"capture:" \o FirstUnsafe}            \* should have been refused
  ELSE IF Extra THEN {"extra-edit"}
  ELSE IF MissedRoles # {} THEN {"missed-reference:" \o r : r \in MissedRoles}
  ELSE IF ~E.diag THEN {"diagnostics-changed"} ELSE {"behaviour-changed"}

RenameEv ==
  /\ More /\ ~skip /\ E.a = "Rename" /\ l' = l + 1 /\ UNCHANGED <<run, skip, ready, kinds, rvars>>
  /\ LET why == Why
         applied == E.res = "applied"
         allowed == CanApply(proj, Occ, E.new, E.cls)
     IN /\ bad' = IF why = {} THEN bad
                  ELSE Append(bad, [run |-> run, line |-> l, why |-> why, dkind |-> DKind, orole |-> ORole, homonyms |-> Homonyms, homAfter |-> HomonymsAfter, kind |-> "Rename"])
        \* applied, nothing observable changed, but not what the specification would have done
        /\ odd' = IF applied /\ why = {} /\ ~AsSpecified
                  THEN Append(odd, [run |-> run, line |-> l, dkind |-> DKind, orole |-> ORole,
                                    what |-> IF E.cls # "name" THEN "invalid-name-accepted-by-the-language"
                                             ELSE IF Tgt \notin Obs.d THEN "other-symbol-renamed-consistently"
                                             ELSE IF Unsafe # {} THEN "unsafe-in-the-model-but-nothing-observable"
                                             ELSE "edit-set-differs-but-nothing-observable"])
                  ELSE odd
        /\ last' = [applied |-> applied, rejected |-> why # {}, other |-> applied /\ Tgt \notin Obs.d,
                    unsafe |-> IF applied /\ Unsafe # {} THEN FirstUnsafe ELSE "", dkind |-> DKind, orole |-> ORole, homonyms |-> Homonyms, homAfter |-> IF applied THEN HomonymsAfter ELSE FALSE]
        /\ stats' = [stats EXCEPT !.requests = @ + 1,
                                  !.applied = @ + (IF applied THEN 1 ELSE 0),
                                  !.refused = @ + (IF E.res = "refused" THEN 1 ELSE 0),
                                  !.refusedThoughAllowed = @ + (IF E.res = "refused" /\ allowed THEN 1 ELSE 0),
                                  !.appliedAsSpecified = @ + (IF applied /\ why = {} /\ AsSpecified THEN 1 ELSE 0),
                                  !.inconclusive = @ + (IF applied /\ why = {} /\ ~AsSpecified THEN 1 ELSE 0)]

\* ---------------------------------------------------------------- rename back
BackWhy ==
  IF ~last.applied \/ last.rejected THEN {}
  ELSE IF E.res = "panic" THEN {"panic-on-rename-back"}
  ELSE IF E.res = "differs"
       THEN (IF last.other THEN {"other-symbol-renamed"}          \* ... and not renamed back
             ELSE IF last.unsafe # "" THEN {"capture:" \o last.unsafe} ELSE {"rename-back-mismatch"})
  ELSE {}
BackEv ==
  /\ More /\ ~skip /\ E.a = "Back" /\ l' = l + 1 /\ UNCHANGED <<run, odd, skip, ready, kinds, rvars>>
  /\ bad' = IF BackWhy = {} THEN bad
            ELSE Append(bad, [run |-> run, line |-> l, why |-> BackWhy, dkind |-> last.dkind, orole |-> last.orole, homonyms |-> last.homonyms, homAfter |-> last.homAfter, kind |-> "Back"])
  /\ last' = NoLast
  /\ stats' = [stats EXCEPT !.backRestored = @ + (IF E.res = "restored" THEN 1 ELSE 0),
                            !.backRefused = @ + (IF E.res = "refused" THEN 1 ELSE 0)]

Next == More /\ (Reset \/ Skip \/ Check \/ Died \/ RenameEv \/ BackEv)
Spec == Init /\ [][Next]_tvars
\* verdict, written once the last line has been consumed
Done == l = Len(Rec) + 1 =>
          JsonSerialize(IOEnv.OUT, [runs |-> run, events |-> Len(Rec), bad |-> bad, odd |-> odd, stats |-> stats])
=================================================================================
