------------------------------- MODULE MCRename -------------------------------
(* Design-level model checking of Rename and export of scenarios for the real code.        *)
(*                                                                                         *)
(* Mode "all"  (MCRename.cfg, MCRename_static*.cfg): EVERY project with NScopes scopes     *)
(*   (every tree shape), the names of NameSeq, at most MaxDecls declarations and MaxRefs   *)
(*   references (lexical or member lookups, resolved or not) is an initial state; every    *)
(*   rename request (every occurrence x every name, a fresh name, a keyword, an invalid    *)
(*   name) is driven through the phases.  The invariants are the statements of C16.        *)
(* Mode "skel" (GenRename.cfg, -simulate): the SHAPE of a project comes from a catalogue   *)
(*   of typed skeletons (IOEnv.SKEL, written by `tpv rename-gen --skeletons`: scopes,      *)
(*   declaration slots with kinds, reference slots with the declaration they are meant     *)
(*   to denote); the specification chooses the NAMES (so that the project is well formed   *)
(*   and every reference denotes what it is meant to) and the rename requests, and prints  *)
(*   each complete behaviour as a script for `tpv rename-run` (spec -> implementation).    *)
EXTENDS Rename, Json, IOUtils

CONSTANTS Mode, NScopes, NameSeq, MaxDecls, MaxRefs, MaxReqs, ExportScripts,
          AllowHomonyms    \* mode "skel": may the name of a unit (POU, method, type, namespace) be used twice?

VARIABLES sk,       \* index of the skeleton (0 in mode "all")
          names,    \* names chosen so far, by declaration slot
          hist,     \* the requests made (observation only)
          nreq
mvars == <<proj, orig, pc, req, target, edits, sk, names, hist, nreq>>
View == <<proj, orig, pc, req, target, edits, sk, names, nreq>>

\* (tuples cannot be written in a .cfg file)
Names2 == <<"a", "b">>
Names3 == <<"a", "b", "c">>
Names4 == <<"a", "b", "c", "d">>
Names6 == <<"a", "b", "c", "d", "e", "f">>
Names8 == <<"a", "b", "c", "d", "e", "f", "g", "h">>
Names == {NameSeq[i] : i \in DOMAIN NameSeq}
NN == Len(NameSeq)

\* ------------------------------------------------------------------ mode "all"
\* parent vectors of every tree on 1..NScopes with root 1 (a parent has a smaller number)
ParVecs == {pv \in [1..NScopes -> 0..NScopes] : pv[1] = 0 /\ \A s \in 2..NScopes : pv[s] >= 1 /\ pv[s] < s}
\* declaration slot k = (scope, name); reference slot k = (site, name, mode)
NDS == NScopes * NN
DSlot(k) == [scope |-> ((k - 1) \div NN) + 1, name |-> NameSeq[((k - 1) % NN) + 1]]
NRS == NScopes * NN * 2
RSlot(k) == [site |-> ((k - 1) \div (NN * 2)) + 1, name |-> NameSeq[(((k - 1) \div 2) % NN) + 1],
             mode |-> IF k % 2 = 0 THEN "lex" ELSE "mem"]
UpTo3(n) == {{}} \cup {{a} : a \in 1..n} \cup {{a, b} : a, b \in 1..n} \cup {{a, b, c} : a, b, c \in 1..n}
DSets == {S \in UpTo3(NDS) : Cardinality(S) <= MaxDecls}
RSets == {S \in UpTo3(NRS) : Cardinality(S) <= MaxRefs}
Rank(S, k) == Cardinality({j \in S : j <= k})
GenericProject(pv, D, R) ==
  [par |-> pv,
   decls |-> {[id |-> Rank(D, k), scope |-> DSlot(k).scope, name |-> DSlot(k).name, kind |-> "var"] : k \in D},
   refs |-> {[id |-> Rank(R, k), site |-> RSlot(k).site, name |-> RSlot(k).name, mode |-> RSlot(k).mode, role |-> "value"] : k \in R}]
InitAll == /\ Mode = "all" /\ sk = 0 /\ names = <<>> /\ hist = <<>> /\ nreq = 0
           /\ \E pv \in ParVecs, D \in DSets, R \in RSets : Idle(GenericProject(pv, D, R))

\* ------------------------------------------------------------------ mode "skel"
Skels == ndJsonDeserialize(IOEnv.SKEL)
S == Skels[sk]
ND == Len(S.decls)
SkelProject(nm) ==
  [par |-> [i \in 1..Len(S.scopes) |-> S.scopes[i].parent],
   decls |-> {[id |-> i, scope |-> S.decls[i].scope, name |-> nm[i], kind |-> S.decls[i].kind] : i \in 1..Len(S.decls)},
   refs |-> {[id |-> j, site |-> S.refs[j].site, name |-> nm[S.refs[j].tgt], mode |-> S.refs[j].mode, role |-> S.refs[j].role] : j \in 1..Len(S.refs)}]
\* every reference denotes the declaration it is meant to denote ("fully resolved project")
Intended(p) == \A j \in 1..Len(S.refs) : Resolve(p, RefById(p, j)) = S.refs[j].tgt
InitSkel == /\ Mode = "skel" /\ sk \in 1..Len(Skels) /\ names = <<>> /\ hist = <<>> /\ nreq = 0
            /\ pc = "build" /\ proj = [par |-> <<>>, decls |-> {}, refs |-> {}] /\ orig = proj
            /\ req = NoReq /\ target = 0 /\ edits = NoEdits
\* name the next declaration slot: any name not yet used in its scope
AssignName ==
  /\ pc = "build" /\ Len(names) < ND
  /\ \E n \in Names :
       /\ \A i \in 1..Len(names) : S.decls[i].scope = S.decls[Len(names) + 1].scope => names[i] # n
       /\ AllowHomonyms \/ \A i \in 1..Len(names) :
             (S.decls[i].owns # 0 \/ S.decls[Len(names) + 1].owns # 0) => names[i] # n
       /\ names' = Append(names, n)
  /\ IF Len(names') = ND
     THEN LET p == SkelProject(names') IN
          /\ WellFormed(p) /\ Intended(p)
          /\ proj' = p /\ orig' = p /\ pc' = "idle"
     ELSE UNCHANGED <<proj, orig, pc>>
  /\ UNCHANGED <<req, target, edits, sk, hist, nreq>>

Init == InitAll \/ InitSkel

\* ------------------------------------------------------------------ requests
NewNames == {[n |-> x, cls |-> "name"] : x \in Names \cup {"fresh"}}
            \cup {[n |-> "kw", cls |-> "keyword"], [n |-> "bad", cls |-> "invalid"]}
DoRequest == \E o \in Occurrences(proj), nn \in NewNames :
  /\ nreq < MaxReqs /\ Request(o, nn.n, nn.cls)
  /\ hist' = Append(hist, [t |-> o.t, id |-> o.id, new |-> nn.n, cls |-> nn.cls])
  /\ nreq' = nreq + 1 /\ UNCHANGED <<sk, names>>
\* the phases of Rename, one action each (so that TLC's coverage shows every one was taken)
Keep == UNCHANGED <<sk, names, hist, nreq>>
DoResolveTarget == ResolveTarget /\ Keep
DoValidate      == Validate /\ Keep
DoConflictCheck == ConflictCheck /\ Keep
DoCollect       == Collect /\ Keep
DoApply         == Apply /\ Keep
DoRenameBack    == RenameBack /\ Keep
DoRefused       == Refused /\ Keep
Next == \/ AssignName
        \/ DoRequest
        \/ DoResolveTarget \/ DoValidate \/ DoConflictCheck \/ DoCollect \/ DoApply \/ DoRenameBack \/ DoRefused
Spec == Init /\ [][Next]_mvars

\* the two statements about the conflict check do not depend on the phase: evaluated once per
\* project (they are the expensive ones)
SafeIsExactOnce == (pc = "idle" /\ nreq = 0) => SafeIsExact
CaseVariantIsSafeOnce == (pc = "idle" /\ nreq = 0) => CaseVariantIsSafe

\* ------------------------------------------------------------------ sanity of the model itself
\* a check of the declaring scope alone is NOT enough (expected to be violated: see
\* MCRename_declscope.cfg, which the check runs to show that the model distinguishes the two)
DeclScopeSuffices == (pc = "idle" /\ nreq = 0) => \A d \in proj.decls, new \in Names :
                        DeclaringScopeOnly(proj, d, new) => Preserved(proj, Renamed(proj, d.id, new))

\* ------------------------------------------------------------------ export (spec -> impl)
Export == (ExportScripts /\ Mode = "skel" /\ pc = "idle" /\ nreq = MaxReqs) =>
             PrintT(<<"SCRIPT", ToJson([sk |-> sk, names |-> names, reqs |-> hist])>>)
=================================================================================
