SPECIFICATION Spec
INVARIANT Done
CHECK_DEADLOCK FALSE
