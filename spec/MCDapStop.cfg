SPECIFICATION Spec
CONSTANTS
  Threads = {1}
  Dev = {}
  CmdSet = {"continue", "pause", "next", "setBps0", "setBps1"}
  MaxReqs = 2
  MaxQueued = 1
  MaxStops = 2
INVARIANTS TypeOK NoDuplicateStopped NoLostStop NoStoppedAfterResume ResponseBeforeLaterStop WaitHasCause StopHasSnapshot
PROPERTIES EveryRequestAnswered ContinueResumes
CHECK_DEADLOCK FALSE
