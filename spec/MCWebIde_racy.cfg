SPECIFICATION Spec
CONSTANTS
  Sessions = {"a", "b"}
  Viewers = {}
  MaxOps = 5
  MaxExpire = 3
  TornIds = {99}
  Failures = FALSE
  Variant = "racy"
  External = FALSE
  Sequential = FALSE
  CheckTarget = TRUE
  PathLen = 0
  Mode = "mc"
VIEW View
CHECK_DEADLOCK FALSE
PROPERTIES NoLostUpdate
