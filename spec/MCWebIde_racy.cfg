SPECIFICATION Spec
CONSTANTS
  Sessions = {"a", "b"}
  Viewers = {}
  MaxOps = 5
  Variant = "racy"
  External = FALSE
  Sequential = FALSE
  CheckTarget = TRUE
  PathLen = 0
  Mode = "mc"
VIEW View
CHECK_DEADLOCK FALSE
INVARIANTS DiskIsLastSuccess
PROPERTIES NoLostUpdate Chain VersionsGrow OnlyLiveEditorsMutate FileChangesOnlyInWrites
