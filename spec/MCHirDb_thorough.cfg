SPECIFICATION Spec
CONSTANTS
  MaxOps = 6
  NFiles = {3}
  QKinds = {"diagnostics", "symbols", "types"}
  CatSet = {"small"}
  ExportScripts = FALSE
VIEW View
CHECK_DEADLOCK FALSE
INVARIANTS
  InputsInSyncAtQuery
  InputsInSync
  AnswerEqualsFresh
  RepeatQueryStable
  NoPanic
  MemoSound
