SPECIFICATION TSpec
CONSTANTS
  Threads = {1, 2}
  Dev = {"gateAnyOrder", "cycleUnobserved"}
  LenientGenDrop = FALSE
  LenientOrder = TRUE
CONSTRAINT HighWater
POSTCONDITION Post
CHECK_DEADLOCK FALSE
