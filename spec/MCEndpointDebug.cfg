SPECIFICATION Spec
CONSTANTS
  Tasks = {"fast", "ev", "slow"}
  Every = "fast"
  PauseOnlyLastThread = FALSE
INVARIANTS TypeOK PauseStops
PROPERTIES PauseEventuallyStops StepEventuallyStops
CONSTRAINT Bound
CHECK_DEADLOCK FALSE
