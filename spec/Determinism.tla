------------------------------- MODULE Determinism -------------------------------
(* C05: compilation and execution are functions of their inputs.  Independent OS processes  *)
(* (different hash seeds, environment sizes, memory layouts, program orders) each report,   *)
(* for every program, the hash of the emitted STBC container and the digest of the          *)
(* observable state after every cycle (canonical variable state, faults, runtime events,    *)
(* output image).  The specification: an observation is a function of the program —         *)
(* Compile(p) and CycleDigest(p, k) do not depend on the process.                           *)
EXTENDS Integers, Sequences, FiniteSets, TLC, Json, IOUtils
Rec == ndJsonDeserialize(IOEnv.TRACE)
VARIABLES l, first, bad, nobs
vars == <<l, first, bad, nobs>>
E == Rec[l]
More == l <= Len(Rec)
None == [bytes |-> "", digests |-> <<>>]
Init == l = 1 /\ first = None /\ bad = <<>> /\ nobs = 0
\* a new program: forget the reference observation
Reset == E.a = "Reset" /\ l' = l + 1 /\ first' = None /\ UNCHANGED <<bad, nobs>>
\* the first process fixes the value of the function; every other process must report the same
Obs == /\ E.a = "Obs" /\ l' = l + 1 /\ nobs' = nobs + 1
       /\ IF first = None
          THEN first' = [bytes |-> E.bytes, digests |-> E.digests] /\ bad' = bad
          ELSE /\ first' = first
               /\ LET why == (IF E.bytes = first.bytes THEN {} ELSE {"container-bytes"})
                             \cup (IF Len(E.digests) = Len(first.digests) THEN {} ELSE {"cycle-count"})
                             \cup {"cycle-" \o ToString(k) : k \in {k \in DOMAIN E.digests \cap DOMAIN first.digests : E.digests[k] # first.digests[k]}}
                  IN bad' = IF why = {} THEN bad ELSE Append(bad, [line |-> l, k |-> E.k, proc |-> E.proc, why |-> why])
Next == More /\ (Reset \/ Obs)
Spec == Init /\ [][Next]_vars
Done == l = Len(Rec) + 1 => JsonSerialize(IOEnv.OUT, [events |-> Len(Rec), observations |-> nobs, bad |-> bad])
=================================================================================
