SPECIFICATION Spec
CONSTANTS
  Kinds = {"TON", "TOF", "TP", "CTU", "CTD", "CTUD", "R_TRIG", "F_TRIG", "SR", "RS"}
  DTs = {0, 1, 2, 5}
  PTs <- MCPTs
  PVs = {0, 2}
  MaxLen = 5
  NInst = 1
  Lo <- MCLo
  Hi = 2
  ExportScripts = FALSE
VIEW View
INVARIANTS TonRefines TofRefines TpRefines RTrigRefines FTrigRefines EtBound EtMonotone TpNoRetrigger CounterInRange CounterStep OneCallPerEdge Dominance
PROPERTY Independence
CHECK_DEADLOCK FALSE
