SPECIFICATION Spec
CONSTANTS
  Res = {"r1", "r2"}
  MaxCycles = 2
  MaxCmds = 3
  Interval = 1
  SplitLock = FALSE
  MayFault = TRUE
INVARIANTS NoLostUpdate PairedEqual PausedMeansNoExec StopSavesOnce FaultIsolation
PROPERTIES StopTerminates
CHECK_DEADLOCK FALSE
