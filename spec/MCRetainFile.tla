------------------------------ MODULE MCRetainFile ------------------------------
(* Design-level check of save protocols against the crash-atomicity property (C10), with   *)
(* inodes, a volatile and a durable directory, short writes, process kill and power loss.  *)
(* Expected (and asserted by the driver):                                                  *)
(*   InPlace            open-truncate + write            violates AtomicKill                *)
(*   TempRename         tmp + write + fsync + rename + fsyncdir   satisfies both            *)
(*   TempRenameNoSync   tmp + write + rename             satisfies AtomicKill, violates     *)
(*                                                       AtomicPower                        *)
EXTENDS RetainFile
CONSTANTS Proto, OldLen, NewLen

Op(op, x, n) == [op |-> op, x |-> x, n |-> n]
Half == NewLen \div 2
Protocols ==
  [InPlace |-> << Op("opentrunc", "f", 0), Op("write", "f", Half), Op("write", "f", NewLen - Half), Op("close", "f", 0) >>,
   TempRename |-> << Op("opentrunc", "tmp", 0), Op("write", "tmp", Half), Op("write", "tmp", NewLen - Half), Op("fsync", "tmp", 0),
                     Op("close", "tmp", 0), Op("rename", "tmp", 0), Op("fsyncdir", "f", 0) >>,
   TempRenameNoSync |-> << Op("opentrunc", "tmp", 0), Op("write", "tmp", NewLen), Op("close", "tmp", 0), Op("rename", "tmp", 0) >>]
Prog == Protocols[Proto]

\* inode 1 = the file the target name refers to before the save (if any), inode 2 = created by the save
VARIABLES pc, vdir, ddir, vol, dur, state, result
vars == <<pc, vdir, ddir, vol, dur, state, result>>
Init == /\ pc = 1 /\ state = "running" /\ result = "none"
        /\ vdir = [f |-> IF OldLen = 0 THEN 0 ELSE 1, tmp |-> 0] /\ ddir = vdir
        /\ vol = [i \in {1, 2} |-> IF i = 1 /\ OldLen > 0 THEN Full("old", OldLen) ELSE Absent] /\ dur = vol

Exec(o) ==
  CASE o.op = "opentrunc" -> IF vdir[o.x] # 0
                             THEN vol' = [vol EXCEPT ![vdir[o.x]] = Empty] /\ UNCHANGED <<vdir, ddir, dur>>
                             ELSE vdir' = [vdir EXCEPT ![o.x] = 2] /\ vol' = [vol EXCEPT ![2] = Empty] /\ UNCHANGED <<ddir, dur>>
    [] o.op = "write"  -> vol' = [vol EXCEPT ![vdir[o.x]] = [src |-> "new", k |-> @.k + o.n]] /\ UNCHANGED <<vdir, ddir, dur>>
    [] o.op = "fsync"  -> dur' = [dur EXCEPT ![vdir[o.x]] = vol[vdir[o.x]]] /\ UNCHANGED <<vdir, ddir, vol>>
    [] o.op = "rename" -> vdir' = [f |-> vdir.tmp, tmp |-> 0] /\ UNCHANGED <<ddir, vol, dur>>
    [] o.op = "fsyncdir" -> ddir' = vdir /\ UNCHANGED <<vdir, vol, dur>>
    [] OTHER -> UNCHANGED <<vdir, ddir, vol, dur>>
Step == state = "running" /\ pc <= Len(Prog) /\ Exec(Prog[pc]) /\ pc' = pc + 1 /\ UNCHANGED <<state, result>>
Content(dir, cont) == IF dir.f = 0 THEN Absent ELSE cont[dir.f]
\* process kill before step pc, or inside it after p bytes of a write
Kill == /\ state = "running" /\ pc <= Len(Prog)
        /\ \E p \in 0..(IF Prog[pc].op = "write" THEN Prog[pc].n ELSE 0) :
             LET v2 == IF p > 0 THEN [vol EXCEPT ![vdir[Prog[pc].x]] = [src |-> "new", k |-> @.k + p]] ELSE vol
             IN result' = Load(Content(vdir, v2), OldLen, NewLen) /\ vol' = v2
        /\ state' = "killed" /\ UNCHANGED <<pc, vdir, ddir, dur>>
\* power loss: directory entries and file data not made durable may or may not have reached the disk
PowerLoss == /\ state = "running"
             /\ \E dir \in {ddir, vdir} :
                  \E c \in (IF dir.f = 0 THEN {Absent}
                            ELSE {dur[dir.f]} \cup {[src |-> vol[dir.f].src, k |-> j] :
                                    j \in (IF dur[dir.f].src = vol[dir.f].src THEN dur[dir.f].k ELSE 0)..vol[dir.f].k}) :
                    result' = Load(c, OldLen, NewLen)
             /\ state' = "lost" /\ UNCHANGED <<pc, vdir, ddir, vol, dur>>
Done == state = "running" /\ pc > Len(Prog) /\ state' = "done" /\ result' = Load(Content(vdir, vol), OldLen, NewLen)
        /\ UNCHANGED <<pc, vdir, ddir, vol, dur>>
Next == Step \/ Kill \/ PowerLoss \/ Done
Spec == Init /\ [][Next]_vars

AtomicKill == state = "killed" => Atomic(result)
AtomicPower == state = "lost" => Atomic(result)
SaveTakesEffect == state = "done" => result = "new"
=================================================================================
