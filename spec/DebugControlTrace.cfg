SPECIFICATION TSpec
CONSTANTS
  Threads = {1, 2, 3, 4}
  MaxCmds = 1000000
CONSTRAINT HighWater
INVARIANT StepInvariants
POSTCONDITION Post
CHECK_DEADLOCK FALSE
