SPECIFICATION TSpec
CONSTANTS
  Threads = {1, 2}
  Dev = {"gateAnyOrder"}
  Lenient = FALSE
CONSTRAINT HighWater
POSTCONDITION Post
CHECK_DEADLOCK FALSE
