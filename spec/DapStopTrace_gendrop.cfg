SPECIFICATION TSpec
CONSTANTS
  Threads = {1, 2}
  Dev = {"gateAnyOrder", "cycleUnobserved"}
  LenientGenDrop = TRUE
  LenientOrder = FALSE
CONSTRAINT HighWater
POSTCONDITION Post
CHECK_DEADLOCK FALSE
