SPECIFICATION SpecFb
CONSTANTS
  MaxSteps = 9
  MaxCycles = 5
  ExportScripts = FALSE
  EnableFaults = FALSE
  EnableRestart = FALSE
  EnableDebugWrites = FALSE
  SrcVals = {0}
  Dts = {1, 2, 3, 5}
  CfgSel = "fb1"
VIEW View
CHECK_DEADLOCK FALSE
INVARIANTS
  AtMostOncePerCycle
  OrderIsSorted
  BackgroundAfterTasks
  ExecutedIsDueSet
  BackgroundAlways
  OverrunsMonotone
  NoReplay
  ItemsBelongToActivations
  ActivationsAreBlocks
  FbOncePerActivation
  ProgramOncePerActivation
  FbStatePersists
