SPECIFICATION Spec
CONSTANTS
  CodeTTL = 1
  TokenTTL = 2
  MaxTokens = 2
  Variant = "code"
  T0 = 1
  SeedMode = "plain"
  MaxNow = 6
  MaxCodes = 3
  MaxIssued = 3
  ReqRoles <- ReqRolesSmall
  Kinds = {"status"}
  RealTime = FALSE
  MaxSteps = 0
  ExportScripts = FALSE
VIEW View
CHECK_DEADLOCK FALSE
INVARIANTS
  ValidatesIff
  UnknownNeverValidates
  IssuedRoleNeverAdmin
  CodeYieldsAtMostOneToken
  DiskAgreesUpToPruning
  ReloadKeepsValidity
  EnabledCapRespected
  PendingIsNewestCode
  ReqOnlyWithLiveToken
  ValidateAnswersValid
  WrongCodeChangesNothing
PROPERTIES
  NoResurrection
  RoleNeverChanges
  OnlyClaimIssues
  OnlyClockOrRevocationEnds
