-------------------------------- MODULE Pairing --------------------------------
(* The pairing-token lifecycle behind "a valid ... pairing token" of property C18:          *)
(* crates/trust-runtime/src/web/pairing.rs (`PairingStore`), reached through the control    *)
(* requests pair.start / pair.claim / pair.list / pair.revoke (control.rs, handle_pair_..) *)
(* and consulted by resolve_request_role for every request that carries an `auth` string    *)
(* other than the configured auth token.                                                    *)
(*                                                                                          *)
(* The store is a small state machine with TIME in it: a pending code with a time to live,  *)
(* tokens with a role, an enabled flag and an expiry, a cap on enabled tokens, a JSON file   *)
(* that mirrors the token list, and a reload that forgets the pending code.  Every public   *)
(* operation is written as a FUNCTION of the store record (`...F`), exactly as the code      *)
(* behaves -- which paths prune expired tokens, which paths save to disk, where the pending  *)
(* code is consumed -- so that the design module (one action per operation, below) and the   *)
(* trace specification (PairingTrace, which composes several operations per recorded event)  *)
(* share one definition.  The PROPERTIES are stated against history variables that know      *)
(* nothing of that mechanism: which claims succeeded, what was revoked since, and the clock. *)
EXTENDS Integers, Sequences, FiniteSets, TLC

CONSTANTS CodeTTL,      \* life time of a pairing code          (code: 300 s)
          TokenTTL,     \* life time of a pairing token         (code: 2 592 000 s = 30 days)
          MaxTokens,    \* cap on ENABLED tokens                (code: 256)
          Variant       \* "code" = the store as written; anything else = a deliberately broken store
                        \* (used only by the model instances that must FAIL)

Viewer == 0
Operator == 1
Engineer == 2
Admin == 3
NoRole == -1            \* validate: no role / claim: no role requested

\* ------------------------------------------------------------------------ the store
\* token   = [id, tok, role, enabled, exp, created]
\*           id       the number N of the identifier "pair-N": the clock at the claim, so two
\*                    claims in the same second SHARE an id
\*           tok      abstract name of the secret: the k-th token that ever existed in this run
\*           exp      last second at which the token still validates (0 in a file = legacy entry
\*                    without expiry, see Normalize)
\* pending = [code, exp]; code 0 = none; code k = the k-th code handed out in this run
\* disk    = the token list as last saved to the JSON file
VARIABLES now, tokens, pending, disk, ncode, ntok
svars == <<now, tokens, pending, disk, ncode, ntok>>
S == [now |-> now, tokens |-> tokens, pending |-> pending, disk |-> disk, ncode |-> ncode, ntok |-> ntok]
NoPending == [code |-> 0, exp |-> 0]

\* prune_expired_tokens: a token is kept while exp >= now, i.e. it still validates AT the second
\* it "expires at" and is gone one second later
Prune(ts, t) == SelectSeq(ts, LAMBDA e : e.exp >= t)
\* normalize_loaded_tokens: an entry without expiry gets created + TokenTTL, or -- when that
\* instant has passed -- one more second from the moment of loading
NormTok(e, t) == IF e.exp # 0 THEN e
                 ELSE [e EXCEPT !.exp = IF e.created + TokenTTL <= t THEN t + 1 ELSE e.created + TokenTTL]
Normalize(ts, t) == [i \in DOMAIN ts |-> NormTok(ts[i], t)]
EnabledCount(ts) == Cardinality({i \in DOMAIN ts : ts[i].enabled})
Matches(e, k) == e.tok = k /\ (e.enabled \/ Variant = "ignore-enabled")
\* role of the first enabled entry that carries secret k (secrets are unique; k = 0 is a string
\* that is no token)
RoleIn(ts, k) ==
  LET hits == {i \in DOMAIN ts : Matches(ts[i], k)} IN
  IF hits = {} THEN NoRole ELSE ts[CHOOSE i \in hits : \A j \in hits : i <= j].role
\* sanitize_requested_role: no request = operator, admin is capped to engineer
Sanitize(rr) == IF rr = NoRole THEN Operator
                ELSE IF rr = Admin /\ Variant # "no-role-cap" THEN Engineer ELSE rr

\* the two ways an operation starts: prune and save if something was pruned / prune in memory only
PruneSave(s) == LET p == Prune(s.tokens, s.now) IN
                [s EXCEPT !.tokens = p, !.disk = IF Len(p) # Len(s.tokens) THEN p ELSE s.disk]
PruneOnly(s) == [s EXCEPT !.tokens = Prune(s.tokens, s.now)]

\* every ...F returns [s |-> the store afterwards, r |-> the operation's result]
\* start_pairing: prune (+save), a new code replaces whatever was pending
StartF(s) ==
  LET s1 == PruneSave(s)
      c == s.ncode + 1
      e == s.now + CodeTTL
  IN [s |-> [s1 EXCEPT !.pending = [code |-> c, exp |-> e], !.ncode = c], r |-> [code |-> c, exp |-> e]]
\* claim(code, requested role): prune WITHOUT saving; pending.take(); the code is consumed when it
\* has expired, when the cap on enabled tokens is reached, and when a token is issued; a wrong
\* code puts it back.  The code is still good AT its expiry second (pending.exp < now refuses).
ClaimF(s, c, rr) ==
  LET s1 == PruneOnly(s) IN
  IF s1.pending.code = 0 THEN [s |-> s1, r |-> [tok |-> 0, why |-> "nopending"]]
  ELSE IF s1.pending.exp < s1.now /\ Variant # "expired-code-accepted"
       THEN [s |-> [s1 EXCEPT !.pending = NoPending], r |-> [tok |-> 0, why |-> "expired"]]
  ELSE IF s1.pending.code # c THEN [s |-> s1, r |-> [tok |-> 0, why |-> "wrong"]]
  ELSE IF EnabledCount(s1.tokens) >= MaxTokens
       THEN [s |-> [s1 EXCEPT !.pending = NoPending], r |-> [tok |-> 0, why |-> "cap"]]
  ELSE LET k == s.ntok + 1
           t == [id |-> s.now, tok |-> k, role |-> Sanitize(rr), enabled |-> TRUE,
                 exp |-> s.now + TokenTTL, created |-> s.now]
           ts == Append(s1.tokens, t)
       IN [s |-> [s1 EXCEPT !.tokens = ts, !.disk = ts, !.ntok = k,
                            !.pending = IF Variant = "code-reusable" THEN s1.pending ELSE NoPending],
           r |-> [tok |-> k, why |-> "ok"]]
\* validate_with_role(secret k): prune (+save), first enabled entry with that secret
ValidateF(s, k) == LET s1 == PruneSave(s) IN [s |-> s1, r |-> [role |-> RoleIn(s1.tokens, k)]]
\* list: prune (+save), every entry (disabled ones included)
ListF(s) == LET s1 == PruneSave(s) IN [s |-> s1, r |-> [items |-> s1.tokens]]
\* revoke(id): prune without saving; EVERY entry with that id is disabled (an already disabled one
\* counts as a hit); saved only on a hit
RevokeF(s, id) ==
  LET s1 == PruneOnly(s)
      hit == \E i \in DOMAIN s1.tokens : s1.tokens[i].id = id
      ts == [i \in DOMAIN s1.tokens |-> IF s1.tokens[i].id = id THEN [s1.tokens[i] EXCEPT !.enabled = FALSE] ELSE s1.tokens[i]]
  IN [s |-> IF hit THEN [s1 EXCEPT !.tokens = ts, !.disk = IF Variant = "revoke-not-saved" THEN s1.disk ELSE ts] ELSE s1,
      r |-> [ok |-> hit]]
\* revoke_all: prune without saving; disables every enabled entry, saved when there was one
RevokeAllF(s) ==
  LET s1 == PruneOnly(s)
      n == EnabledCount(s1.tokens)
      ts == [i \in DOMAIN s1.tokens |-> [s1.tokens[i] EXCEPT !.enabled = FALSE]]
  IN [s |-> IF n > 0 THEN [s1 EXCEPT !.tokens = ts, !.disk = ts] ELSE s1, r |-> [n |-> n]]
TickF(s, d) == [s |-> [s EXCEPT !.now = s.now + d], r |-> [d |-> d]]
\* a new process: PairingStore::with_clock reads the file, normalises, forgets the pending code;
\* nothing is pruned and nothing is written at that point
ReloadF(s) == [s |-> [s EXCEPT !.tokens = Normalize(s.disk, s.now), !.pending = NoPending], r |-> [ok |-> TRUE]]

\* ------------------------------------------------------------------------ the endpoint's use of it
\* resolve_request_role (with an auth token configured): the configured token is admin, no auth
\* string is nobody, any other string is whatever validate_with_role says (a store operation with
\* the side effects of ValidateF).  cred = [kind |-> "admin" | "none" | "pair", k |-> secret]
AuthF(s, cred) ==
  CASE cred.kind = "admin" -> [s |-> s, role |-> Admin]
    [] cred.kind = "none" -> [s |-> s, role |-> NoRole]
    [] OTHER -> LET v == ValidateF(s, cred.k) IN [s |-> v.s, role |-> v.r.role]
\* required roles of the request kinds the pairing scripts use (required_role_for_control_request)
ReqKinds == {"status", "restart", "io.unforce", "pair.claim", "pair.start", "pair.list", "pair.revoke"}
ReqRole(kind) == CASE kind = "status" -> Viewer
                   [] kind \in {"restart", "pair.claim"} -> Operator
                   [] kind = "io.unforce" -> Engineer
                   [] OTHER -> Admin
Gate(role, kind) == IF role = NoRole THEN "unauthorized"
                    ELSE IF role < ReqRole(kind) THEN "forbidden" ELSE "dispatched"

\* ------------------------------------------------------------------------ design module
\* history (knows nothing of pruning, saving, enabled flags):
\*   codes[c]  = [at, exp]                             when code c was handed out
\*   issued[k] = [role, id, at, exp, code, last, src]  token k: src "claim" (code = the code that yielded
\*               it, last = the newest code at that moment) or "seed" (found in the file at start)
\*   revoked   = secrets revoked since (by id or by revoke_all)
VARIABLES codes, issued, revoked
hvars == <<codes, issued, revoked>>
vars == <<svars, hvars>>

SetStore(s) == /\ now' = s.now /\ tokens' = s.tokens /\ pending' = s.pending /\ disk' = s.disk
               /\ ncode' = s.ncode /\ ntok' = s.ntok

InitWith(t0, seed) ==
  /\ now = t0 /\ disk = seed /\ tokens = Normalize(seed, t0) /\ pending = NoPending
  /\ ncode = 0 /\ ntok = Len(seed) /\ codes = <<>>
  /\ issued = [k \in DOMAIN seed |-> [role |-> seed[k].role, id |-> seed[k].id, at |-> seed[k].created,
                                      exp |-> NormTok(seed[k], t0).exp, code |-> 0, last |-> 0, src |-> "seed"]]
  /\ revoked = {k \in DOMAIN seed : ~seed[k].enabled}

Start ==
  LET o == StartF(S) IN
  /\ SetStore(o.s) /\ codes' = Append(codes, [at |-> now, exp |-> o.r.exp]) /\ UNCHANGED <<issued, revoked>>
Claim(c, rr) ==
  LET o == ClaimF(S, c, rr) IN
  /\ SetStore(o.s)
  /\ issued' = IF o.r.tok = 0 THEN issued
               ELSE Append(issued, [role |-> o.s.tokens[Len(o.s.tokens)].role, id |-> now, at |-> now, exp |-> now + TokenTTL,
                                    code |-> c, last |-> ncode, src |-> "claim"])
  /\ UNCHANGED <<codes, revoked>>
Validate(k) == SetStore(ValidateF(S, k).s) /\ UNCHANGED hvars
List == SetStore(ListF(S).s) /\ UNCHANGED hvars
\* the history only says WHICH secrets a revocation names: those whose id it is, at that moment
Revoke(id) ==
  /\ SetStore(RevokeF(S, id).s)
  /\ revoked' = revoked \cup {k \in DOMAIN issued : issued[k].id = id}
  /\ UNCHANGED <<codes, issued>>
RevokeAll == SetStore(RevokeAllF(S).s) /\ revoked' = DOMAIN issued /\ UNCHANGED <<codes, issued>>
Tick(d) == SetStore(TickF(S, d).s) /\ UNCHANGED hvars
Reload == SetStore(ReloadF(S).s) /\ UNCHANGED hvars
\* a control request of kind `kind` carrying secret k as `auth`: authentication is a store operation
Req(k, kind) == SetStore(AuthF(S, [kind |-> "pair", k |-> k]).s) /\ UNCHANGED hvars

\* ------------------------------------------------------------------------ properties
\* what validate_with_role(secret k) would answer in this state
Valid(k) == RoleIn(Prune(tokens, now), k)
Secrets == 1..ntok
\* a token validates iff it was issued, has not been revoked since, and now <= its expiry
\* (the boundary second itself still validates: that is what the code does)
Live(k) == k \in DOMAIN issued /\ k \notin revoked /\ now <= issued[k].exp
ValidatesIff == \A k \in Secrets : Valid(k) = IF Live(k) THEN issued[k].role ELSE NoRole
UnknownNeverValidates == Valid(0) = NoRole
\* the operation agrees with the state function (validate has no say of its own)
ValidateAnswersValid == \A k \in 0..ntok : ValidateF(S, k).r.role = Valid(k)
\* pairing never hands out admin
ClaimedTokens == {k \in DOMAIN issued : issued[k].src = "claim"}
IssuedRoleNeverAdmin == \A k \in ClaimedTokens : issued[k].role \in {Viewer, Operator, Engineer}
\* a code yields at most one token, only within its life time, and only while it is the newest code
CodeYieldsAtMostOneToken ==
  /\ \A k1, k2 \in ClaimedTokens : k1 # k2 => issued[k1].code # issued[k2].code
  /\ \A k \in ClaimedTokens : /\ issued[k].code \in DOMAIN codes
                              /\ codes[issued[k].code].at <= issued[k].at
                              /\ issued[k].at <= codes[issued[k].code].exp
                              /\ issued[k].code = issued[k].last
\* the file and the memory agree up to pruning, hence a restart changes nothing that validates
DiskAgreesUpToPruning == Prune(Normalize(disk, now), now) = Prune(tokens, now)
ReloadKeepsValidity == \A k \in 0..ntok : RoleIn(Prune(ReloadF(S).s.tokens, now), k) = Valid(k)
EnabledCapRespected == EnabledCount(tokens) <= MaxTokens
PendingIsNewestCode == pending.code # 0 => pending.code = ncode /\ pending.exp = codes[ncode].exp
\* a wrong code changes nothing: the pending code stays, nothing is written, nothing (in)validates
WrongCodeChangesNothing ==
  \A c \in 0..ncode, rr \in {NoRole, Viewer, Operator, Engineer, Admin} :
    LET o == ClaimF(S, c, rr) IN
    (pending.code # 0 /\ now <= pending.exp /\ c # pending.code) =>
       /\ o.r.tok = 0 /\ o.s.pending = pending /\ o.s.disk = disk /\ o.s.ntok = ntok
       /\ \A k \in 0..ntok : RoleIn(Prune(o.s.tokens, now), k) = Valid(k)
\* a request carrying secret k is dispatched exactly for a live token of sufficient role (history)
ReqOnlyWithLiveToken ==
  \A k \in 0..ntok, kind \in ReqKinds :
    (Gate(AuthF(S, [kind |-> "pair", k |-> k]).role, kind) = "dispatched") <=> (Live(k) /\ issued[k].role >= ReqRole(kind))
\* action properties
\* what stopped validating never validates again, and a token never changes its role
NoResurrection == [][\A k \in 0..ntok : Valid(k) = NoRole => Valid(k)' = NoRole]_vars
RoleNeverChanges == [][\A k \in 0..ntok : Valid(k) # NoRole /\ Valid(k)' # NoRole => Valid(k)' = Valid(k)]_vars
\* a token appears only by consuming a pending code that has not expired
OnlyClaimIssues == [][ntok' # ntok => /\ ntok' = ntok + 1 /\ pending.code # 0 /\ now <= pending.exp
                                      /\ pending' = NoPending /\ now' = now]_vars
\* only the clock and a revocation end a token's validity
OnlyClockOrRevocationEnds == [][\A k \in 0..ntok : Valid(k) # NoRole /\ Valid(k)' = NoRole => now' > now \/ revoked' # revoked]_vars
=================================================================================
