SPECIFICATION Spec
CONSTANTS
  Res = {"r1", "r2"}
  MaxCycles = 2
  MaxCmds = 0
  Interval = 1
  SplitLock = TRUE
  MayFault = TRUE
INVARIANTS NoLostUpdate PairedEqual PausedMeansNoExec StopSavesOnce FaultIsolation

CHECK_DEADLOCK FALSE
