--------------------------- MODULE StbcContainerTrace ---------------------------
(* Trace validation of recorded executions of the real STBC encoder / decoder / validator / *)
(* metadata / apply code against StbcContainer.  One TLC pass walks the whole ndjson file:   *)
(* every phase event must be a step of the corresponding StbcContainer action, i.e. its     *)
(* recorded result must be one of the outcomes the specification allows in that state.  A    *)
(* panic, abort or hang is in no set of allowed outcomes.  A mismatch puts the run into      *)
(* `bad` and the rest of that run is skipped up to the next Reset.                           *)
(*                                                                                           *)
(* Runs:  kind "frame"  : Layout, Decode             (a layout of raw sections only)         *)
(*        kind "life"   : Emit, [RoundTrip | Mutate], Decode, [Validate, Metadata, Apply]    *)
(*        kind "dropped": the generated program was not accepted by the compiler; no events  *)
EXTENDS StbcContainer, Json, IOUtils
Rec == ndJsonDeserialize(IOEnv.TRACE)
VARIABLES l, run, bad, skip, kind, mutinfo, nframe, nlife, nfree
tvars == <<l, run, bad, skip, kind, mutinfo, nframe, nlife, nfree, svars>>
E == Rec[l]
More == l <= Len(Rec)
Has(r, f) == f \in DOMAIN r

NoInfo == [sec |-> "", cls |-> "", vc |-> "", leaf |-> ""]
Fresh == /\ pc' = "start" /\ c' = [frame |-> EncodeFrame(<<>>), mut |-> NoMut, img |-> 0] /\ out' = NoOut /\ mem' = 0
Load(r) == /\ kind' = r.kind /\ skip' = (r.kind = "dropped") /\ mutinfo' = NoInfo /\ Fresh
           /\ nframe' = nframe + (IF r.kind = "frame" THEN 1 ELSE 0) /\ nlife' = nlife + (IF r.kind = "life" THEN 1 ELSE 0)
Init == /\ l = 2 /\ run = 1 /\ bad = <<>> /\ Rec[1].a = "Reset" /\ kind = Rec[1].kind /\ skip = (Rec[1].kind = "dropped")
        /\ mutinfo = NoInfo /\ nfree = 0
        /\ nframe = (IF Rec[1].kind = "frame" THEN 1 ELSE 0) /\ nlife = (IF Rec[1].kind = "life" THEN 1 ELSE 0)
        /\ pc = "start" /\ c = [frame |-> EncodeFrame(<<>>), mut |-> NoMut, img |-> 0] /\ out = NoOut /\ mem = 0
\* every run ends in pc = "done" (each phase that was started has its event): a run cut short
\* means harness and specification are out of step (reported as a tool error by the driver)
Complete == skip \/ pc = "done" \/ kind = "dropped"
Incomplete == [run |-> run, line |-> l, phase |-> "Reset", why |-> "incomplete-run", res |-> "", class |-> "",
               sec |-> "", cls |-> "", vc |-> "", leaf |-> "", kind |-> kind]
Reset == /\ E.a = "Reset" /\ Load(E) /\ l' = l + 1 /\ run' = run + 1 /\ UNCHANGED nfree
         /\ bad' = IF Complete THEN bad ELSE Append(bad, Incomplete)
Skip  == /\ skip /\ E.a # "Reset" /\ l' = l + 1 /\ UNCHANGED <<run, bad, skip, kind, mutinfo, nframe, nlife, nfree, svars>>

\* a rejected event: the run is marked and skipped; the design variables are no longer tracked
Mark(phase, why) ==
  /\ bad' = Append(bad, [run |-> run, line |-> l, phase |-> phase, why |-> why, res |-> (IF Has(E, "res") THEN E.res ELSE ""),
                         class |-> (IF Has(E, "class") THEN E.class ELSE ""), sec |-> mutinfo.sec, cls |-> mutinfo.cls,
                         vc |-> mutinfo.vc, leaf |-> mutinfo.leaf, kind |-> kind])
  /\ skip' = TRUE /\ UNCHANGED svars
Keep == bad' = bad /\ skip' = FALSE
Step == ~skip /\ l' = l + 1 /\ UNCHANGED <<run, kind, nframe, nlife>>
\* the recorded result as the specification's outcome (an allocation failure is told apart
\* from other aborts because Apply may hit the address-space limit on a declared image)
ResOf(e) == IF e.res = "abort" /\ Has(e, "class") /\ e.class = "alloc" THEN "abort-alloc" ELSE e.res

\* ---- frame family: Layout = the bytes handed to Decode
Layout == /\ Step /\ E.a = "Layout" /\ kind = "frame" /\ pc = "start" /\ UNCHANGED <<mutinfo, nfree>>
          /\ IF Has(E.frame, "selfcheck") THEN Mark("Layout", "harness-selfcheck")
             ELSE /\ Keep /\ pc' = "mutated" /\ out' = out /\ mem' = mem
                  /\ c' = [frame |-> E.frame, mut |-> [kind |-> "layout", cls |-> "", newc |-> 0, rem |-> 0, single |-> FALSE], img |-> 0]
SectionsMatch == /\ E.payloadSame /\ Len(E.secs) = Len(c.frame.table)
                 /\ \A i \in DOMAIN c.frame.table : E.secs[i].id = c.frame.table[i].id /\ E.secs[i].length = c.frame.table[i].length
DecodeFrame ==
  /\ Step /\ E.a = "Decode" /\ kind = "frame" /\ pc = "mutated" /\ UNCHANGED mutinfo
  /\ nfree' = nfree + (IF Verdict(c.frame) = "free" THEN 1 ELSE 0)
  /\ LET r == ResOf(E) IN
     IF r \notin FrameDecodeAllowed(c.frame)
     THEN Mark("Decode", IF r = "ok" THEN "accepts:" \o FirstViolation(c.frame)
                         ELSE IF r = "err" THEN "rejects-valid-layout" ELSE r)
     ELSE IF r = "ok" /\ ~SectionsMatch THEN Mark("Decode", "sections-differ-from-table")
     ELSE Keep /\ out' = [out EXCEPT !.decode = r] /\ pc' = "done" /\ UNCHANGED <<c, mem>>

\* ---- life family
EmitEv == /\ Step /\ E.a = "Emit" /\ kind = "life" /\ pc = "start" /\ UNCHANGED <<mutinfo, nfree>>
          /\ IF ENABLED Emit(E.frame) THEN Keep /\ Emit(E.frame)
             ELSE Mark("Emit", "framing:" \o FirstViolation(E.frame))
RoundTrip == /\ Step /\ E.a = "RoundTrip" /\ kind = "life" /\ pc = "emitted" /\ UNCHANGED <<mutinfo, nfree>>
             /\ IF E.res # "ok" THEN Mark("RoundTrip", E.res)
                ELSE IF ~E.encSame THEN Mark("RoundTrip", "encode(decode(e))#e")
                ELSE IF ~E.decSame \/ ~E.modSame THEN Mark("RoundTrip", "decode(encode(m))#m")
                ELSE Keep /\ UNCHANGED svars
MutateEv == /\ Step /\ E.a = "Mutate" /\ kind = "life" /\ UNCHANGED nfree
            /\ mutinfo' = [sec |-> E.sec, cls |-> E.cls, vc |-> E.vc, leaf |-> E.leaf]
            /\ LET m == [kind |-> E.kind, cls |-> E.cls, newc |-> E.newc, rem |-> E.rem, single |-> E.single] IN
               IF ENABLED Mutate(m, E.frame) THEN Keep /\ Mutate(m, E.frame) ELSE Mark("Mutate", "out-of-order")
DecodeLife ==
  /\ Step /\ E.a = "Decode" /\ kind = "life" /\ UNCHANGED <<mutinfo, nfree>>
  /\ LET r == ResOf(E) IN
     IF ENABLED Decode(r) THEN Keep /\ Decode(r)
     ELSE Mark("Decode", IF r = "ok" THEN (IF Verdict(c.frame) = "reject" THEN "accepts:" \o FirstViolation(c.frame)
                                           ELSE "accepts:array-count-beyond-section")
                         ELSE IF r = "err" THEN "rejects-emitted-container" ELSE r)
ValidateEv ==
  /\ Step /\ E.a = "Validate" /\ kind = "life" /\ UNCHANGED <<mutinfo, nfree>>
  /\ LET r == ResOf(E) IN
     IF ENABLED Validate(r) THEN Keep /\ Validate(r)
     ELSE Mark("Validate", IF r = "err" THEN "rejects-emitted-container" ELSE r)
MetadataEv ==
  /\ Step /\ E.a = "Metadata" /\ kind = "life" /\ UNCHANGED <<mutinfo, nfree>>
  /\ LET r == ResOf(E) IN
     IF ENABLED Metadata(r, E.img) THEN Keep /\ Metadata(r, E.img) ELSE Mark("Metadata", r)
ApplyEv ==
  /\ Step /\ E.a = "Apply" /\ kind = "life" /\ UNCHANGED mutinfo
  /\ nfree' = nfree + (IF c.img >= ImgBound THEN 1 ELSE 0)
  /\ LET r == ResOf(E) IN
     IF ENABLED Apply(r) THEN Keep /\ Apply(r) ELSE Mark("Apply", r)

Next == More /\ (Reset \/ Skip \/ Layout \/ DecodeFrame \/ EmitEv \/ RoundTrip \/ MutateEv \/ DecodeLife
                 \/ ValidateEv \/ MetadataEv \/ ApplyEv)
Spec == Init /\ [][Next]_tvars
\* verdict, written once the last line has been consumed
Done == l = Len(Rec) + 1 =>
          JsonSerialize(IOEnv.OUT, [runs |-> run, events |-> Len(Rec), frames |-> nframe, lives |-> nlife,
                                    undecided |-> nfree, complete |-> Complete, bad |-> bad])
=================================================================================
