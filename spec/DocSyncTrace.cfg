SPECIFICATION Spec
CONSTANTS
  ServerUnit = "utf16"
INVARIANT Done
CHECK_DEADLOCK FALSE
