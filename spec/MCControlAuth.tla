----------------------------- MODULE MCControlAuth -----------------------------
(* Design-level model checking of ControlAuth: EVERY admissible role table over the given  *)
(* kinds (required role x mutating x debug class, restricted only by TableOK), every       *)
(* endpoint configuration (token set / unset, debug on / off), every credential (none,     *)
(* wrong, the admin token, a pairing token of each role that is valid, expired or revoked) *)
(* and every well-formedness class, request after request through the phase actions.       *)
(* The invariants are the clauses of property C18 written against the last reply `out`    *)
(* and the effect history `eff`; they are NOT the definition of Gate re-stated.            *)
(* The same module exports behaviours as scripts for the real endpoint (Export).           *)
EXTENDS ControlAuth, Json

CONSTANTS KindNames,      \* request kinds of the model
          TypeNames,      \* request type names a kind may carry
          ReqRoles,       \* required roles a table may use
          OneTable,       \* TRUE: a single (permissive) table instead of all of them (script export)
          WFs,            \* well-formedness classes of the request lines
          StaleRoles,     \* roles of the expired / revoked pairing tokens
          MaxReq,         \* requests per behaviour
          ExportScripts

VARIABLES hist, nreq     \* hist: requests so far (observation only; hidden from the fingerprint by View)
mvars == <<cfg, pc, cur, eff, out, hist, nreq>>
View == <<cfg, pc, cur, eff, out, nreq>>

\* "wrong" credentials differ in what they share with a real token (nothing, the empty string, a
\* proper prefix of the auth token, the auth token with something appended, its upper-case form, a
\* prefix / an extension of a valid admin pairing token): for the property they are all the same
\* thing -- a string that is no token -- and the replay sends every one of them
WrongShapes == {"", "empty", "prefix", "ext", "case", "pprefix", "pext"}
Creds == {[kind |-> "none", role |-> NoRole, st |-> ""], [kind |-> "admin", role |-> Admin, st |-> ""]}
         \cup {[kind |-> "wrong", role |-> NoRole, st |-> w] : w \in WrongShapes}
         \cup {[kind |-> "pair", role |-> r, st |-> "valid"] : r \in Roles}
         \cup {[kind |-> "pair", role |-> r, st |-> st] : r \in StaleRoles, st \in {"expired", "revoked"}}

Rows == [t : TypeNames, req : ReqRoles, mut : BOOLEAN]
Tables == IF OneTable THEN {[k \in KindNames |-> [t |-> k, req |-> Viewer, mut |-> FALSE]]}
          ELSE {tbl \in [KindNames -> Rows] : TableOK(tbl)}

Init == /\ cfg \in [token : BOOLEAN, debug : BOOLEAN, tbl : Tables]
        /\ pc = "idle" /\ cur = Idle /\ eff = {} /\ out = NoReply /\ hist = <<>> /\ nreq = 0
DoReceive == \E k \in KindNames, c \in Creds, wf \in WFs :
               /\ nreq < MaxReq /\ Receive(k, c, wf) /\ nreq' = nreq + 1
               /\ hist' = Append(hist, [t |-> TypeOf(k), cred |-> c, wf |-> wf])
DoParse == Parse /\ UNCHANGED <<hist, nreq>>
DoAuthenticate == Authenticate /\ UNCHANGED <<hist, nreq>>
DoAuthorise == Authorise /\ UNCHANGED <<hist, nreq>>
DoDebugGate == DebugGate /\ UNCHANGED <<hist, nreq>>
DoDispatch == Dispatch /\ UNCHANGED <<hist, nreq>>
Next == DoReceive \/ DoParse \/ DoAuthenticate \/ DoAuthorise \/ DoDebugGate \/ DoDispatch
Spec == Init /\ [][Next]_mvars

\* ------------------------------------------------------------------ C18
Replied == pc = "idle" /\ out.outcome # "none"
Performed == out.outcome = "dispatched" \/ out.changed \/ out.data
\* performed only if the credential maps to a role at least as high as the required one
OnlyWithSufficientRole ==
  Replied /\ Performed => /\ out.role \in RolesOf(out.cred, cfg.token) /\ out.role # NoRole
                          /\ out.role >= Required(out.k)
\* with a token configured, a request without a valid token or pairing token changes nothing
\* and reveals nothing
UnauthenticatedIsInert ==
  Replied /\ cfg.token /\ Unauthenticated(out.cred, cfg.token) =>
     out.outcome \in {"unauthorized", "invalid"} /\ ~out.changed /\ ~out.data
\* every kind that can change state requires more than viewer, and no state ever changes
\* under the viewer role
MutatingNeedsMoreThanViewer ==
  /\ \A k \in Kinds : Mutating(k) => Required(k) > Viewer
  /\ (Replied /\ out.changed => out.role > Viewer)
  /\ \A e \in eff : e[2] > Viewer /\ e[2] >= Required(e[1])
\* debug-class requests are refused while debugging is disabled
DebugClassRefusedWhileDisabled ==
  /\ (Replied /\ DebugClass(TypeOf(out.k)) /\ ~cfg.debug => out.outcome \in Refusals /\ ~out.changed /\ ~out.data)
  /\ \A e \in eff : DebugClass(TypeOf(e[1])) => cfg.debug
\* a line that is no request yields an error reply and nothing else
MalformedIsAnErrorReply ==
  Replied /\ out.wf = "no" => out.outcome = "invalid" /\ ~out.changed /\ ~out.data
\* a refusal never has an effect and never carries data
RefusalsAreInert == Replied /\ out.outcome \in Refusals => ~out.changed /\ ~out.data
\* role order is monotone: whatever a role may do, every higher role may do
RoleOrderMonotone ==
  \A k \in Kinds : \A r1, r2 \in Roles : r1 <= r2 /\ Gate(k, r1) = "dispatched" => Gate(k, r2) = "dispatched"
\* the phase-wise pipeline and the function used for trace validation agree
PipelineIsOutcomes == Replied => out.outcome \in Outcomes(out.k, out.cred, out.wf)
\* every request is answered (no phase can get stuck): checked as absence of deadlock while
\* a request is in flight
AlwaysAnswered == pc # "idle" => ENABLED (Parse \/ Authenticate \/ Authorise \/ DebugGate \/ Dispatch)

\* ------------------------------------------------------------------ export (spec -> impl)
\* every complete behaviour of the bounded model becomes request scripts for tpv ctrlauth-run
CredLabel(c) == CASE c.kind = "none" -> "none" [] c.kind = "wrong" -> (IF c.st = "" THEN "wrong" ELSE "w-" \o c.st) [] c.kind = "admin" -> "admin"
                  [] c.kind = "pair" /\ c.st = "valid" -> (CASE c.role = Viewer -> "pv" [] c.role = Operator -> "po" [] c.role = Engineer -> "pe" [] OTHER -> "pa")
                  [] c.kind = "pair" /\ c.st = "expired" -> "xe"
                  [] OTHER -> "re"
Export == (ExportScripts /\ nreq = MaxReq /\ pc = "idle") =>
            PrintT(<<"SCRIPT", ToJson([cfg |-> [token |-> cfg.token, debug |-> cfg.debug],
                                       steps |-> [i \in DOMAIN hist |-> [t |-> hist[i].t, c |-> CredLabel(hist[i].cred), wf |-> hist[i].wf]]])>>)
=================================================================================
