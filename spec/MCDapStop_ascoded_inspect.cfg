SPECIFICATION Spec
CONSTANTS
  Threads = {1}
  Dev = {"inspectLocks"}
  CmdSet = {"continue", "pause", "setBps1", "stackTrace"}
  MaxReqs = 2
  MaxQueued = 1
  MaxStops = 2
INVARIANTS TypeOK
PROPERTIES EveryRequestAnswered
CHECK_DEADLOCK FALSE
