SPECIFICATION Spec
CONSTANTS
  WithPairs = TRUE
  WithTriples = FALSE
  MaxLines = 2
  WithRanges = TRUE
  Maxes = {0, 10}
  Ends = {"aligned"}
  BlindGlue = FALSE
  ByIndex = FALSE
  ExportScripts = FALSE
  RunModel = TRUE
  GenMaxLines = 0
CHECK_DEADLOCK FALSE
INVARIANTS
  TokensPreserved
  Idempotent
  EditsConfined
  OriginsInOrder
  KeptLinesVerbatim
  OutsideUntouched
