SPECIFICATION Spec
CONSTANTS
  Proto = "TempRename"
  OldLen = 5
  NewLen = 6
INVARIANTS AtomicKill AtomicPower SaveTakesEffect
CHECK_DEADLOCK FALSE
