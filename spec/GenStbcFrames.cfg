SPECIFICATION Spec
CONSTANTS
  Modes = {"frame"}
  ExportScripts = TRUE
VIEW View
CHECK_DEADLOCK FALSE
INVARIANTS
  Export
