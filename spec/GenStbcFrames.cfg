SPECIFICATION Spec
CONSTANTS
  Modes = {"frame"}
  MaxEntries = 3
  ExportScripts = TRUE
VIEW View
CHECK_DEADLOCK FALSE
INVARIANTS
  Export
