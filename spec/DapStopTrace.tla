----------------------------- MODULE DapStopTrace -----------------------------
(* Trace validation for C17 at the DAP adapter layer.  One recorded run = one request script  *)
(* executed by a client against the real DebugAdapter::run_stdio (child process, real runtime  *)
(* cycling a two-task program).  The events are, in ONE total order,                           *)
(*   - the adapter's transcript (ST_DEBUG_DAP_LOG) and the runtime's ST_DEBUG_TRACE lines,     *)
(*     both appended to the same O_APPEND file:                                                *)
(*       Read{seq,cmd,th,n}          request taken off stdin (main thread)                     *)
(*       Act{kind,th,outcome,mb,ma}  DebugControl::apply_action (under the DebugState mutex)   *)
(*       SetBps{gen,n} ClearBps      set_breakpoints_for_file / clear_breakpoints              *)
(*       Log{kind,seq,rseq}          message queued for stdout (response | stopped | terminated) *)
(*       RtStop{reason,th,gen,line}  the hook decided a stop and sent it into the channel      *)
(*       RtWake{mode} RtResume       the hook woke up / left its wait                          *)
(*       CRecv CEmit CDrop{why}      the StopCoordinator's own "[stop] action=" lines          *)
(*   - what the client did and saw, merged in at the earliest position that respects the       *)
(*     client's own order and causality (a message is received after it was logged):           *)
(*       Send{seq,cmd,th,n}  Recv{kind,...}  in wire order                                     *)
(*       Quiesce{view,shownTh,frameLine}  the harness established from positive signals that    *)
(*           nothing is in flight and the hook waits (every request answered, every stop       *)
(*           decided, every emitted event received) and asked stackTrace if it believes it is  *)
(*           stopped                                                                           *)
(*       Exit{code} | Wedge{what} | Panic{msg}                                                 *)
(* Not logged, hence silent steps TLC places: the pause handler's look at the mode, the stores *)
(* to pause_expected, the coordinator's pause_expected swap and generation comparison.  The    *)
(* stop gate leaves no trace at all: holding it shorter only enables more, so the most         *)
(* permissive placement (entered with the response's log line, left when it is written) makes  *)
(* it a no-op here; it is checked on the model only.                                           *)
(* Two findings on the pinned tree have a switch each; a run that is rejected strictly and     *)
(* accepted with exactly one switch on is an instance of exactly that finding:                 *)
(*   LenientGenDrop  accepts, at a Quiesce, the hook waiting in a Breakpoint stop that the      *)
(*                   coordinator dropped for a generation mismatch (nothing resumes, no event) *)
(*   LenientOrder    accepts a stopped event that precedes, on the wire, the response of the    *)
(*                   continue / step that resumed the runtime before that stop (the gate is    *)
(*                   entered after the resuming action)                                        *)
EXTENDS DapStop, Json, IOUtils
CONSTANTS LenientGenDrop, LenientOrder
Rec == ndJsonDeserialize(IOEnv.TRACE)
\* The recorded runs are independent: every run is an initial state of its own (it starts at its Reset event and
\* ends before the next one), and the furthest event some behaviour of run r consumed is kept in TLC register r
\* (needs -workers 1).  One pass therefore judges every run, however many of them are rejected.
Starts == SelectSeq([i \in 1..Len(Rec) |-> i], LAMBDA i : Rec[i].a = "Reset")
NRuns == Len(Starts)
VARIABLES l, run, curStop, genDropped
tvars == <<l, run, curStop, genDropped, vars>>
E == Rec[l]
More == l <= Len(Rec) /\ Rec[l].a # "Reset"
ASSUME \A r \in 1..NRuns : TLCSet(r, 0)

TInit == \E r \in 1..NRuns :
           /\ run = r /\ l = Starts[r] + 1 /\ curStop = NoStop /\ genDropped = 0
           /\ InitWith(Rec[Starts[r]].entry, Rec[Starts[r]].gen, Rec[Starts[r]].nbps)

Keep == UNCHANGED <<run, curStop, genDropped>>
Step1 == l' = l + 1
Silent == UNCHANGED l /\ Keep

\* ------------------------------------------------------------------ client
TSend == /\ E.a = "Send" /\ Step1 /\ Keep /\ E.seq = nreq + 1
         /\ Send(E.cmd, E.th, E.n)
TRecvResponse ==
  /\ E.a = "Recv" /\ E.kind = "response" /\ Step1 /\ Keep
  /\ mpc = "logged" /\ E.rseq = mreq.seq /\ E.cmd = mreq.cmd /\ E.ok
  /\ outstanding' = outstanding \ {E.rseq}
  /\ answered' = IF mreq.cmd \in Resume THEN answered + 1 ELSE answered
  /\ mpc' = (IF mreq.cmd = "disconnect" THEN "exit" ELSE "idle") /\ mreq' = NoReq
  /\ UNCHANGED <<rtvars, chan, cvars, PE, gate, mgate, inq, wire, nreq, view, shown, disc, acts, delivered, orderBad, resumeDue>>
TRecvStopped ==
  /\ E.a = "Recv" /\ E.kind = "stopped" /\ Step1 /\ Keep
  /\ cpc = "emitL" /\ E.reason = cstop.reason /\ E.th = cstop.th
  /\ delivered' = Append(delivered, cstop.id)
  /\ orderBad' = (orderBad \/ cstop.epoch > answered)
  /\ view' = (IF view = "gone" THEN view ELSE "stopped") /\ shown' = cstop.id
  /\ cpc' = "recv" /\ cstop' = NoStop
  /\ UNCHANGED <<rtvars, chan, PE, gate, mvars, inq, wire, nreq, outstanding, disc, acts, answered, resumeDue>>
TTerminated ==
  /\ E.a \in {"Log", "Recv"} /\ E.kind = "terminated" /\ Step1 /\ Keep
  /\ mreq.cmd = "disconnect" \/ mpc = "exit"
  /\ UNCHANGED vars

\* ------------------------------------------------------------------ main thread
TRead == /\ E.a = "Read" /\ Step1 /\ Keep /\ MRead
         /\ mreq'.seq = E.seq /\ mreq'.cmd = E.cmd
TPauseCheck == MPauseCheck /\ Silent
TSetPE == MSetPE /\ Silent
TInspect == (MInspect \/ MInspectLock) /\ Silent    \* whether a snapshot was there is not logged; blocking shows as a Wedge
ActKind(cmd) == CASE cmd \in {"continue", "disconnect"} -> "Continue" [] cmd = "pause" -> "Pause"
                  [] cmd = "next" -> "StepOver" [] cmd = "stepIn" -> "StepIn" [] cmd = "stepOut" -> "StepOut"
                  [] OTHER -> "none"
TAct ==
  /\ E.a = "Act" /\ Step1 /\ Keep /\ mode = E.mb
  /\ \/ /\ mpc = "act" /\ E.kind = ActKind(mreq.cmd)
        /\ E.th = (IF mreq.cmd \in Steps THEN mreq.th ELSE -1)     \* pause is always Pause(None); steps carry the thread
        /\ E.outcome = (IF mreq.cmd = "pause" /\ mode = "Paused" THEN "Ignored" ELSE "Applied")
        /\ MAct
     \/ \* the repaired coordinator: a void Breakpoint stop is dropped AND execution resumed (before or after the
        \* transcript line of the drop)
        /\ cpc \in {"dropGen", "dropGenL"} /\ E.kind = "Continue" /\ E.th = -1 /\ DoContinue
        /\ cpc' = (IF cpc = "dropGen" THEN "dropGenR" ELSE "recv") /\ resumeDue' = (IF rt = "wait" THEN TRUE ELSE resumeDue)
        /\ UNCHANGED <<bpGen, bpN, rt, stopId, inCycle, chan, cstop, PE, gate, mvars, inq, wire, clvars, acts, answered, delivered, orderBad>>
     \/ \* after disconnect: stop_runner() clears the breakpoints and continues once more
        /\ mpc = "exit" /\ E.kind = "Continue" /\ DoContinue
        /\ resumeDue' = (IF rt = "wait" THEN TRUE ELSE resumeDue)
        /\ UNCHANGED <<bpGen, bpN, rt, stopId, inCycle, chan, cvars, PE, gate, mvars, inq, wire, clvars, acts, answered, delivered, orderBad>>
  /\ mode' = E.ma
TSetBps ==
  /\ E.a = "SetBps" /\ Step1 /\ Keep
  /\ mpc = "act" /\ mreq.cmd = "setBreakpoints" /\ MAct /\ E.gen = bpGen' /\ E.n = mreq.n
TClearBps ==
  /\ E.a = "ClearBps" /\ Step1 /\ Keep /\ mpc = "exit"
  /\ bpGen' = 0 /\ bpN' = 0
  /\ UNCHANGED <<mode, pending, stepOn, rt, stopId, snap, inCycle, chan, cvars, PE, gate, mvars, inq, wire, clvars, acts, answered, delivered, orderBad, resumeDue>>
TLogResponse ==
  /\ E.a = "Log" /\ E.kind = "response" /\ Step1 /\ Keep
  /\ mpc \in {"resp", "respNG"} /\ E.rseq = mreq.seq /\ E.cmd = mreq.cmd
  /\ mpc' = "logged"
  /\ UNCHANGED <<rtvars, chan, cvars, PE, gate, mreq, mgate, inq, wire, clvars, acts, answered, delivered, orderBad, resumeDue>>

\* ------------------------------------------------------------------ cycle thread
TRtStop ==
  /\ E.a = "RtStop" /\ Step1 /\ UNCHANGED <<run, genDropped>>
  /\ RStop(E.reason, E.th, E.line)
  /\ E.gen = (IF E.reason = "Breakpoint" THEN bpGen ELSE -1)
  /\ curStop' = chan'[Len(chan')]
TRtWake == E.a = "RtWake" /\ Step1 /\ Keep /\ rt = "wait" /\ E.mode = mode /\ UNCHANGED vars
TRtResume == E.a = "RtResume" /\ Step1 /\ Keep /\ RResume

\* ------------------------------------------------------------------ stop coordinator
SameStop(s) == /\ E.reason = s.reason /\ E.th = s.th /\ E.line = s.line
               /\ E.gen = (IF s.reason = "Breakpoint" THEN s.gen ELSE -1)
TCRecv ==
  /\ E.a = "CRecv" /\ Step1 /\ Keep
  /\ cpc \in {"recv", "dropGenL"} /\ chan # <<>> /\ SameStop(Head(chan))
  /\ cstop' = Head(chan) /\ chan' = Tail(chan) /\ cpc' = "pe"       \* the gate: see the module comment
  /\ UNCHANGED <<rtvars, PE, gate, mvars, inq, wire, clvars, acts, answered, delivered, orderBad, resumeDue>>
TCPE == CPE /\ Silent
TCGen == CGen /\ Silent
TCEmit ==
  /\ E.a = "CEmit" /\ Step1 /\ Keep /\ cpc = "emit" /\ SameStop(cstop) /\ cpc' = "emitL"
  /\ UNCHANGED <<rtvars, chan, cstop, PE, gate, mvars, inq, wire, clvars, acts, answered, delivered, orderBad, resumeDue>>
TCDrop ==
  /\ E.a = "CDrop" /\ Step1 /\ UNCHANGED <<run, curStop>> /\ SameStop(cstop)
  /\ \/ /\ E.why = "pause_expected" /\ cpc = "dropPE" /\ cpc' = "recv" /\ cstop' = NoStop /\ UNCHANGED genDropped
     \/ /\ E.why = "generation" /\ cpc = "dropGen" /\ cpc' = "dropGenL" /\ cstop' = NoStop /\ genDropped' = cstop.id
     \/ /\ E.why = "generation" /\ cpc = "dropGenR" /\ cpc' = "recv" /\ cstop' = NoStop /\ UNCHANGED genDropped
  /\ UNCHANGED <<rtvars, chan, PE, gate, mvars, inq, wire, clvars, acts, answered, delivered, orderBad, resumeDue>>
TLogStopped ==
  /\ E.a = "Log" /\ E.kind = "stopped" /\ Step1 /\ Keep /\ cpc = "emitL" /\ UNCHANGED vars

\* ------------------------------------------------------------------ end of a settled phase
Settled == inq = <<>> /\ mpc = "idle" /\ chan = <<>> /\ cpc \in {"recv", "dropGenL"} /\ ~resumeDue
TQuiesce ==
  /\ E.a = "Quiesce" /\ Step1 /\ Keep /\ UNCHANGED vars
  /\ Settled /\ rt = "wait" /\ mode = "Paused" /\ outstanding = {}
  /\ E.view = view
  /\ disc =>
       \/ /\ view = "stopped" /\ shown = stopId
          \* ... with the right thread and location: the stopped event named the thread of the current stop and
          \* stackTrace for it answers with the statement the hook waits in
          /\ E.shownTh = curStop.th /\ (E.frames = -1 \/ E.frameLine = curStop.line)    \* frames = -1: the script did not ask
       \/ LenientGenDrop /\ view = "running" /\ genDropped = stopId
TExit == /\ E.a = "Exit" /\ Step1 /\ Keep /\ UNCHANGED vars
         /\ E.code = 0 /\ mpc = "exit" /\ outstanding = {}

\* invariants of the design, required of every state a run goes through (a step into a state that breaks one
\* is not a step of the specification: the run is rejected at that event).  All of them depend on logged
\* events only, never on where TLC placed a silent step.
StepInvariants == NoDuplicateStopped /\ NoStoppedAfterResume /\ WaitHasCause /\ (LenientOrder \/ ResponseBeforeLaterStop)
TStep == TSend \/ TRecvResponse \/ TRecvStopped \/ TTerminated \/ TRead \/ TPauseCheck \/ TSetPE \/ TInspect \/ TAct \/ TSetBps
         \/ TClearBps \/ TLogResponse \/ TRtStop \/ TRtWake \/ TRtResume \/ TCRecv \/ TCPE \/ TCGen \/ TCEmit \/ TCDrop
         \/ TLogStopped \/ TQuiesce \/ TExit
TNext == More /\ TStep /\ StepInvariants'
TSpec == TInit /\ [][TNext]_tvars
HighWater == TLCSet(run, IF TLCGet(run) < l THEN l ELSE TLCGet(run))
\* per run: index of its Reset event and of the first event no behaviour consumed (= start of the next run, or
\* Len(Rec) + 1, if the run was consumed completely)
Post == JsonSerialize(IOEnv.OUT, [events |-> Len(Rec), runs |-> NRuns, starts |-> Starts,
                                  reached |-> [r \in 1..NRuns |-> TLCGet(r)]])
=================================================================================
