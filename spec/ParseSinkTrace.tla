----------------------------- MODULE ParseSinkTrace -----------------------------
(* Trace validation of recorded runs of the real lexer / parser / tree (trust-syntax)      *)
(* against the contract of ParseSink.  The contract is a function of what was recorded, so *)
(* one TLC pass walks the whole file: every event is judged by the operators of ParseSink  *)
(* (TileWhy, WalkWhy, ErrWhy, Shape, NonTrivia); a rejected event puts the run into `bad`  *)
(* and the rest of that run is skipped up to the next Reset.                               *)
(*                                                                                         *)
(* A run:  Reset  Lex  Parse  Reparse  ( Insert  Lex  Parse )*                              *)
(*   Reset{n, dg, rep}  a new input text of n bytes with digest dg; rep = 1 if the same     *)
(*                      text occurs in more than one script of the file                     *)
(*   Lex{toks}          tokens must tile [0, n)                                             *)
(*   Parse{walk, errs, tlen, tdg, dg}                                                       *)
(*                      the tree is balanced with one root, its text is the input          *)
(*                      (length and digest), error ranges lie inside [0, n]                 *)
(*   Reparse{dg}        parsing is a function of the text: same digest as the first parse  *)
(*                      (and `seen` remembers the parse digest of every repeated text: the *)
(*                      same text parsed again in a later run must give the same digest)   *)
(*   Insert{i, len, n, dg}   InsertTrivia(i, kind) on an error-free text; the following    *)
(*                      Lex / Parse are judged like any other text and, if the insertion   *)
(*                      left the non-trivia tokens as they were, the shape must be the     *)
(*                      base text's shape                                                   *)
(*   Panic / Abort / Hang    the specification has no action that explains them             *)
EXTENDS ParseSink, TLC, Json, IOUtils
Rec == ndJsonDeserialize(IOEnv.TRACE)
VARIABLES l, run, bad, skip,
          id,        \* script id of the run
          n, dg,     \* length and digest of the text now under examination
          cur,       \* tokens of that text (<<>> before its Lex event)
          st,        \* "reset" | "lexed" | "parsed" | "reparsed" : position inside the run's grammar
          derived,   \* FALSE: the base text; TRUE: a text produced by InsertTrivia
          base,      \* what is remembered of the base text: [n, ok, dg, shape, nt]
          pre,       \* derived text: the insertion left the non-trivia tokens untouched
          rep,       \* the base text of this run occurs in other runs as well
          seen,      \* text digest |-> digest of its parse, for the repeated texts of the file
          cnt        \* counters for the evidence file
tvars == <<l, run, bad, skip, id, n, dg, cur, st, derived, base, pre, rep, seen, cnt, pvars>>
E == Rec[l]
More == l <= Len(Rec)
NoBase == [n |-> 0, ok |-> FALSE, dg |-> "", shape |-> <<>>, nt |-> <<>>]
Cnt0 == [lex |-> 0, parse |-> 0, reparse |-> 0, insert |-> 0, shapes |-> 0, inconclusive |-> 0, tokens |-> 0, again |-> 0]
\* the design-level variables are not used by the trace specification
Frozen == UNCHANGED pvars

Load(r) == /\ id' = r.id /\ n' = r.n /\ dg' = r.dg /\ cur' = <<>> /\ st' = "reset" /\ derived' = FALSE
           /\ base' = NoBase /\ pre' = FALSE /\ skip' = FALSE /\ rep' = (r.rep = 1)
Init == /\ l = 2 /\ run = 1 /\ bad = <<>> /\ cnt = Cnt0 /\ seen = <<>> /\ Rec[1].a = "Reset"
        /\ id = Rec[1].id /\ n = Rec[1].n /\ dg = Rec[1].dg /\ cur = <<>> /\ st = "reset" /\ derived = FALSE
        /\ base = NoBase /\ pre = FALSE /\ skip = FALSE /\ rep = (Rec[1].rep = 1)
        /\ toks = <<>> /\ ParserInit
Reset == /\ E.a = "Reset" /\ Load(E) /\ l' = l + 1 /\ run' = run + 1 /\ UNCHANGED <<bad, cnt, seen>> /\ Frozen
Skip == /\ skip /\ E.a # "Reset" /\ l' = l + 1
        /\ UNCHANGED <<run, bad, skip, id, n, dg, cur, st, derived, base, pre, rep, seen, cnt>> /\ Frozen

\* verdict on the current event: accepted, or rejected with the set of failing clauses
Judge(why) == IF why = {} THEN bad' = bad /\ skip' = FALSE
              ELSE /\ bad' = Append(bad, [run |-> run, line |-> l, id |-> id, kind |-> E.a, why |-> why, derived |-> derived])
                   /\ skip' = TRUE
OutOfOrder == {"trace:out-of-order"}

Lex ==
  /\ ~skip /\ E.a = "Lex" /\ l' = l + 1
  /\ LET why == IF st # "reset" THEN OutOfOrder ELSE TileWhy(E.toks, n)
     IN /\ Judge(why)
        /\ cur' = E.toks /\ st' = "lexed"
        /\ pre' = (derived /\ why = {} /\ NonTrivia(E.toks) = base.nt)
  /\ cnt' = [cnt EXCEPT !.lex = @ + 1, !.tokens = @ + Len(E.toks)]
  /\ UNCHANGED <<run, id, n, dg, derived, base, rep, seen>> /\ Frozen

ParseWhy ==
     WalkWhy(E.walk, n)
  \cup (IF E.tlen = n THEN {} ELSE {"tree:text-length"})
  \cup (IF E.tdg = dg THEN {} ELSE {"tree:text"})
  \cup ErrWhy(E.errs, n)
Parse ==
  /\ ~skip /\ E.a = "Parse" /\ l' = l + 1
  /\ LET judged == derived /\ pre /\ base.ok
         known == rep /\ ~derived /\ dg \in DOMAIN seen
         why == IF st # "lexed" THEN OutOfOrder
                ELSE ParseWhy \cup (IF judged /\ Shape(E.walk) # base.shape THEN {"trivia:shape"} ELSE {})
                              \cup (IF known /\ seen[dg] # E.dg THEN {"impure:same-text-parsed-earlier"} ELSE {})
     IN /\ Judge(why)
        /\ seen' = IF rep /\ ~derived /\ ~known THEN (dg :> E.dg) @@ seen ELSE seen
        /\ IF derived
           THEN /\ base' = base
                /\ cnt' = [cnt EXCEPT !.parse = @ + 1, !.shapes = @ + (IF judged THEN 1 ELSE 0),
                                      !.inconclusive = @ + (IF judged THEN 0 ELSE 1), !.again = @ + (IF known THEN 1 ELSE 0)]
           ELSE /\ base' = [n |-> n, ok |-> (Len(E.errs) = 0), dg |-> E.dg, shape |-> Shape(E.walk), nt |-> NonTrivia(cur)]
                /\ cnt' = [cnt EXCEPT !.parse = @ + 1, !.again = @ + (IF known THEN 1 ELSE 0)]
  /\ st' = "parsed"
  /\ UNCHANGED <<run, id, n, dg, cur, derived, pre, rep>> /\ Frozen

Reparse ==
  /\ ~skip /\ E.a = "Reparse" /\ l' = l + 1
  /\ Judge(IF st # "parsed" \/ derived THEN OutOfOrder ELSE IF E.dg = base.dg THEN {} ELSE {"impure"})
  /\ st' = "reparsed" /\ cnt' = [cnt EXCEPT !.reparse = @ + 1]
  /\ UNCHANGED <<run, id, n, dg, cur, derived, base, pre, rep, seen>> /\ Frozen

\* InsertTrivia(i, kind): enabled after the base text (or an earlier insertion) has been dealt
\* with; the new text is len bytes longer and the boundary lies between two tokens
Insert ==
  /\ ~skip /\ E.a = "Insert" /\ l' = l + 1
  /\ Judge(IF st \notin {"reparsed", "parsed"} \/ (st = "parsed" /\ ~derived) THEN OutOfOrder
           ELSE IF E.n = base.n + E.len /\ E.i >= 1 /\ E.len >= 1 THEN {} ELSE {"trace:insert"})
  /\ n' = E.n /\ dg' = E.dg /\ cur' = <<>> /\ st' = "reset" /\ derived' = TRUE /\ pre' = FALSE
  /\ cnt' = [cnt EXCEPT !.insert = @ + 1]
  /\ UNCHANGED <<run, id, base, rep, seen>> /\ Frozen

\* no action of the specification explains a panic, an abort or a hang: parsing is total
Died ==
  /\ ~skip /\ E.a \in {"Panic", "Abort", "Hang"} /\ l' = l + 1
  /\ Judge({IF E.a = "Panic" THEN "panic:" \o E.phase ELSE IF E.a = "Abort" THEN "abort:after-" \o E.after ELSE "hang:after-" \o E.after})
  /\ UNCHANGED <<run, id, n, dg, cur, st, derived, base, pre, rep, seen, cnt>> /\ Frozen

Next == More /\ (Reset \/ Skip \/ Lex \/ Parse \/ Reparse \/ Insert \/ Died)
Spec == Init /\ [][Next]_tvars
\* verdict, written once the last line has been consumed
Done == l = Len(Rec) + 1 =>
          JsonSerialize(IOEnv.OUT, [runs |-> run, events |-> Len(Rec), counts |-> cnt, bad |-> bad])
=================================================================================
