---- MODULE MCResourceFault_TTrace_1790415686 ----
EXTENDS Sequences, TLCExt, Toolbox, Naturals, TLC, MCResourceFault, MCResourceFault_TEConstants

_expression ==
    LET MCResourceFault_TEExpression == INSTANCE MCResourceFault_TEExpression
    IN MCResourceFault_TEExpression!expression
----

_trace ==
    LET MCResourceFault_TETrace == INSTANCE MCResourceFault_TETrace
    IN MCResourceFault_TETrace!trace
----

_inv ==
    ~(
        TLCGet("level") = Len(_TETrace)
        /\
        pc = ("faulted")
        /\
        visible = ("Faulted")
        /\
        err = ("WatchdogTimeout")
        /\
        cause = ("watchdog")
        /\
        after = (0)
        /\
        wd = ("halt")
        /\
        got = ({})
        /\
        policy = ("halt")
    )
----

_init ==
    /\ after = _TETrace[1].after
    /\ err = _TETrace[1].err
    /\ policy = _TETrace[1].policy
    /\ pc = _TETrace[1].pc
    /\ visible = _TETrace[1].visible
    /\ wd = _TETrace[1].wd
    /\ got = _TETrace[1].got
    /\ cause = _TETrace[1].cause
----

_next ==
    /\ \E i,j \in DOMAIN _TETrace:
        /\ \/ /\ j = i + 1
              /\ i = TLCGet("level")
        /\ after  = _TETrace[i].after
        /\ after' = _TETrace[j].after
        /\ err  = _TETrace[i].err
        /\ err' = _TETrace[j].err
        /\ policy  = _TETrace[i].policy
        /\ policy' = _TETrace[j].policy
        /\ pc  = _TETrace[i].pc
        /\ pc' = _TETrace[j].pc
        /\ visible  = _TETrace[i].visible
        /\ visible' = _TETrace[j].visible
        /\ wd  = _TETrace[i].wd
        /\ wd' = _TETrace[j].wd
        /\ got  = _TETrace[i].got
        /\ got' = _TETrace[j].got
        /\ cause  = _TETrace[i].cause
        /\ cause' = _TETrace[j].cause

\* Uncomment the ASSUME below to write the states of the error trace
\* to the given file in Json format. Note that you can pass any tuple
\* to `JsonSerialize`. For example, a sub-sequence of _TETrace.
    \* ASSUME
    \*     LET J == INSTANCE Json
    \*         IN J!JsonSerialize("MCResourceFault_TTrace_1790415686.json", _TETrace)

=============================================================================

 Note that you can extract this module `MCResourceFault_TEExpression`
  to a dedicated file to reuse `expression` (the module in the 
  dedicated `MCResourceFault_TEExpression.tla` file takes precedence 
  over the module `MCResourceFault_TEExpression` below).

---- MODULE MCResourceFault_TEExpression ----
EXTENDS Sequences, TLCExt, Toolbox, Naturals, TLC, MCResourceFault, MCResourceFault_TEConstants

expression == 
    [
        \* To hide variables of the `MCResourceFault` spec from the error trace,
        \* remove the variables below.  The trace will be written in the order
        \* of the fields of this record.
        after |-> after
        ,err |-> err
        ,policy |-> policy
        ,pc |-> pc
        ,visible |-> visible
        ,wd |-> wd
        ,got |-> got
        ,cause |-> cause
        
        \* Put additional constant-, state-, and action-level expressions here:
        \* ,_stateNumber |-> _TEPosition
        \* ,_afterUnchanged |-> after = after'
        
        \* Format the `after` variable as Json value.
        \* ,_afterJson |->
        \*     LET J == INSTANCE Json
        \*     IN J!ToJson(after)
        
        \* Lastly, you may build expressions over arbitrary sets of states by
        \* leveraging the _TETrace operator.  For example, this is how to
        \* count the number of times a spec variable changed up to the current
        \* state in the trace.
        \* ,_afterModCount |->
        \*     LET F[s \in DOMAIN _TETrace] ==
        \*         IF s = 1 THEN 0
        \*         ELSE IF _TETrace[s].after # _TETrace[s-1].after
        \*             THEN 1 + F[s-1] ELSE F[s-1]
        \*     IN F[_TEPosition - 1]
    ]

=============================================================================



Parsing and semantic processing can take forever if the trace below is long.
 In this case, it is advised to uncomment the module below to deserialize the
 trace from a generated binary file.

\*
\*---- MODULE MCResourceFault_TETrace ----
\*EXTENDS IOUtils, TLC, MCResourceFault, MCResourceFault_TEConstants
\*
\*trace == IODeserialize("MCResourceFault_TTrace_1790415686.bin", TRUE)
\*
\*=============================================================================
\*

---- MODULE MCResourceFault_TETrace ----
EXTENDS TLC, MCResourceFault, MCResourceFault_TEConstants

trace == 
    <<
    ([pc |-> "cycle",visible |-> "Running",err |-> "none",cause |-> "none",after |-> 0,wd |-> "halt",got |-> {},policy |-> "halt"]),
    ([pc |-> "decide",visible |-> "Running",err |-> "none",cause |-> "watchdog",after |-> 0,wd |-> "halt",got |-> {},policy |-> "halt"]),
    ([pc |-> "publish",visible |-> "Running",err |-> "none",cause |-> "watchdog",after |-> 0,wd |-> "halt",got |-> {},policy |-> "halt"]),
    ([pc |-> "faulted",visible |-> "Faulted",err |-> "WatchdogTimeout",cause |-> "watchdog",after |-> 0,wd |-> "halt",got |-> {},policy |-> "halt"])
    >>
----


=============================================================================

---- MODULE MCResourceFault_TEConstants ----
EXTENDS MCResourceFault

CONSTANTS d1, d2, d3

=============================================================================

---- CONFIG MCResourceFault_TTrace_1790415686 ----
CONSTANTS
    Drivers = { d1 , d2 , d3 }
    SkipDeliverOnWatchdog = TRUE
    d1 = d1
    d2 = d2
    d3 = d3

INVARIANT
    _inv

CHECK_DEADLOCK
    \* CHECK_DEADLOCK off because of PROPERTY or INVARIANT above.
    FALSE

INIT
    _init

NEXT
    _next

CONSTANT
    _TETrace <- _trace

ALIAS
    _expression
=============================================================================
\* Generated on Sat Sep 26 09:41:27 UTC 2026