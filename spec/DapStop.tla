-------------------------------- MODULE DapStop --------------------------------
(* C17 at the DAP adapter layer (crates/trust-debug/src/adapter): how a stop of the runtime   *)
(* becomes a `stopped` event on the wire, and how continue / pause / step / setBreakpoints    *)
(* requests act on the runtime.  One action per critical section / channel operation of the  *)
(* real code:                                                                                *)
(*   main thread M  (core.rs run_stdio loop, handlers/run_control.rs, handlers/breakpoints)  *)
(*     MRead        read_message: next request off stdin                                     *)
(*     MPauseCheck  handle_pause: `debug_control().mode()` (DebugState mutex)                *)
(*     MSetPE       `pause_expected.store(..)` (atomic)                                      *)
(*     MAct         DebugControl::apply_action / set_breakpoints_for_file (DebugState mutex) *)
(*     MGateEnter   `stop_gate.enter()` (gate mutex)                                         *)
(*     MInspect     stackTrace / scopes / variables: PausedStateView::new reads the snapshot  *)
(*     MInspectLock ... and, without one, takes the runtime mutex (paused.rs with_storage)    *)
(*     MWrite       write_message_locked(response) (stdout mutex)                            *)
(*     MDone        end of the loop iteration: the StopGateToken is dropped                  *)
(*   cycle thread R (runtime hook, debug/control.rs on_statement_inner; abstracted: WHICH    *)
(*                  statement stops is the runtime-level module DebugControl's business)     *)
(*     RCycleBegin / RCycleEnd  the runner takes / drops the runtime mutex around a cycle    *)
(*     RStop        a stop is decided, sent into the stop channel, the hook waits            *)
(*     RResume      the hook leaves its wait                                                 *)
(*   stop coordinator C (stop.rs StopCoordinator::spawn)                                     *)
(*     CRecv        stop_rx.recv()                                                           *)
(*     CGate        stop_gate.wait_clear() returns                                           *)
(*     CPE          should_emit_stop: the pause_expected swap / store                        *)
(*     CGen         should_emit_stop: breakpoint_generation(file) comparison                 *)
(*     CDropPE / CDropGen  the stop is forgotten (stale pause / outdated breakpoint set)     *)
(*     CWrite       emit_stop: write_message_locked(stopped event)                           *)
(*   client                                                                                  *)
(*     Send / Recv  requests into stdin, messages off stdout, in wire order                  *)
(* `Dev` names deliberate deviations: {} is the intended design, AsCoded is what the pinned   *)
(* tree does, the others are the slips the check must be able to see.                        *)
EXTENDS Integers, Sequences, FiniteSets, TLC

CONSTANTS Threads,      \* task ("thread") ids
          Dev           \* set of deviation names, see below

Has(d) == d \in Dev
\* "genDropKeepsPaused" : a Breakpoint stop dropped for a generation mismatch leaves the runtime paused
\*                        (as coded: stop.rs drops and nothing resumes)
\* "gateAfterAct"       : the stop gate is entered after the resuming action instead of before it
\*                        (as coded: run_control.rs calls continue_run() and only then stop_gate.enter())
\* "gateAnyOrder"       : either order (trace validation: accept the code as it is and a repaired one)
\* "continueKeepsPE"    : continue does not clear pause_expected
\* "dropInverted"       : a Pause/Entry stop is forwarded iff pause_expected is FALSE
\* "noGate"             : the coordinator does not wait for the gate
\* "dupStopped"         : the stopped event is written twice
\* "stepNoResume"       : a step request is answered but does not act on the runtime
\* "inspectLocks"       : an inspection request (stackTrace, scopes, variables) that finds no snapshot takes the runtime
\*                        mutex, which the cycle thread holds for the whole cycle - also while it waits in the hook
\*                        (as coded: paused.rs PausedStateView::with_storage)
\* "cycleUnobserved"    : abstraction switch for trace validation: begin and end of a cycle are not logged
AsCoded == {"genDropKeepsPaused", "gateAfterAct", "inspectLocks"}

VARIABLES
  \* ---- DebugControl (behind the DebugState mutex)
  mode,        \* "Running" | "Paused"
  pending,     \* "none" | "Pause" | "Entry"   pending_stop
  stepOn,      \* a step is armed (steps map not empty)
  bpGen,       \* breakpoint generation of the source file (0: never set / cleared)
  bpN,         \* number of breakpoints installed
  rt,          \* "run" | "wait"  the cycle thread is executing / blocked in the hook's wait
  stopId,      \* number of stops decided so far; the current one while rt = "wait"
  snap,        \* a snapshot of the variables is stored (taken at a stop, discarded by pause / continue / step)
  inCycle,     \* the cycle thread is inside execute_cycle, i.e. holds the runtime mutex
  \* ---- adapter
  chan,        \* the mpsc stop channel
  cpc, cstop,  \* coordinator: program counter and the stop in hand
  PE,          \* pause_expected
  gate,        \* stop gate count
  mpc, mreq, mgate, \* main thread: program counter, request in hand, holds a gate token
  \* ---- wire and client
  inq,         \* requests sent and not yet read
  wire,        \* messages written and not yet received
  nreq, outstanding, view, shown,
  \* ---- history (ghost) variables for the properties
  disc,        \* the client has been disciplined so far: resume requests only while its view is "stopped"
  acts,        \* number of resuming actions (continue / step) applied to the runtime
  answered,    \* number of responses to resuming requests written to the wire
  delivered,   \* ids of the stops whose stopped event was written, in order
  orderBad,    \* a stopped event was written before the response of an earlier resume
  resumeDue    \* a resuming action was applied while the hook waited and the hook has not reacted yet

rtvars  == <<mode, pending, stepOn, bpGen, bpN, rt, stopId, snap, inCycle>>
cvars   == <<cpc, cstop>>
mvars   == <<mpc, mreq, mgate>>
clvars  == <<nreq, outstanding, view, shown, disc>>
vars == <<mode, pending, stepOn, bpGen, bpN, rt, stopId, snap, inCycle, chan, cpc, cstop, PE, gate, mpc, mreq, mgate,
          inq, wire, nreq, outstanding, view, shown, disc, acts, answered, delivered, orderBad, resumeDue>>

NoStop == [id |-> 0, reason |-> "none", th |-> 0, gen |-> 0, line |-> 0, epoch |-> 0]
NoReq  == [seq |-> 0, cmd |-> "none", th |-> 0, n |-> 0]
Resume == {"continue", "next", "stepIn", "stepOut"}
Steps  == {"next", "stepIn", "stepOut"}
Gated  == Resume \cup {"pause"}
Inspect == {"stackTrace", "scopes", "variables"}

InitWith(entry, gen, n) ==
  /\ mode = (IF entry THEN "Paused" ELSE "Running") /\ pending = (IF entry THEN "Entry" ELSE "none")
  /\ stepOn = FALSE /\ bpGen = gen /\ bpN = n /\ rt = "run" /\ stopId = 0 /\ snap = FALSE /\ inCycle = FALSE
  /\ chan = <<>> /\ cpc = "recv" /\ cstop = NoStop /\ PE = entry /\ gate = 0
  /\ mpc = "idle" /\ mreq = NoReq /\ mgate = FALSE
  /\ inq = <<>> /\ wire = <<>> /\ nreq = 0 /\ outstanding = {} /\ view = "running" /\ shown = 0
  /\ disc = TRUE /\ acts = 0 /\ answered = 0 /\ delivered = <<>> /\ orderBad = FALSE /\ resumeDue = FALSE

\* ------------------------------------------------------------------ cycle thread (hook)
Emit(reason, th, gen, line) ==
  /\ stopId' = stopId + 1
  /\ chan' = Append(chan, [id |-> stopId + 1, reason |-> reason, th |-> th, gen |-> gen, line |-> line, epoch |-> acts])
  /\ rt' = "wait" /\ resumeDue' = FALSE /\ snap' = TRUE
  /\ (inCycle \/ Has("cycleUnobserved")) /\ inCycle' = TRUE

\* a pending Pause / Entry is consumed at the next statement of the cycle, or in place when the hook
\* is woken while the mode is Paused again (continue immediately followed by pause)
RStopPending(th, line) ==
  /\ mode = "Paused" /\ pending # "none"
  /\ Emit(pending, th, 0, line) /\ pending' = "none"
  /\ UNCHANGED <<mode, stepOn, bpGen, bpN>>
RStopBreakpoint(th, line) ==
  /\ rt = "run" /\ mode = "Running" /\ bpN > 0
  /\ Emit("Breakpoint", th, bpGen, line) /\ mode' = "Paused" /\ stepOn' = FALSE
  /\ UNCHANGED <<pending, bpGen, bpN>>
RStopStep(th, line) ==
  /\ rt = "run" /\ mode = "Running" /\ stepOn
  /\ Emit("Step", th, 0, line) /\ mode' = "Paused" /\ stepOn' = FALSE
  /\ UNCHANGED <<pending, bpGen, bpN>>
RStop(reason, th, line) ==
  /\ CASE reason \in {"Pause", "Entry"} -> pending = reason /\ RStopPending(th, line)
       [] reason = "Breakpoint" -> RStopBreakpoint(th, line)
       [] reason = "Step" -> RStopStep(th, line)
       [] OTHER -> FALSE
  /\ UNCHANGED <<cvars, PE, gate, mvars, inq, wire, clvars, acts, answered, delivered, orderBad>>
RResume ==
  /\ rt = "wait" /\ mode = "Running" /\ rt' = "run" /\ resumeDue' = FALSE
  /\ UNCHANGED <<mode, pending, stepOn, bpGen, bpN, stopId, snap, inCycle, chan, cvars, PE, gate, mvars, inq, wire, clvars,
                 acts, answered, delivered, orderBad>>
\* execute_cycle is entered / left (the runner takes / drops the runtime mutex); a cycle only ends while running
RCycleBegin == /\ ~inCycle /\ inCycle' = TRUE
               /\ UNCHANGED <<mode, pending, stepOn, bpGen, bpN, rt, stopId, snap, chan, cvars, PE, gate, mvars, inq, wire, clvars,
                              acts, answered, delivered, orderBad, resumeDue>>
RCycleEnd ==   /\ inCycle /\ rt = "run" /\ ~resumeDue /\ inCycle' = FALSE
               /\ UNCHANGED <<mode, pending, stepOn, bpGen, bpN, rt, stopId, snap, chan, cvars, PE, gate, mvars, inq, wire, clvars,
                              acts, answered, delivered, orderBad, resumeDue>>

\* ------------------------------------------------------------------ DebugControl actions
DoContinue == mode' = "Running" /\ stepOn' = FALSE /\ pending' = "none" /\ snap' = FALSE
DoStep     == mode' = "Running" /\ stepOn' = TRUE /\ pending' = "none" /\ snap' = FALSE
DoPause    == IF mode = "Paused" THEN UNCHANGED <<mode, stepOn, pending, snap>>
              ELSE mode' = "Paused" /\ stepOn' = FALSE /\ pending' = "Pause" /\ snap' = FALSE

\* ------------------------------------------------------------------ main thread
MRead ==
  /\ mpc = "idle" /\ inq # <<>>
  /\ mreq' = Head(inq) /\ inq' = Tail(inq) /\ mgate' = FALSE
  /\ mpc' = CASE Head(inq).cmd = "continue" -> "pe"
              [] Head(inq).cmd = "pause" -> "chk"
              [] Head(inq).cmd \in Steps \cup {"setBreakpoints", "disconnect"} -> "act"
              [] Head(inq).cmd \in Inspect -> "insp"
              [] OTHER -> "resp"
  /\ UNCHANGED <<rtvars, chan, cvars, PE, gate, wire, clvars, acts, answered, delivered, orderBad, resumeDue>>

MPauseCheck ==
  /\ mpc = "chk" /\ mpc' = (IF mode = "Paused" THEN "respNG" ELSE "pe")   \* "pause ignored (already paused)": no gate
  /\ UNCHANGED <<rtvars, chan, cvars, PE, gate, mreq, mgate, inq, wire, clvars, acts, answered, delivered, orderBad, resumeDue>>

MSetPE ==
  /\ mpc = "pe" /\ mpc' = "act"
  /\ PE' = IF mreq.cmd = "pause" THEN TRUE ELSE IF Has("continueKeepsPE") THEN PE ELSE FALSE
  /\ UNCHANGED <<rtvars, chan, cvars, gate, mreq, mgate, inq, wire, clvars, acts, answered, delivered, orderBad, resumeDue>>

GateOkBeforeAct == mreq.cmd \notin Gated \/ mgate \/ Has("gateAfterAct") \/ Has("gateAnyOrder")
MGateEnter ==
  /\ mreq.cmd \in Gated /\ ~mgate
  /\ \/ mpc = "act" /\ ~Has("gateAfterAct")
     \/ mpc = "resp" /\ (Has("gateAfterAct") \/ Has("gateAnyOrder"))
  /\ mgate' = TRUE /\ gate' = gate + 1
  /\ UNCHANGED <<rtvars, chan, cvars, PE, mpc, mreq, inq, wire, clvars, acts, answered, delivered, orderBad, resumeDue>>

\* the DebugControl call of the request in hand
MAct ==
  /\ mpc = "act" /\ GateOkBeforeAct /\ mpc' = "resp"
  /\ CASE mreq.cmd \in {"continue", "disconnect"} -> DoContinue /\ UNCHANGED <<bpGen, bpN>>
       [] mreq.cmd \in Steps -> (IF Has("stepNoResume") THEN UNCHANGED <<mode, stepOn, pending, snap>> ELSE DoStep) /\ UNCHANGED <<bpGen, bpN>>
       [] mreq.cmd = "pause" -> DoPause /\ UNCHANGED <<bpGen, bpN>>
       [] mreq.cmd = "setBreakpoints" -> bpGen' = bpGen + 1 /\ bpN' = mreq.n /\ UNCHANGED <<mode, stepOn, pending, snap>>
       [] OTHER -> FALSE
  /\ acts' = IF mreq.cmd \in Resume THEN acts + 1 ELSE acts
  /\ resumeDue' = IF mreq.cmd \in Resume \cup {"disconnect"} /\ rt = "wait" /\ mode' = "Running" THEN TRUE ELSE resumeDue
  /\ UNCHANGED <<rt, stopId, inCycle, chan, cvars, PE, gate, mreq, mgate, inq, wire, clvars, answered, delivered, orderBad>>

\* an inspection request answers from the snapshot if there is one (PausedStateView::new); otherwise it reads the
\* runtime itself, for which it needs the runtime mutex (the repaired code: try_lock, and an empty answer otherwise)
MInspect ==
  /\ mpc = "insp" /\ mpc' = (IF snap THEN "resp" ELSE "lock")
  /\ UNCHANGED <<rtvars, chan, cvars, PE, gate, mreq, mgate, inq, wire, clvars, acts, answered, delivered, orderBad, resumeDue>>
MInspectLock ==
  /\ mpc = "lock" /\ (Has("inspectLocks") => ~inCycle) /\ mpc' = "resp"
  /\ UNCHANGED <<rtvars, chan, cvars, PE, gate, mreq, mgate, inq, wire, clvars, acts, answered, delivered, orderBad, resumeDue>>

Response(r) == [kind |-> "response", seq |-> r.seq, cmd |-> r.cmd, id |-> 0, reason |-> "none", th |-> 0]
MWrite ==
  /\ mpc \in {"resp", "respNG"} /\ (mpc = "resp" /\ mreq.cmd \in Gated => mgate)
  /\ wire' = Append(wire, Response(mreq))
  /\ answered' = IF mreq.cmd \in Resume THEN answered + 1 ELSE answered
  /\ mpc' = "done"
  /\ UNCHANGED <<rtvars, chan, cvars, PE, gate, mreq, mgate, inq, clvars, acts, delivered, orderBad, resumeDue>>
MDone ==
  /\ mpc = "done" /\ mpc' = (IF mreq.cmd = "disconnect" THEN "exit" ELSE "idle")
  /\ gate' = IF mgate THEN gate - 1 ELSE gate
  /\ mgate' = FALSE /\ mreq' = NoReq
  /\ UNCHANGED <<rtvars, chan, cvars, PE, inq, wire, clvars, acts, answered, delivered, orderBad, resumeDue>>

\* ------------------------------------------------------------------ stop coordinator
CRecv ==
  /\ cpc = "recv" /\ chan # <<>>
  /\ cstop' = Head(chan) /\ chan' = Tail(chan) /\ cpc' = "gate"
  /\ UNCHANGED <<rtvars, PE, gate, mvars, inq, wire, clvars, acts, answered, delivered, orderBad, resumeDue>>
CGate ==
  /\ cpc = "gate" /\ (gate = 0 \/ Has("noGate")) /\ cpc' = "pe"
  /\ UNCHANGED <<rtvars, chan, cstop, PE, gate, mvars, inq, wire, clvars, acts, answered, delivered, orderBad, resumeDue>>
CPE ==
  /\ cpc = "pe"
  /\ IF cstop.reason \in {"Pause", "Entry"}
     THEN LET fwd == IF Has("dropInverted") THEN ~PE ELSE PE
          IN PE' = FALSE /\ cpc' = (IF fwd THEN "emit" ELSE "dropPE")
     ELSE PE' = FALSE /\ cpc' = (IF cstop.reason = "Breakpoint" THEN "gen" ELSE "emit")
  /\ UNCHANGED <<rtvars, chan, cstop, gate, mvars, inq, wire, clvars, acts, answered, delivered, orderBad, resumeDue>>
CGen ==
  /\ cpc = "gen" /\ cpc' = (IF bpGen > 0 /\ cstop.gen = bpGen THEN "emit" ELSE "dropGen")
  /\ UNCHANGED <<rtvars, chan, cstop, PE, gate, mvars, inq, wire, clvars, acts, answered, delivered, orderBad, resumeDue>>
\* a stale Pause / Entry stop is forgotten
CDropPE ==
  /\ cpc = "dropPE" /\ cpc' = "recv" /\ cstop' = NoStop
  /\ UNCHANGED <<rtvars, chan, PE, gate, mvars, inq, wire, clvars, acts, answered, delivered, orderBad, resumeDue>>
\* a Breakpoint stop of an outdated breakpoint set is void: it is forgotten and execution goes on
CDropGen ==
  /\ cpc = "dropGen" /\ cpc' = "recv" /\ cstop' = NoStop
  /\ IF Has("genDropKeepsPaused") THEN UNCHANGED <<mode, stepOn, pending, snap, resumeDue>>
     ELSE DoContinue /\ resumeDue' = (IF rt = "wait" THEN TRUE ELSE resumeDue)
  /\ UNCHANGED <<bpGen, bpN, rt, stopId, inCycle, chan, PE, gate, mvars, inq, wire, clvars, acts, answered, delivered, orderBad>>
Stopped(s) == [kind |-> "stopped", seq |-> 0, cmd |-> "none", id |-> s.id, reason |-> s.reason, th |-> s.th]
CWrite ==
  /\ cpc = "emit"
  /\ wire' = IF Has("dupStopped") THEN wire \o <<Stopped(cstop), Stopped(cstop)>> ELSE Append(wire, Stopped(cstop))
  /\ delivered' = IF Has("dupStopped") THEN delivered \o <<cstop.id, cstop.id>> ELSE Append(delivered, cstop.id)
  /\ orderBad' = (orderBad \/ cstop.epoch > answered)
  /\ cpc' = "recv" /\ cstop' = NoStop
  /\ UNCHANGED <<rtvars, chan, PE, gate, mvars, inq, clvars, acts, answered, resumeDue>>

\* ------------------------------------------------------------------ client
Send(cmd, th, n) ==
  /\ nreq' = nreq + 1
  /\ inq' = Append(inq, [seq |-> nreq + 1, cmd |-> cmd, th |-> th, n |-> n])
  /\ outstanding' = outstanding \cup {nreq + 1}
  /\ view' = IF cmd \in Resume THEN "running" ELSE IF cmd = "disconnect" THEN "gone" ELSE view
  /\ disc' = (disc /\ (cmd \in Resume => view = "stopped"))
  /\ UNCHANGED <<rtvars, chan, cvars, PE, gate, mvars, wire, shown, acts, answered, delivered, orderBad, resumeDue>>
Recv ==
  /\ wire # <<>> /\ wire' = Tail(wire)
  /\ LET m == Head(wire) IN
       IF m.kind = "stopped"
       THEN view' = (IF view = "gone" THEN view ELSE "stopped") /\ shown' = m.id /\ UNCHANGED outstanding
       ELSE outstanding' = outstanding \ {m.seq} /\ UNCHANGED <<view, shown>>
  /\ UNCHANGED <<rtvars, chan, cvars, PE, gate, mvars, inq, nreq, disc, acts, answered, delivered, orderBad, resumeDue>>

\* ------------------------------------------------------------------ properties
TypeOK ==
  /\ mode \in {"Running", "Paused"} /\ pending \in {"none", "Pause", "Entry"} /\ stepOn \in BOOLEAN
  /\ bpGen \in Nat /\ bpN \in Nat /\ rt \in {"run", "wait"} /\ stopId \in Nat /\ snap \in BOOLEAN /\ inCycle \in BOOLEAN
  /\ cpc \in {"recv", "gate", "pe", "gen", "emit", "dropPE", "dropGen"} /\ PE \in BOOLEAN /\ gate \in Nat
  /\ mpc \in {"idle", "chk", "pe", "act", "insp", "lock", "resp", "respNG", "done", "exit"} /\ mgate \in BOOLEAN
  /\ view \in {"running", "stopped", "gone"} /\ disc \in BOOLEAN /\ orderBad \in BOOLEAN

\* nothing is in flight: only a new request (or, while it runs, the program) can change anything
Quiescent == inq = <<>> /\ mpc = "idle" /\ chan = <<>> /\ cpc = "recv" /\ wire = <<>> /\ ~resumeDue

\* exactly one: never two stopped events for one stop ...
NoDuplicateStopped == \A i, j \in DOMAIN delivered : i # j => delivered[i] # delivered[j]
\* ... and never none: when everything has settled and the hook waits, the client has been told.
\* (Environment assumption `disc`: the client resumes only what it was told has stopped.  A client
\* that pipelines "step; continue; pause" without waiting for the stops in between can make the
\* coordinator clear pause_expected on behalf of a stop that is already history.)
NoLostStop == disc /\ Quiescent /\ rt = "wait" /\ view # "gone" => view = "stopped"
ExactlyOneStoppedPerStop == NoDuplicateStopped /\ NoLostStop
\* a client that resumes only what it was told has stopped is never shown a stop that was already
\* resumed: while its view is "stopped" the hook waits in exactly the stop that was shown
NoStoppedAfterResume == disc /\ view = "stopped" => rt = "wait" /\ shown = stopId
\* the response of a continue / step precedes, on the wire, the stopped event of every stop that
\* happened after it resumed the runtime
ResponseBeforeLaterStop == ~orderBad
\* the hook only waits while the mode is Paused or a resume is on its way
WaitHasCause == rt = "wait" => (mode = "Paused" \/ resumeDue) /\ inCycle
\* whenever the hook has settled in a stop there is a snapshot to answer inspection requests from
StopHasSnapshot == rt = "wait" /\ mode = "Paused" /\ pending = "none" => snap

\* liveness (under fairness of the threads): see MCDapStop
ContinueResumes == resumeDue ~> ~resumeDue
=================================================================================
