SPECIFICATION SpecFb
CONSTANTS
  MaxSteps = 12
  MaxCycles = 5
  ExportScripts = TRUE
  EnableFaults = TRUE
  EnableRestart = TRUE
  EnableDebugWrites = TRUE
  SrcVals = {0, 3, 129, 255}
  Dts = {1, 2, 3, 5, 7}
  CfgSel = "fb"
VIEW View
CHECK_DEADLOCK FALSE
INVARIANTS
  Export
