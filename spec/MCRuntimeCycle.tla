----------------------------- MODULE MCRuntimeCycle -----------------------------
(* Design-level model checking of RuntimeCycle: a small set of configurations, every      *)
(* environment choice (clock jumps, SINGLE edges, driver inputs, a fault at every program  *)
(* point, failing drivers, watchdog / simulation faults) up to a bounded number of steps.  *)
(* The invariants are the property statements C06 / C07 / C08 written against the state    *)
(* after each step; they are NOT the definitions of CycleOf re-stated.                     *)
(* The same instance exports every behaviour it explores as a script for the real runtime  *)
(* (spec -> implementation direction): see Export.                                         *)
EXTENDS RuntimeCycle, Json

CONSTANTS MaxSteps, MaxCycles, ExportScripts, EnableFaults, EnableRestart, EnableDebugWrites, SrcVals, Dts,
          CfgSel     \* "base": configurations without FB-task associations, "fb": those with (both fault
                     \* policies; "fb1": one of them), "all": both sets

VARIABLES hist,      \* script so far (observation only; hidden from the fingerprint by View)
          prev,      \* state before the last step (for action-style invariants)
          last,      \* name of the last step
          nsteps, ncycles
mvars == <<cfg, s, hist, prev, last, nsteps, ncycles>>
View == <<cfg, s, prev, last, nsteps, ncycles>>

A(area, size, byte, bit) == [area |-> area, size |-> size, byte |-> byte, bit |-> bit]
B(var, area, size, byte, bit, ty) == [var |-> var, area |-> area, size |-> size, byte |-> byte, bit |-> bit, ty |-> ty, owner |-> -1]
T(name, interval, single, prio) == [name |-> name, interval |-> interval, single |-> single, prio |-> prio]
P(name, task, copies) == [name |-> name, task |-> task, copies |-> copies]
Ct(name, owner, scope, qual) == [name |-> name, owner |-> owner, fb |-> 0, scope |-> scope, qual |-> qual, shape |-> "INT", initFrom |-> ""]
\* FUNCTION_BLOCK instance `inst` of program instance `prog`, associated with `task`; its member counter
Fb(prog, inst, task, copies) == [name |-> prog \o "." \o inst, prog |-> prog, inst |-> inst, task |-> task, copies |-> copies]
Cf(name, fb) == [name |-> name, owner |-> 0, fb |-> fb, scope |-> "fb", qual |-> "none", shape |-> "INT", initFrom |-> ""]
Cp(from, to) == [from |-> from, to |-> to, via |-> "stmt"]

Drivers2 == << [off |-> 0, len |-> 1], [off |-> 1, len |-> 1] >>
\* two periodic tasks with equal priority, one event task, one background program;
\* adjacent / overlapping bit and byte bindings; safe state overlapping a bound output
Cfg1(pol, wd) ==
  [tasks |-> << T("T0", 2, "", 1), T("T1", 0, "s1", 0), T("T2", 3, "", 1) >>,
   programs |-> << P("P0", "T0", << Cp("ix", "qx") >>), P("P1", "T1", << Cp("ib", "qb") >>),
                   P("P2", "", << Cp("ix", "mx") >>), P("P3", "T2", << >>) >>,
   fbs |-> << >>,
   bindings |-> << B("ix", "I", "X", 0, 1, "BOOL"), B("qx", "Q", "X", 0, 7, "BOOL"),
                   B("ib", "I", "B", 0, 0, "BYTE"), B("qb", "Q", "B", 1, 0, "BYTE"),
                   B("mx", "M", "X", 1, 0, "BOOL") >>,
   drivers |-> Drivers2, policy |-> pol, wd |-> wd,
   safe |-> << [addr |-> A("Q", "X", 1, 0), val |-> <<1>>], [addr |-> A("Q", "X", 0, 6), val |-> <<1>>] >>,
   singles |-> << "s1" >>, imgLen |-> 2, sinit |-> [x \in {"s1"} |-> FALSE], access |-> <<>>,
   counters |-> << Ct("cnt0", 1, "program", "none"), Ct("cnt1", 2, "program", "none"), Ct("cnt2", 3, "program", "none"), Ct("cnt3", 4, "program", "none"),
                   Ct("keep", 1, "program", "retain"), Ct("gk", 3, "global", "persistent"), Ct("gn", 3, "global", "nonretain") >>]
\* a task with both SINGLE and INTERVAL, a shared SINGLE variable, a word binding
Cfg2(pol, wd) ==
  [tasks |-> << T("T0", 2, "s1", 0), T("T1", 0, "s1", 0) >>,
   programs |-> << P("P0", "T1", << Cp("iw", "qw") >>), P("P1", "T0", << >>), P("P2", "", << >>) >>,
   fbs |-> << >>,
   bindings |-> << B("iw", "I", "W", 0, 0, "WORD"), B("qw", "Q", "W", 0, 0, "WORD") >>,
   drivers |-> Drivers2, policy |-> pol, wd |-> wd,
   safe |-> << [addr |-> A("Q", "B", 1, 0), val |-> <<170>>] >>,
   singles |-> << "s1" >>, imgLen |-> 2, sinit |-> [x \in {"s1"} |-> TRUE], access |-> <<>>,
   counters |-> << Ct("cnt0", 1, "program", "none"), Ct("cnt1", 2, "program", "none"), Ct("cnt2", 3, "program", "none"),
                   Ct("keep", 2, "program", "retain"), Ct("gk", 1, "global", "retain") >>]
\* FUNCTION_BLOCK instances associated with tasks, mixed with task programs and a background
\* program: an instance under another task than its program (the event task), under the task of
\* its program (runs after EVERY program of that task), instances of a background program, a
\* task that has only an FB instance, two instances of one program under different tasks, an
\* instance that writes a bound output, an instance named by a two-part path (member `f` of
\* another FB instance `g1` of the program, which itself never executes)
Cfg3(pol, wd) ==
  [tasks |-> << T("T0", 2, "", 1), T("T1", 0, "s1", 0), T("T2", 3, "", 1) >>,
   programs |-> << P("P0", "T0", << Cp("ix", "qx") >>), P("P1", "", << >>), P("P2", "T0", << >>) >>,
   fbs |-> << Fb("P0", "f0", "T1", << Cp("ib", "qb") >>), Fb("P0", "f1", "T0", << >>),
              Fb("P1", "f0", "T2", << >>), Fb("P1", "g1.f", "T0", << >>) >>,
   bindings |-> << B("ix", "I", "X", 0, 1, "BOOL"), B("qx", "Q", "X", 0, 7, "BOOL"),
                   B("ib", "I", "B", 0, 0, "BYTE"), B("qb", "Q", "B", 1, 0, "BYTE") >>,
   drivers |-> Drivers2, policy |-> pol, wd |-> wd,
   safe |-> << [addr |-> A("Q", "X", 1, 0), val |-> <<1>>] >>,
   singles |-> << "s1" >>, imgLen |-> 2, sinit |-> [x \in {"s1"} |-> FALSE], access |-> <<>>,
   counters |-> << Ct("cnt0", 1, "program", "none"), Ct("cnt1", 2, "program", "none"), Ct("cnt2", 3, "program", "none"),
                   Cf("fbn0", 1), Cf("fbn1", 2), Cf("fbn2", 3), Cf("fbn3", 4),
                   Ct("keep", 1, "program", "retain") >>]
Vars0(c) == [v \in {c.bindings[k].var : k \in DOMAIN c.bindings} |->
               LET b == CHOOSE b \in {c.bindings[k] : k \in DOMAIN c.bindings} : b.var = v
               IN [i \in 1..SizeBytes(b.size) |-> 0]]
WithVars0(c) == [k \in DOMAIN c \cup {"vars0"} |-> IF k = "vars0" THEN Vars0(c) ELSE c[k]]
BaseConfigs == {Cfg1("safe_halt", "halt"), Cfg1("halt", "restart"), Cfg2("safe_halt", "safe_halt"), Cfg2("restart", "halt")}
FbConfigs   == {Cfg3("safe_halt", "halt"), Cfg3("halt", "safe_halt")}
Configs == {WithVars0(c) : c \in (CASE CfgSel = "base" -> BaseConfigs [] CfgSel = "fb" -> FbConfigs
                                      [] CfgSel = "fb1" -> {Cfg3("safe_halt", "halt")} [] OTHER -> BaseConfigs \cup FbConfigs)}

Init == /\ cfg \in Configs /\ s = Fresh(cfg, cfg.vars0) /\ prev = s /\ last = "Init"
        /\ hist = <<>> /\ nsteps = 0 /\ ncycles = 0

Step(name, x, ev) == /\ nsteps < MaxSteps /\ s' = x /\ prev' = s /\ last' = name /\ hist' = Append(hist, ev)
                     /\ nsteps' = nsteps + 1 /\ UNCHANGED cfg
SrcBytes == {<<v>> : v \in SrcVals}
EvReset == FALSE     \* the design-level model fixes the reading the code uses; the trace
                     \* specification accepts both
DoAdvance == \E dt \in Dts : last # "Advance" /\ Step("Advance", AdvanceOf(s, dt), [a |-> "Advance", dt |-> dt]) /\ UNCHANGED ncycles
DoSetSingle == \E b \in BOOLEAN : last # "SetSingle" /\ s.g["s1"] # b
        /\ Step("SetSingle", SetSingleOf(s, "s1", b), [a |-> "SetSingle", s |-> "s1", b |-> b]) /\ UNCHANGED ncycles
DoSetSrc == \E d \in DIdx, by \in SrcBytes : last # "SetSrc" /\ s.src[d] # by
        /\ Step("SetSrc", SetSrcOf(s, d, by), [a |-> "SetSrc", d |-> d, bytes |-> by]) /\ UNCHANGED ncycles
DoInject == \E j \in PIdx : \E at \in 1..(Len(cfg.programs[j].copies) + 1) : EnableFaults /\ s.inj.prog = "" /\ ~s.faulted
        /\ Step("Inject", InjectOf(s, cfg.programs[j].name, at), [a |-> "Inject", prog |-> cfg.programs[j].name, at |-> at]) /\ UNCHANGED ncycles
\* a fault inside the body of a task-associated FB instance (every program point of it)
DoInjectFb == \E f \in FIdx : \E at \in 1..(Len(cfg.fbs[f].copies) + 1) : EnableFaults /\ s.inj.prog = "" /\ ~s.faulted
        /\ Step("Inject", InjectOf(s, cfg.fbs[f].name, at), [a |-> "Inject", prog |-> cfg.fbs[f].name, at |-> at]) /\ UNCHANGED ncycles
DoFailDriver == \E d \in DIdx, op \in {"read", "write"} : EnableFaults /\ s.drvFail.d = 0 /\ ~s.faulted
        /\ Step("FailDriver", FailDriverOf(s, d, op), [a |-> "FailDriver", d |-> d, op |-> op]) /\ UNCHANGED ncycles
DoWatchdog == EnableFaults /\ ~s.faulted /\ Step("Watchdog", WatchdogOf(s), [a |-> "Watchdog"]) /\ UNCHANGED ncycles
DoSimFault == EnableFaults /\ ~s.faulted /\ Step("SimFault", SimFaultOf(s), [a |-> "SimFault"]) /\ UNCHANGED ncycles
DoCycle == ~s.faulted /\ ncycles < MaxCycles /\ Step("Cycle", CycleOf(s, EvReset), [a |-> "Cycle"]) /\ ncycles' = ncycles + 1
DoRefusedCycle == s.faulted /\ ncycles < MaxCycles /\ Step("Cycle", CycleOf(s, EvReset), [a |-> "Cycle"]) /\ ncycles' = ncycles + 1
DoRestart == \E mode \in {"warm", "cold"} : EnableRestart /\ last \notin {"Restart", "PowerCycle", "Init"}
        /\ Step("Restart", RestartOf(s, mode), [a |-> "Restart", mode |-> mode]) /\ UNCHANGED ncycles
DoPowerCycle == EnableRestart /\ last \notin {"Restart", "PowerCycle", "Init"}
        /\ Step("PowerCycle", PowerCycleOf(s), [a |-> "PowerCycle"]) /\ UNCHANGED ncycles
DoDebugWrite == EnableDebugWrites /\ last # "DebugVarWrite" /\ \E k \in DOMAIN cfg.bindings :
        LET b == cfg.bindings[k] v == [i \in 1..SizeBytes(b.size) |-> 1] IN
        Step("DebugVarWrite", DebugVarWriteOf(s, b.var, v), [a |-> "DebugVarWrite", var |-> b.var, val |-> v]) /\ UNCHANGED ncycles
Next == DoDebugWrite \/ DoRestart \/ DoPowerCycle \/ DoAdvance \/ DoSetSingle \/ DoSetSrc \/ DoInject \/ DoFailDriver \/ DoWatchdog \/ DoSimFault \/ DoCycle \/ DoRefusedCycle
Spec == Init /\ [][Next]_mvars
\* the instances over configurations with FB-task associations (the *fb.cfg files) add the faults
\* inside FB bodies; the instances without keep exactly the actions they always had
NextFb == Next \/ DoInjectFb
SpecFb == Init /\ [][NextFb]_mvars

\* ------------------------------------------------------------------ C06
NoDup(q) == \A i, j \in DOMAIN q : i # j => q[i] # q[j]
TaskIdx(n) == CHOOSE t \in TIdx : cfg.tasks[t].name = n
ProgIdx(n) == CHOOSE j \in PIdx : cfg.programs[j].name = n
AfterCycle == last = "Cycle"
Healthy == AfterCycle /\ ~prev.faulted /\ ~s.faulted
\* each task and each program at most once per cycle (no replay of missed activations)
AtMostOncePerCycle == AfterCycle => NoDup(s.exec) /\ NoDup(s.trun)
\* ascending PRIORITY number among the tasks that ran
OrderIsSorted == AfterCycle => \A i, j \in DOMAIN s.trun : i < j =>
                    cfg.tasks[TaskIdx(s.trun[i])].prio <= cfg.tasks[TaskIdx(s.trun[j])].prio
\* an executed item is a program or a task-associated FB instance; the task it runs under
IsProg(n)   == \E j \in PIdx : cfg.programs[j].name = n
FbIdx(n)    == CHOOSE f \in FIdx : cfg.fbs[f].name = n
ItemTask(n) == IF IsProg(n) THEN cfg.programs[ProgIdx(n)].task ELSE cfg.fbs[FbIdx(n)].task
\* programs without a task run after every task program (and every task-driven FB instance), in declaration order
BackgroundAfterTasks == AfterCycle => \A i, j \in DOMAIN s.exec : i < j =>
     LET a == s.exec[i] b == s.exec[j] IN
       /\ (ItemTask(a) = "" => ItemTask(b) = "")
       /\ (ItemTask(a) = "" /\ ItemTask(b) = "" => ProgIdx(a) < ProgIdx(b))
\* the tasks run in a healthy cycle are exactly the due ones, by the property's wording
\* evaluated on the state BEFORE the cycle (prev): rising edge of SINGLE since the previous
\* cycle, or INTERVAL > 0, SINGLE false and INTERVAL elapsed since the last activation
DueBefore(t) ==
  LET tk == cfg.tasks[t]
      sn == tk.single # "" /\ prev.g[tk.single]
  IN (sn /\ ~prev.lastSingle[t]) \/ (tk.interval > 0 /\ ~sn /\ prev.now - prev.lastAct[t] >= tk.interval)
ExecutedIsDueSet == Healthy => {TaskIdx(s.trun[i]) : i \in DOMAIN s.trun} = {t \in TIdx : DueBefore(t)}
\* every background program runs in every healthy cycle
BackgroundAlways == Healthy => \A j \in PIdx : cfg.programs[j].task = "" => \E i \in DOMAIN s.exec : s.exec[i] = cfg.programs[j].name
OverrunsMonotone == last \notin {"Restart", "PowerCycle"} => \A t \in TIdx : s.overruns[t] >= prev.overruns[t]
\* a clock jump over n intervals yields one activation and n-1 overruns
NoReplay == Healthy => \A t \in TIdx : cfg.tasks[t].single = "" /\ cfg.tasks[t].interval > 0 /\ DueBefore(t) =>
               s.overruns[t] - prev.overruns[t] = (prev.now - prev.lastAct[t]) \div cfg.tasks[t].interval - 1

\* --- FB instances associated with tasks (C06: "program and FB associations")
Count(q, n) == Cardinality({i \in DOMAIN q : q[i] = n})
\* nothing executes outside an activation: every executed task item belongs to a task that ran
ItemsBelongToActivations == AfterCycle => \A i \in DOMAIN s.exec :
     ItemTask(s.exec[i]) # "" => \E k \in DOMAIN s.trun : s.trun[k] = ItemTask(s.exec[i])
\* the cycle executes activation after activation (in the order of the task events), and within
\* one activation the task's programs in declaration order, then its FB instances in declaration
\* order (declaring program, then position in its list)
Slot(n) == IF ItemTask(n) = "" THEN Len(s.trun) + 1 ELSE CHOOSE k \in DOMAIN s.trun : s.trun[k] = ItemTask(n)
\* <<activation, programs before FB instances, declaring program, position in the FB list>>
ItemKey(n) == IF IsProg(n) THEN <<Slot(n), 0, ProgIdx(n), 0>>
              ELSE <<Slot(n), 1, ProgIdx(cfg.fbs[FbIdx(n)].prog), FbIdx(n)>>
RECURSIVE LexLess(_, _, _)
LexLess(a, b, i) == i <= Len(a) /\ (a[i] < b[i] \/ (a[i] = b[i] /\ LexLess(a, b, i + 1)))
\* (a strictly increasing sequence of keys: the order is total, so adjacent pairs suffice)
ActivationsAreBlocks == AfterCycle /\ ItemsBelongToActivations =>
     LET key == [i \in DOMAIN s.exec |-> ItemKey(s.exec[i])] IN
       \A i \in 1..(Len(s.exec) - 1) : LexLess(key[i], key[i + 1], 1)
\* an FB instance (and a program) runs exactly once per activation of its task and never when
\* its task is not due - whatever the task of the program that declares the instance
FbOncePerActivation == Healthy => \A f \in FIdx :
     Count(s.exec, cfg.fbs[f].name) = IF DueBefore(TaskIdx(cfg.fbs[f].task)) THEN 1 ELSE 0
ProgramOncePerActivation == Healthy => \A j \in PIdx : cfg.programs[j].task # "" =>
     Count(s.exec, cfg.programs[j].name) = IF DueBefore(TaskIdx(cfg.programs[j].task)) THEN 1 ELSE 0
\* instance state persists between activations: the member counter counts every execution since
\* the last restart, and nothing but an execution of the instance changes it
FbCtr(f) == (CHOOSE c \in {cfg.counters[k] : k \in DOMAIN cfg.counters} : c.fb = f).name
FbStatePersists == \A f \in FIdx :
     /\ (AfterCycle => s.ctr[FbCtr(f)] = prev.ctr[FbCtr(f)] + Count(s.exec, cfg.fbs[f].name))
     /\ (last \notin {"Cycle", "Restart", "PowerCycle", "Init"} => s.ctr[FbCtr(f)] = prev.ctr[FbCtr(f)])

\* ------------------------------------------------------------------ C07
IsRead(e) == Len(e) = 2
ReadsThenWrites(lg) == \E n \in 0..Len(lg) : (\A i \in 1..n : IsRead(lg[i])) /\ (\A i \in (n + 1)..Len(lg) : ~IsRead(lg[i]))
\* healthy cycle: each driver asked for inputs exactly once, then given outputs exactly once
DriverCallShape == Healthy => /\ Len(s.drvLog) = 2 * Len(cfg.drivers)
                              /\ \A d \in DIdx : s.drvLog[d] = <<d, "read">> /\ s.drvLog[Len(cfg.drivers) + d] = <<d, "write", s.img.Q>>
\* in every cycle, whatever happens: reads precede writes, at most one read per driver
ReadsFirst == AfterCycle => ReadsThenWrites(s.drvLog) /\ \A d \in DIdx : Cardinality({i \in DOMAIN s.drvLog : s.drvLog[i] = <<d, "read">>}) <= 1
\* published bytes encode the final values of the output-bound variables
PublishedIsEncodeOfFinal == Healthy => \A k \in DOMAIN cfg.bindings : cfg.bindings[k].area \in {"Q", "M"} =>
                               Decode(s.img[cfg.bindings[k].area], cfg.bindings[k]) = s.vars[cfg.bindings[k].var]
\* input-bound variables hold the latched image for the whole cycle
LatchStable == Healthy => \A k \in DOMAIN cfg.bindings : cfg.bindings[k].area = "I" =>
                               s.vars[cfg.bindings[k].var] = Decode(s.img.I, cfg.bindings[k])
\* the latched input image is what the drivers supplied at their single read
InputsAreDriverData == Healthy => \A d \in DIdx : SubSeq(s.img.I, cfg.drivers[d].off + 1, cfg.drivers[d].off + cfg.drivers[d].len) = prev.src[d]
\* output bits outside every output binding are untouched by a healthy cycle
QCovered == UNION {Span(cfg.bindings[k]) : k \in {k \in DOMAIN cfg.bindings : cfg.bindings[k].area = "Q"}}
OutputLocality == Healthy => \A b \in 0..(cfg.imgLen - 1), k \in 0..7 : <<b, k>> \notin QCovered => GetBit(s.img.Q, b, k) = GetBit(prev.img.Q, b, k)

\* ------------------------------------------------------------------ C08
FaultLatchMonotone == prev.faulted /\ last \notin {"Restart", "PowerCycle"} => s.faulted      \* only a restart clears the latch
\* a refused cycle executes nothing and changes nothing
RefusedCyclesAreInert == AfterCycle /\ prev.faulted =>
    /\ s.exec = <<>> /\ s.drvLog = <<>>
    /\ s.vars = prev.vars /\ s.img = prev.img /\ s.ctr = prev.ctr /\ s.overruns = prev.overruns /\ s.lastAct = prev.lastAct
SafeDecision == (last = "Watchdog" /\ cfg.wd \in {"halt", "safe_halt"}) \/ (last \in {"Cycle", "SimFault"} /\ cfg.policy = "safe_halt")
NewFault == ~prev.faulted /\ s.faulted
SafeHolds(q) == \A m \in DOMAIN cfg.safe : Decode(q, cfg.safe[m].addr) = cfg.safe[m].val
\* safe_halt: every safe-state address holds its value and EVERY driver was handed that image
SafeStateDelivered == NewFault /\ SafeDecision =>
    /\ SafeHolds(s.img.Q)
    /\ \A d \in DIdx : \E i \in DOMAIN s.drvLog : s.drvLog[i] = <<d, "write", s.img.Q>>
                          /\ \A j \in DOMAIN s.drvLog : (j > i /\ ~IsRead(s.drvLog[j])) => s.drvLog[j][1] # d
\* a cycle that faults before the publish phase puts no program-computed value into the image
NoProgramOutputsAfterFault == AfterCycle /\ NewFault /\ s.fault # "pending:DriverWrite" =>
    \A b \in 0..(cfg.imgLen - 1), k \in 0..7 :
        GetBit(s.img.Q, b, k) # GetBit(prev.img.Q, b, k) => SafeDecision /\ \E m \in DOMAIN cfg.safe : <<b, k>> \in Span(cfg.safe[m].addr)
\* a fault anywhere is latched
FaultIsLatched == (last \in {"Watchdog", "SimFault"} => s.faulted)
                  /\ (AfterCycle /\ ~prev.faulted /\ (prev.drvFail.d # 0 \/ (prev.inj.prog # "" /\ \E i \in DOMAIN s.exec : s.exec[i] = prev.inj.prog)) => s.faulted)

\* a fault inside a program or inside a task-driven FB instance ends the cycle at that item:
\* nothing executes after it (the rest of the activation, later activations, background programs)
FaultEndsExecution == AfterCycle /\ NewFault /\ s.fault = "pending:Program" =>
    Len(s.exec) > 0 /\ s.exec[Len(s.exec)] = prev.inj.prog
\* ... and a fault inside a task-driven FB instance follows the same rules as one in a program:
\* latched as soon as the instance executes with the fault armed
FbFaultIsLatched == AfterCycle /\ ~prev.faulted /\ prev.inj.prog # "" /\ ~IsProg(prev.inj.prog)
                      /\ Count(s.exec, prev.inj.prog) > 0 => s.faulted /\ s.fault = "pending:Program"

\* ------------------------------------------------------------------ debugger writes
\* a pending write changes nothing until a cycle executes; an executed cycle leaves none pending
WritesOnlyAtBoundaries == (last = "DebugVarWrite" => s.vars = prev.vars /\ s.img = prev.img)
                          /\ (AfterCycle /\ ~prev.faulted /\ prev.drvFail.op # "read" => s.pendVar = <<>> /\ s.pendIo = <<>>)
\* ------------------------------------------------------------------ C09
RetainedC(c) == c.qual \in {"retain", "persistent"}
Ctrs == {cfg.counters[k] : k \in DOMAIN cfg.counters}
LastMode == hist[Len(hist)].mode
\* warm restart / power cycle: exactly the RETAIN and PERSISTENT variables keep their value
WarmKeepsExactlyRetained == (last = "PowerCycle" \/ (last = "Restart" /\ LastMode = "warm")) =>
    \A c \in Ctrs : s.ctr[c.name] = IF RetainedC(c) THEN prev.ctr[c.name] ELSE 0
\* cold restart: observationally a newly built runtime (raw images excepted until the next cycle)
ColdEqualsFresh == (last = "Restart" /\ LastMode = "cold") =>
    LET f == Fresh(cfg, cfg.vars0) IN [s EXCEPT !.img = f.img, !.src = f.src, !.drvFail = f.drvFail, !.pendVar = <<>>, !.pendIo = <<>>] = f
\* every restart clears the latch, the clock and the task state; bound variables restart at init
RestartResets == last \in {"Restart", "PowerCycle"} =>
    /\ ~s.faulted /\ s.now = 0 /\ s.vars = cfg.vars0
    /\ \A t \in TIdx : s.overruns[t] = 0 /\ s.lastAct[t] = 0
\* a power cycle preserves the same set of variables as a warm restart
PowerCycleSetEqualsWarmSet == last = "PowerCycle" => s.ctr = RestartOf(prev, "warm").ctr
\* a cycle is never refused right after a restart, and bindings keep working: a healthy
\* cycle after a restart publishes / latches exactly like any other (PublishedIsEncodeOfFinal etc.)
RestartClearsFault == (AfterCycle /\ Len(hist) > 1 /\ hist[Len(hist) - 1].a \in {"Restart", "PowerCycle"}) => prev.faulted = FALSE

\* ------------------------------------------------------------------ export (spec -> impl)
\* every maximal behaviour of the bounded model becomes one script for tpv cycle-run
Export == (ExportScripts /\ (nsteps = MaxSteps \/ (ncycles = MaxCycles /\ last = "Cycle"))) =>
             PrintT(<<"SCRIPT", ToJson([cfg |-> cfg, vars0 |-> cfg.vars0, steps |-> hist, dbg |-> TRUE])>>)
=================================================================================
