SPECIFICATION Spec
CONSTANTS
  WithPairs = FALSE
  WithTriples = FALSE
  MaxLines = 2
  WithRanges = TRUE
  Maxes = {0, 10}
  Ends = {"aligned"}
  BlindGlue = FALSE
  ByIndex = TRUE
  ExportScripts = FALSE
  RunModel = TRUE
  GenMaxLines = 0
CHECK_DEADLOCK FALSE
INVARIANTS
  TokensPreserved
  Idempotent
  EditsConfined
  OriginsInOrder
  KeptLinesVerbatim
  OutsideUntouched
