-------------------------------- MODULE MCStdFb --------------------------------
(* Bounded exhaustive check that the StdFb state machines equal the history-based IEC      *)
(* definitions on every call history, plus ET bounds/monotonicity, counter saturation,     *)
(* one-call edges and instance independence.  One kind per behaviour (chosen in Init),     *)
(* NInst independent instances of it.                                                      *)
EXTENDS StdFb, TLC, Json
CONSTANTS Kinds, DTs, PTs, PVs, MaxLen, NInst, Lo, Hi, ExportScripts

VARIABLES kind, h, mem, pm, last, hist
vars == <<kind, h, mem, pm, last, hist>>
View == <<kind, h, mem, pm, last>>
Inst == 1..NInst

InitMem(k) == CASE k = "TON" -> TonInit [] k = "TOF" -> TofInit [] k = "TP" -> TpInit
                [] k \in {"CTU", "CTD", "CTUD"} -> CtrInit
                [] k \in {"R_TRIG", "F_TRIG"} -> TrigInit
                [] k \in {"SR", "RS"} -> [q |-> FALSE]
Init == /\ kind \in Kinds /\ h = [i \in Inst |-> <<>>] /\ mem = [i \in Inst |-> InitMem(kind)]
        /\ pm = InitMem(kind) /\ last = 0 /\ hist = <<>>
Total == LET RECURSIVE S(_) S(i) == IF i = 0 THEN 0 ELSE Len(h[i]) + S(i - 1) IN S(NInst)
Do(i, ev, m2) == /\ Total < MaxLen /\ h' = [h EXCEPT ![i] = Append(@, ev)] /\ mem' = [mem EXCEPT ![i] = m2]
                 /\ pm' = mem[i] /\ last' = i /\ UNCHANGED kind
                 /\ hist' = Append(hist, [a |-> "Call", i |-> i, in |-> (IF kind \in {"R_TRIG", "F_TRIG"} THEN [clk |-> ev] ELSE IF kind = "SR" THEN [s1 |-> ev.s, r |-> ev.r] ELSE IF kind = "RS" THEN [s |-> ev.s, r1 |-> ev.r] ELSE ev), dt |-> (IF kind \in {"TON", "TOF", "TP"} THEN ev.dt ELSE 0)])
Dt(i, dt) == IF h[i] = <<>> THEN 0 ELSE dt
CallTimer == \E i \in Inst, in \in BOOLEAN, pt \in PTs, dt \in DTs :
   /\ kind \in {"TON", "TOF", "TP"}
   /\ Do(i, [in |-> in, pt |-> pt, dt |-> Dt(i, dt)],
         CASE kind = "TON" -> TonStep(mem[i], in, pt, Dt(i, dt))
           [] kind = "TOF" -> TofStep(mem[i], in, pt, Dt(i, dt))
           [] kind = "TP"  -> TpStep(mem[i], in, pt, Dt(i, dt)))
CallCounter == \E i \in Inst, cu, cd, r, ld \in BOOLEAN, pv \in PVs :
   /\ kind \in {"CTU", "CTD", "CTUD"}
   /\ (kind = "CTU" => ~cd /\ ~ld) /\ (kind = "CTD" => ~cu /\ ~r)
   /\ Do(i, [cu |-> cu, cd |-> cd, r |-> r, ld |-> ld, pv |-> pv],
         CASE kind = "CTU" -> CtuStep(mem[i], cu, r, pv, Hi)
           [] kind = "CTD" -> CtdStep(mem[i], cd, ld, pv, Lo)
           [] kind = "CTUD" -> CtudStep(mem[i], cu, cd, r, ld, pv, Lo, Hi))
CallTrig == \E i \in Inst, clk \in BOOLEAN :
   /\ kind \in {"R_TRIG", "F_TRIG"} /\ Do(i, clk, TrigStep(mem[i], clk))
CallBistable == \E i \in Inst, s, r \in BOOLEAN :
   /\ kind \in {"SR", "RS"}
   /\ Do(i, [s |-> s, r |-> r], [q |-> IF kind = "SR" THEN SrStep(mem[i].q, s, r) ELSE RsStep(mem[i].q, s, r)])
Next == CallTimer \/ CallCounter \/ CallTrig \/ CallBistable
Spec == Init /\ [][Next]_vars

Called == last # 0
H == h[last]
M == mem[last]
K == Len(H)
\* ---- machines = definitions
TonRefines == Called /\ kind = "TON" => LET d == DefTON(H) o == TonOut(M, H[K].pt) IN d.q = o.q /\ d.et = o.et
TofRefines == Called /\ kind = "TOF" => LET d == DefTOF(H) IN d.q = M.q /\ (d.timing => d.et = M.et /\ M.et < Pos(H[K].pt))
TpRefines  == Called /\ kind = "TP"  => LET d == DefTP(H) IN d.q = M.active /\ (d.q => d.et = M.et /\ M.et < Pos(H[K].pt))
RTrigRefines == Called /\ kind = "R_TRIG" => RTrigOut(pm, H[K]) = DefRTRIG(H)
FTrigRefines == Called /\ kind = "F_TRIG" /\ ~FTrigFirstFree(pm, H[K]) => FTrigOut(pm, H[K]) = DefFTRIG(H)
\* ---- ET never exceeds PT and never decreases while timing
EtBound == Called => CASE kind = "TON" -> TonOut(M, H[K].pt).et <= Pos(H[K].pt)
                       [] kind = "TOF" -> M.timing => M.et < Pos(H[K].pt)
                       [] kind = "TP" -> M.active => M.et < Pos(H[K].pt)
                       [] OTHER -> TRUE
EtMonotone == Called /\ K > 1 =>
                CASE kind = "TON" -> (H[K].in /\ H[K - 1].in) => M.et >= pm.et
                  [] kind = "TOF" -> (M.timing /\ pm.timing) => M.et >= pm.et
                  [] kind = "TP" -> (M.active /\ pm.active) => M.et >= pm.et
                  [] OTHER -> TRUE
\* ---- a pulse is never restarted while active (non-retriggerable)
TpNoRetrigger == Called /\ kind = "TP" /\ pm.active /\ M.active => M.et = pm.et + H[K].dt
\* ---- counters saturate instead of wrapping; Q outputs by definition
CounterInRange == Called /\ kind \in {"CTU", "CTD", "CTUD"} => M.cv >= Lo /\ M.cv <= Hi
CounterStep == Called /\ kind \in {"CTU", "CTD", "CTUD"} => (M.cv - pm.cv \in {-1, 0, 1} \/ H[K].r \/ H[K].ld)
\* ---- an edge detector fires for exactly one call per edge: never on two consecutive calls
OneCallPerEdge == Called /\ kind \in {"R_TRIG", "F_TRIG"} /\ K > 2 =>
     LET out(m, c) == IF kind = "R_TRIG" THEN RTrigOut(m, c) ELSE FTrigOut(m, c)
     IN ~(out(pm, H[K]) /\ out([prev |-> H[K - 2], calls |-> 2], H[K - 1]))
\* ---- bistable dominance
Dominance == Called /\ kind \in {"SR", "RS"} /\ H[K].s /\ H[K].r => M.q = (kind = "SR")
\* ---- instances are independent: a call changes only the called instance
Independence == [][\A i \in Inst : i # last' => mem'[i] = mem[i] /\ h'[i] = h[i]]_vars

Export == (ExportScripts /\ Total = MaxLen) => PrintT(<<"SCRIPT", ToJson([kind |-> kind, steps |-> hist])>>)
MCPTs == {-1, 0, 2, 3}
MCLo == -2
=================================================================================
