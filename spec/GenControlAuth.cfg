SPECIFICATION Spec
CONSTANTS
  KindNames = {"status", "config.get", "config.set", "io.read", "io.write", "io.force", "hmi.write", "hmi.values.get",
               "pause", "resume", "step_in", "breakpoints.set", "breakpoints.clear_all", "breakpoints.list",
               "eval", "set", "var.force", "var.unforce", "var.forced", "debug.state", "debug.stack",
               "restart", "shutdown", "bytecode.reload", "pair.start", "pair.list", "pair.revoke", "zq.unknown"}
  TypeNames = {"unused"}
  ReqRoles = {0}
  OneTable = TRUE
  WFs = {"yes"}
  StaleRoles = {2}
  MaxReq = 12
  ExportScripts = TRUE
VIEW View
CHECK_DEADLOCK FALSE
INVARIANTS
  Export
