SPECIFICATION Spec
CONSTANTS
  ServerUnit = "utf16"
  UnitNames = {"a", "eacute", "han", "emoji", "nl", "crlf"}
  MaxUnits = 4
  MaxLen = 8
  MaxNotifs = 4
  MaxBatch = 3
  MaxChan = 1
  Lockstep = TRUE
  AllowSlack = FALSE
  AllowReplace = TRUE
  RichInserts = TRUE
  ExportScripts = TRUE
VIEW View
CHECK_DEADLOCK FALSE
INVARIANTS
  InSync
  Export
