SPECIFICATION TSpec
CONSTANTS
  Threads = {1, 2}
  Dev = {"gateAnyOrder"}
  Lenient = TRUE
CONSTRAINT HighWater
POSTCONDITION Post
CHECK_DEADLOCK FALSE
