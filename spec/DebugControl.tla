------------------------------ MODULE DebugControl ------------------------------
(* Runtime debugger control (crates/trust-runtime/src/debug/control.rs) at the grain of   *)
(* its mutex: every adapter call is one step; the cycle thread's statement hook is        *)
(* HookEnter (up to its first wait or return) and HookWake (one re-evaluation after a     *)
(* Condvar wake-up, up to the next wait or return).                                       *)
EXTENDS Integers, Sequences, FiniteSets, TLC

CONSTANTS Threads,     \* task ("thread") ids, positive integers
          MaxCmds      \* bound on adapter commands

None == 0              \* "no thread / no step key 0 is the global key" handled explicitly below
NoReason == "none"

\* static per run (a VARIABLE fixed by Init / Reset, so that one trace-validation pass ranges over
\* many recorded programs):
\*   prog  : sequence of [loc, depth, th] — the statements one cycle hooks, in order
\*   cands : the locations a SetBreakpoints command may choose from
\*   maxc  : number of cycles the run executes
VARIABLES prog, cands, maxc,
          mode, pending, step, target, cur, lastDepth, lastDepths, bps,
          pc, ip, cycle,            \* cycle thread
          stops, executed,          \* observation (history)
          ncmd,
          stepOrigin                \* ghost: depth the pending step command was issued from

vars == <<prog, cands, maxc, mode, pending, step, target, cur, lastDepth, lastDepths, bps, pc, ip, cycle,
          stops, executed, ncmd, stepOrigin>>

NoStep == [key |-> -1, kind |-> "none", td |-> 0, started |-> FALSE]
ThreadOpt == Threads \cup {None}

InitWith(p, c, mc) ==
  /\ prog = p /\ cands = c /\ maxc = mc
  /\ mode = "Running" /\ pending = NoReason /\ step = NoStep /\ target = None
  /\ cur = p[1].th /\ lastDepth = 0 /\ lastDepths = [t \in Threads |-> -1] /\ bps = {}
  /\ pc = "run" /\ ip = 1 /\ cycle = 1
  /\ stops = <<>> /\ executed = <<>> /\ ncmd = 0 /\ stepOrigin = -1

Stmt == prog[ip]
IsTargetOf(tg, c) == tg = None \/ tg = c

Stop(reason, loc, d) == [reason |-> reason, loc |-> loc, th |-> cur, depth |-> d]

\* ---- one pass of the wait loop, given the state (m, p, tg, st, ss) reached so far ----
\* returns the final <<pending, stops, pc>>
LoopPass(m, p, tg, ss, loc, d) ==
  LET tgt == IsTargetOf(tg, cur)
      consume == m = "Paused" /\ tgt /\ p # NoReason
      p2  == IF consume THEN NoReason ELSE p
      ss2 == IF consume THEN Append(ss, Stop(p, loc, d)) ELSE ss
      pc2 == IF m = "Running" THEN "run" ELSE IF ~tgt THEN "run" ELSE "wait"
  IN <<p2, ss2, pc2>>

\* statement executes when the hook returns
Advance(newpc) ==
  IF newpc = "run"
  THEN /\ executed' = Append(executed, <<cycle, ip>>)
       /\ IF ip < Len(prog) THEN ip' = ip + 1 /\ cycle' = cycle /\ pc' = "run"
          ELSE IF cycle < maxc THEN ip' = 1 /\ cycle' = cycle + 1 /\ pc' = "run"
          ELSE ip' = ip /\ cycle' = cycle /\ pc' = "done"
  ELSE /\ pc' = newpc /\ UNCHANGED <<executed, ip, cycle>>

\* execute_task / background: set_current_thread before the first statement of another task
SetCur ==
  /\ pc = "run" /\ cur # Stmt.th
  /\ cur' = Stmt.th
  /\ UNCHANGED <<prog, cands, maxc, mode, pending, step, target, lastDepth, lastDepths, bps, pc, ip, cycle,
                 stops, executed, ncmd, stepOrigin>>

HookEnter ==
  /\ pc = "run" /\ cur = Stmt.th
  /\ LET loc == Stmt.loc
         d   == Stmt.depth
         tgt0 == IsTargetOf(target, cur)
         \* 1. consume a pending stop if already paused for this thread
         c1  == mode = "Paused" /\ tgt0 /\ pending # NoReason
         p1  == IF c1 THEN NoReason ELSE pending
         s1  == IF c1 THEN Append(stops, Stop(pending, loc, d)) ELSE stops
         eff == IF tgt0 THEN mode ELSE "Running"
         \* 2. step check
         hasStep == eff = "Running" /\ tgt0 /\ step.kind # "none" /\ (step.key = cur \/ step.key = None)
         arm     == hasStep /\ ~step.started
         stepHit == hasStep /\ step.started /\
                    (step.kind = "Into" \/ d <= step.td)
         st2 == IF arm THEN [step EXCEPT !.started = TRUE] ELSE IF stepHit THEN NoStep ELSE step
         \* 3. breakpoint check (also for a non-target thread while paused for another)
         bpHit == eff = "Running" /\ ~stepHit /\ loc \in bps
         st3 == IF bpHit THEN NoStep ELSE st2
         tg3 == IF bpHit THEN None ELSE target
         paused == stepHit \/ bpHit
         m3  == IF paused THEN "Paused" ELSE mode
         p3  == IF paused THEN NoReason ELSE p1
         s3  == IF stepHit THEN Append(s1, Stop("Step", loc, d))
                ELSE IF bpHit THEN Append(s1, Stop("Breakpoint", loc, d)) ELSE s1
         fin == LoopPass(m3, p3, tg3, s3, loc, d)
     IN /\ lastDepth' = d
        /\ lastDepths' = [lastDepths EXCEPT ![cur] = d]
        /\ mode' = m3 /\ step' = st3 /\ target' = tg3
        /\ pending' = fin[1] /\ stops' = fin[2]
        /\ Advance(fin[3])
        /\ stepOrigin' = IF stepHit THEN -1 ELSE stepOrigin
  /\ UNCHANGED <<prog, cands, maxc, cur, bps, ncmd>>

\* Condvar wake-up (after notify_all, or spurious)
HookWake ==
  /\ pc = "wait"
  /\ LET fin == LoopPass(mode, pending, target, stops, Stmt.loc, Stmt.depth)
     IN /\ pending' = fin[1] /\ stops' = fin[2] /\ Advance(fin[3])
  /\ UNCHANGED <<prog, cands, maxc, mode, step, target, cur, lastDepth, lastDepths, bps, ncmd, stepOrigin>>

\* ------------------------------- adapter commands -------------------------------
Cmd == ncmd < MaxCmds /\ ncmd' = ncmd + 1 /\ UNCHANGED <<prog, cands, maxc>>

Pause(t) ==
  /\ Cmd
  /\ IF mode = "Paused"
     THEN UNCHANGED <<mode, step, pending, target>>
     ELSE mode' = "Paused" /\ step' = NoStep /\ pending' = "Pause" /\ target' = t
  /\ UNCHANGED <<cur, lastDepth, lastDepths, bps, pc, ip, cycle, stops, executed, stepOrigin>>

Continue ==
  /\ Cmd
  /\ mode' = "Running" /\ step' = NoStep /\ pending' = NoReason /\ target' = None
  /\ UNCHANGED <<cur, lastDepth, lastDepths, bps, pc, ip, cycle, stops, executed>>
  /\ stepOrigin' = -1

DepthFor(tt) == IF tt # None /\ lastDepths[tt] # -1 THEN lastDepths[tt] ELSE lastDepth

StepCmd(kind, t) ==
  /\ Cmd
  /\ LET tt == IF t # None THEN t ELSE cur
         td == CASE kind = "Into" -> lastDepth
                 [] kind = "Over" -> DepthFor(tt)
                 [] kind = "Out"  -> IF DepthFor(tt) > 0 THEN DepthFor(tt) - 1 ELSE 0
     IN /\ step' = [key |-> tt, kind |-> kind, td |-> td, started |-> (mode = "Paused")]
        /\ target' = tt
        /\ stepOrigin' = IF kind = "Into" THEN -1 ELSE DepthFor(tt)
  /\ mode' = "Running" /\ pending' = NoReason
  /\ UNCHANGED <<cur, lastDepth, lastDepths, bps, pc, ip, cycle, stops, executed>>

SetBps(S) ==
  /\ Cmd /\ bps' = S
  /\ UNCHANGED <<mode, pending, step, target, cur, lastDepth, lastDepths, pc, ip, cycle,
                 stops, executed, stepOrigin>>

Adapter ==
  \/ \E t \in ThreadOpt : Pause(t)
  \/ Continue
  \/ \E k \in {"Into", "Over", "Out"}, t \in ThreadOpt : StepCmd(k, t)
  \/ \E S \in SUBSET cands : SetBps(S)

CycleThread == SetCur \/ HookEnter \/ HookWake

Next == Adapter \/ CycleThread

\* ---------------------------------- properties ----------------------------------
TypeOK ==
  /\ mode \in {"Running", "Paused"} /\ pc \in {"run", "wait", "done"}
  /\ target \in ThreadOpt /\ cur \in Threads

\* every transition into the wait appends exactly one stop; no stop without a wait
OneStopPerPause ==
  [][ /\ (pc = "run" /\ pc' = "wait") => Len(stops') = Len(stops) + 1
      /\ (pc = "run" /\ pc' # "wait") => Len(stops') = Len(stops)
      /\ (pc = "wait" /\ pc' = "wait") => Len(stops') \in {Len(stops), Len(stops) + 1}
      /\ (pc = "wait" /\ pc' # "wait") => Len(stops') = Len(stops) ]_vars

\* a waiting hook is always paused-for-this-thread (so Continue/Step can release it)
WaitMeansPaused == pc = "wait" => (mode = "Paused" /\ IsTargetOf(target, cur)) \/ mode = "Running"

\* whenever the hook waits while mode is Running, a wake-up is pending (it will return)
\* i.e. HookWake from such a state returns:
WakeReleases == (pc = "wait" /\ mode = "Running") => ENABLED HookWake

\* Step stops after Over/Out never deeper than where the step was issued from
StepDepth ==
  [][ \A i \in (Len(stops) + 1)..Len(stops') :
        (stops'[i].reason = "Step" /\ stepOrigin # -1) => stops'[i].depth <= stepOrigin ]_vars

\* transparency: statements execute in program order, none skipped or repeated
Transparent ==
  \A i \in 1..Len(executed) :
     executed[i] = <<((i - 1) \div Len(prog)) + 1, ((i - 1) % Len(prog)) + 1>>
\* every stop carries the location of the statement the cycle thread is held at
StopHasLocation == \A i \in 1..Len(stops) : stops[i].loc \in {prog[k].loc : k \in DOMAIN prog}
\* step-in issued while stopped stops at the very next hooked statement: ghost `stepInAt`
\* is checked in the MC module

\* no wedge: after Continue (mode Running, no step) the program finishes
Finishes == <>(pc = "done" \/ mode = "Paused" \/ ncmd < MaxCmds)
NoWedge  == [](pc = "wait" => <>(pc # "wait" \/ ncmd < MaxCmds \/ mode = "Paused"))
=================================================================================
