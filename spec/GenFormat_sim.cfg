SPECIFICATION GenSpec
CONSTANTS
  WithPairs = FALSE
  WithTriples = FALSE
  MaxLines = 0
  WithRanges = FALSE
  Maxes = {0}
  Ends = {"aligned"}
  BlindGlue = FALSE
  ByIndex = FALSE
  ExportScripts = TRUE
  RunModel = FALSE
  GenMaxLines = 7
CHECK_DEADLOCK FALSE
INVARIANT GenExport
