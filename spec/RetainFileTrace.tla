----------------------------- MODULE RetainFileTrace -----------------------------
(* C10 conformance.  The trace holds, per snapshot pair: the system-call protocol OBSERVED  *)
(* from an uninterrupted FileRetainStore::store (Sys events, recorded by the LD_PRELOAD     *)
(* shim), then one Crash event per crash point (kill at step `at`, inside a write after     *)
(* `partial` bytes) with what FileRetainStore::load returned afterwards.  The observed      *)
(* protocol becomes the program of the RetainFile model:                                    *)
(*   - the property is decided on the REAL result: a load that is neither the old nor the   *)
(*     new snapshot is a violation;                                                         *)
(*   - the model must predict that result (otherwise the file-system model does not         *)
(*     describe the code, reported separately as a model mismatch);                         *)
(*   - every crash point the model knows (each step, each write) must have been exercised.  *)
(* Codec / Corrupt events carry the lossless-codec half of C10: round trips must be exact   *)
(* and corrupted images must end in Ok or Err, never a panic or abort.                      *)
EXTENDS RetainFile, Json, IOUtils
Rec == ndJsonDeserialize(IOEnv.TRACE)
VARIABLES l, pair, prog, oldLen, newLen, bad, mismatch, ncrash, ncodec, ncorrupt, covered
tvars == <<l, pair, prog, oldLen, newLen, bad, mismatch, ncrash, ncodec, ncorrupt, covered>>
E == Rec[l]
More == l <= Len(Rec)

\* the shim reports writes by file descriptor; the open events say which file a descriptor is
RECURSIVE FileOf(_, _, _)
FileOf(p, n, fd) == IF n = 0 THEN "tmp"
                    ELSE IF p[n].op \in {"opentrunc", "open"} /\ p[n].fd = fd THEN p[n].x ELSE FileOf(p, n - 1, fd)
\* observed event -> model op
ToOp(p, n) == LET e == p[n] IN
  IF e.op \in {"write", "fsync", "fdatasync", "close", "ftruncate"}
  THEN [op |-> (IF e.op = "fdatasync" THEN "fsync" ELSE e.op), x |-> FileOf(p, n - 1, e.fd), n |-> e.len]
  ELSE [op |-> e.op, x |-> e.x, n |-> e.len]
Model(p) == [n \in DOMAIN p |-> ToOp(p, n)]

Init == /\ l = 1 /\ pair = -1 /\ prog = <<>> /\ oldLen = 0 /\ newLen = 0 /\ bad = <<>> /\ mismatch = <<>>
        /\ ncrash = 0 /\ ncodec = 0 /\ ncorrupt = 0 /\ covered = {}
Keep(vs) == UNCHANGED vs
\* crash points of a protocol: every step, and for writes a kill before, inside and at the last byte
Points(p) == {<<n, 0>> : n \in DOMAIN p}
Reset == /\ E.a = "Reset" /\ l' = l + 1 /\ pair' = E.pair /\ prog' = <<>> /\ oldLen' = E.oldLen /\ newLen' = E.newLen
         /\ covered' = {}
         /\ (IF pair >= 0 /\ Points(prog) \ covered # {}
             THEN bad' = Append(bad, [pair |-> pair, line |-> l, class |-> "crash-point-not-exercised", at |-> 0, partial |-> 0, load |-> "", predicted |-> ""])
             ELSE bad' = bad)
         /\ Keep(<<mismatch, ncrash, ncodec, ncorrupt>>)
Sys == /\ E.a = "Sys" /\ l' = l + 1 /\ prog' = Append(prog, [op |-> E.op, x |-> E.x, len |-> E.len, fd |-> E.fd])
       /\ Keep(<<pair, oldLen, newLen, bad, mismatch, ncrash, ncodec, ncorrupt, covered>>)
\* an uninterrupted save must take effect
Final == /\ E.a = "Final" /\ l' = l + 1
         /\ LET pred == Load(RunVol(Start(oldLen), Model(prog), Len(prog)).f, oldLen, newLen) IN
            /\ bad' = IF E.load = "new" THEN bad
                      ELSE Append(bad, [pair |-> pair, line |-> l, class |-> "save-has-no-effect", at |-> 0, partial |-> 0, load |-> E.load, predicted |-> pred])
            /\ mismatch' = IF pred = E.load THEN mismatch ELSE Append(mismatch, [pair |-> pair, line |-> l, at |-> 0, partial |-> 0, load |-> E.load, predicted |-> pred])
         /\ Keep(<<pair, prog, oldLen, newLen, ncrash, ncodec, ncorrupt, covered>>)
Crash == /\ E.a = "Crash" /\ l' = l + 1 /\ ncrash' = ncrash + 1
         /\ LET m == Model(prog)
                pred == Load(KillState(m, oldLen, E.at, E.partial).f, oldLen, newLen)
            IN /\ bad' = IF Atomic(E.load) /\ E.killed THEN bad
                         ELSE Append(bad, [pair |-> pair, line |-> l,
                                           class |-> (IF ~E.killed THEN "child-not-killed" ELSE "load-after-crash:" \o E.load \o "@" \o m[E.at].op \o ":" \o m[E.at].x),
                                           at |-> E.at, partial |-> E.partial, load |-> E.load, predicted |-> pred])
               /\ mismatch' = IF pred = E.load THEN mismatch
                              ELSE Append(mismatch, [pair |-> pair, line |-> l, at |-> E.at, partial |-> E.partial, load |-> E.load, predicted |-> pred])
         /\ covered' = covered \cup {<<E.at, 0>>}
         /\ Keep(<<pair, prog, oldLen, newLen, ncodec, ncorrupt>>)
Codec == /\ E.a = "Codec" /\ l' = l + 1 /\ ncodec' = ncodec + 1
         /\ bad' = IF E.roundtrip THEN bad
                   ELSE Append(bad, [pair |-> -1, line |-> l, class |-> "codec-roundtrip", at |-> E.id, partial |-> 0, load |-> E.err, predicted |-> "same"])
         /\ Keep(<<pair, prog, oldLen, newLen, mismatch, ncrash, ncorrupt, covered>>)
Corrupt == /\ E.a = "Corrupt" /\ l' = l + 1 /\ ncorrupt' = ncorrupt + 1
           /\ bad' = IF E.outcome \in {"ok", "err"} THEN bad
                     ELSE Append(bad, [pair |-> -1, line |-> l, class |-> "decode-" \o E.outcome, at |-> E.i, partial |-> 0, load |-> E.mutation, predicted |-> "ok|err"])
           /\ Keep(<<pair, prog, oldLen, newLen, mismatch, ncrash, ncodec, covered>>)
\* after every crash the next save happens in the same directory, with whatever the dead writer left
\* behind (a temporary file, a partial file): Store is total on every reachable file-system state and
\* Load then returns exactly what was stored
Recover == /\ E.a = "Recover" /\ l' = l + 1
           /\ bad' = IF E.ok THEN bad
                     ELSE Append(bad, [pair |-> pair, line |-> l, class |-> "save-after-crash-not-read-back", at |-> E.at, partial |-> E.partial, load |-> E.detail, predicted |-> "new"])
           /\ Keep(<<pair, prog, oldLen, newLen, mismatch, ncrash, ncodec, ncorrupt, covered>>)
Next == More /\ (Reset \/ Sys \/ Final \/ Crash \/ Recover \/ Codec \/ Corrupt)
Spec == Init /\ [][Next]_tvars
Done == l = Len(Rec) + 1 =>
          JsonSerialize(IOEnv.OUT, [events |-> Len(Rec), crashes |-> ncrash, codecs |-> ncodec, corrupts |-> ncorrupt,
                                    bad |-> bad, mismatch |-> mismatch])
=================================================================================
