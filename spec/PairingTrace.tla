------------------------------ MODULE PairingTrace ------------------------------
(* Trace validation of recorded runs of the REAL PairingStore (directly, and inside a real   *)
(* control endpoint) against Pairing, with the store's real constants.                       *)
(*                                                                                           *)
(* A run (Reset .. next Reset) is one script on one pairing file with one controllable       *)
(* clock.  Every Op event is one step of the script together with everything that was        *)
(* observed after it; the specification is a FUNCTION of the script, so each event is        *)
(* replayed by composing the operations of Pairing in the order the harness performed them:  *)
(*    (request steps) resolve the requester's credential  -- AuthF, itself a store operation *)
(*    gate by the role table                               -- Gate                           *)
(*    the operation proper                                 -- StartF / ClaimF / ...          *)
(*    read the JSON file                                   -- must equal the model's disk    *)
(*    (probe) list(), validate_with_role of every secret, near misses, the file again        *)
(*                                                         -- ListF, RoleIn, disk            *)
(* and every observed projection must equal the model's.  One TLC pass walks the whole file; *)
(* a mismatch puts the run into `bad` with the list of differing projections and the rest of *)
(* that run is skipped up to the next Reset.                                                  *)
(* Codes and tokens are random secrets; the harness names them by order of appearance, which *)
(* is exactly how Pairing names them (k-th code, k-th token).                                 *)
EXTENDS Pairing, Json, IOUtils
Rec == ndJsonDeserialize(IOEnv.TRACE)
VARIABLES l, run, bad, skip, nops, stats
tvars == <<l, run, bad, skip, nops, stats, vars>>
E == Rec[l]
More == l <= Len(Rec)

Tok(j) == [id |-> j.id, tok |-> j.k, role |-> j.role, enabled |-> j.en, exp |-> j.exp, created |-> j.cr]
Toks(js) == [i \in DOMAIN js |-> Tok(js[i])]

\* ------------------------------------------------------------------ the model's account of one event
ViaReq(e) == e.via = "req"
Auth(e, s) == IF ViaReq(e) THEN AuthF(s, [kind |-> e.cred.kind, k |-> e.cred.k]) ELSE [s |-> s, role |-> Admin]
GateOf(e, role) == IF ViaReq(e) THEN Gate(role, e.kind) ELSE "dispatched"
\* the operation proper; a claim whose role string is no role is turned away by the request handler
\* before the store is touched (role 4)
OpF(e, s) ==
  CASE e.op = "Start" -> StartF(s)
    [] e.op = "Claim" -> IF e.role = 4 THEN [s |-> s, r |-> [tok |-> 0, why |-> "badrole"]] ELSE ClaimF(s, e.c, e.role)
    [] e.op = "Validate" -> ValidateF(s, e.k)
    [] e.op = "List" -> ListF(s)
    [] e.op = "Revoke" -> RevokeF(s, e.id)
    [] e.op = "RevokeAll" -> RevokeAllF(s)
    [] e.op = "Tick" -> TickF(s, e.dt)
    [] e.op = "Reload" -> ReloadF(s)
    [] OTHER -> [s |-> s, r |-> [ok |-> TRUE]]          \* Req: some other request kind
\* reply class of a dispatched request: the pair handlers answer a failed claim and an unknown id
\* with an error
ClsOf(e, o) ==
  IF ~ViaReq(e) THEN "api"
  ELSE IF e.op = "Claim" /\ o.r.tok = 0 THEN "error"
  ELSE IF e.op = "Revoke" /\ ~o.r.ok THEN "error"
  ELSE "ok"
NoResult(e) == e.rcode = 0 /\ e.rexp = 0 /\ e.rtok = 0 /\ e.rrole = -1 /\ ~e.rok /\ e.rn = -1 /\ e.items = <<>>
ResultOK(e, o) ==
  CASE e.op = "Start" -> e.rcode = o.r.code /\ e.rexp = o.r.exp
    [] e.op = "Claim" -> e.rtok = o.r.tok
    [] e.op = "Validate" -> e.rrole = o.r.role
    [] e.op = "List" -> Toks(e.items) = o.r.items
    [] e.op = "Revoke" -> e.rok = o.r.ok
    [] e.op = "RevokeAll" -> e.rn = o.r.n
    [] OTHER -> TRUE

\* what kind of step this was (coverage evidence only): the model's reason, and whether the step sat
\* exactly on an expiry boundary
ExpOf(ts, k) == LET hits == {i \in DOMAIN ts : ts[i].tok = k /\ ts[i].enabled} IN
                IF hits = {} THEN -1 ELSE ts[CHOOSE i \in hits : TRUE].exp
TagOf(e, s, g, o) ==
  IF g # "dispatched" THEN {"req:" \o g}
  ELSE (IF ViaReq(e) THEN {"req:dispatched", "req:" \o e.kind} ELSE {})
  \cup (CASE e.op = "Claim" ->
              {"claim:" \o o.r.why}
              \cup (IF o.r.why = "ok" /\ s.pending.exp = s.now THEN {"claim:ok@code-expiry"} ELSE {})
              \cup (IF o.r.why = "ok" /\ s.pending.exp = s.now + 1 THEN {"claim:ok@code-expiry-1"} ELSE {})
              \cup (IF o.r.why = "expired" /\ s.pending.exp + 1 = s.now THEN {"claim:expired@code-expiry+1"} ELSE {})
              \cup (IF o.r.why = "ok" /\ e.role = Admin THEN {"claim:admin-capped"} ELSE {})
              \cup (IF o.r.why = "ok" /\ \E i \in DOMAIN s.tokens : s.tokens[i].id = s.now /\ s.tokens[i].exp >= s.now THEN {"claim:shared-id"} ELSE {})
         [] e.op = "Validate" ->
              (IF o.r.role # NoRole THEN {"validate:valid"} ELSE {"validate:none"})
              \cup (IF o.r.role # NoRole /\ ExpOf(s.tokens, e.k) = s.now THEN {"validate:valid@token-expiry"} ELSE {})
              \cup (IF o.r.role = NoRole /\ ExpOf(s.tokens, e.k) + 1 = s.now THEN {"validate:none@token-expiry+1"} ELSE {})
              \cup (IF o.r.role = NoRole /\ \E i \in DOMAIN o.s.tokens : o.s.tokens[i].tok = e.k /\ ~o.s.tokens[i].enabled THEN {"validate:none-revoked"} ELSE {})
         [] e.op = "Revoke" -> (IF o.r.ok THEN {"revoke:hit"} ELSE {"revoke:miss"})
                               \cup (IF Cardinality({i \in DOMAIN o.s.tokens : o.s.tokens[i].id = e.id}) > 1 THEN {"revoke:shared-id"} ELSE {})
         [] e.op = "RevokeAll" -> (IF o.r.n > 0 THEN {"revoke_all:some"} ELSE {"revoke_all:none"})
         [] e.op = "Reload" -> {"reload"}
                               \cup (IF s.pending.code # 0 THEN {"reload:pending-lost"} ELSE {})
                               \cup (IF s.disk # s.tokens THEN {"reload:file-differs-from-memory"} ELSE {})
                               \cup (IF \E i \in DOMAIN s.disk : s.disk[i].exp = 0 THEN {"reload:legacy-entry"} ELSE {})
         [] e.op = "Start" -> {"start"} \cup (IF s.pending.code # 0 THEN {"start:replaces-pending"} ELSE {})
         [] e.op = "List" -> {"list"}
         [] e.op = "Tick" -> {"tick"}
         [] OTHER -> {})
  \cup (IF Len(Prune(s.tokens, s.now)) # Len(s.tokens) /\ e.op \in {"Claim", "Revoke", "RevokeAll"} /\ o.s.disk = s.disk
        THEN {"prune-without-save"} ELSE {})

\* everything about event e from store s: [s |-> store afterwards, why |-> differing projections, exp |-> what was expected]
Account(e, s) ==
  LET a == Auth(e, s)
      g == GateOf(e, a.role)
      o == IF g = "dispatched" THEN OpF(e, a.s) ELSE [s |-> a.s, r |-> [refused |-> g]]
      s2 == o.s
      cls == IF g = "dispatched" THEN ClsOf(e, o) ELSE g
      lst == ListF(s2)
      s3 == IF e.probe THEN lst.s ELSE s2
      why ==
           (IF e.panic THEN {"panic"} ELSE {})
      \cup (IF e.cls # cls THEN {"class"} ELSE {})
      \cup (IF g = "dispatched" /\ ~ResultOK(e, o) THEN {"result"} ELSE {})
      \cup (IF g # "dispatched" /\ ~NoResult(e) THEN {"result-despite-refusal"} ELSE {})
      \cup (IF e.now # s2.now THEN {"clock"} ELSE {})
      \cup (IF ~e.diskok \/ Toks(e.disk) # s2.disk THEN {"file"} ELSE {})
      \cup (IF e.probe /\ Toks(e.list) # lst.r.items THEN {"list"} ELSE {})
      \cup (IF e.probe /\ (Len(e.vals) # s2.ntok \/ \E k \in 1..s2.ntok : k <= Len(e.vals) /\ e.vals[k] # RoleIn(lst.s.tokens, k))
            THEN {"validate"} ELSE {})
      \cup (IF e.probe /\ e.near # 0 THEN {"near-miss-validates"} ELSE {})
      \cup (IF e.probe /\ Toks(e.disk2) # lst.s.disk THEN {"file-after-probe"} ELSE {})
  IN [s |-> s3, why |-> why, tags |-> TagOf(e, a.s, g, o),
      exp |-> [cls |-> cls, role |-> a.role, r |-> o.r, now |-> s2.now, pending |-> s2.pending,
               vals |-> IF e.probe THEN [k \in 1..s2.ntok |-> RoleIn(lst.s.tokens, k)] ELSE <<>>,
               ntokens |-> Len(s2.tokens), ndisk |-> Len(s2.disk)]]

\* ------------------------------------------------------------------ walking the file
Load(e) == LET seed == Toks(e.seed) IN
  /\ now' = e.now /\ disk' = seed /\ tokens' = Normalize(seed, e.now) /\ pending' = NoPending
  /\ ncode' = 0 /\ ntok' = Len(seed)
Init == /\ l = 1 /\ run = 0 /\ bad = <<>> /\ skip = FALSE /\ nops = 0 /\ stats = [t \in {} |-> 0]
        /\ now = 0 /\ disk = <<>> /\ tokens = <<>> /\ pending = NoPending /\ ncode = 0 /\ ntok = 0
        /\ codes = <<>> /\ issued = <<>> /\ revoked = {}
Mark(why, exp) == bad' = Append(bad, [run |-> run, line |-> l, si |-> E.si, why |-> why, exp |-> exp])
Reset == /\ More /\ E.a = "Reset" /\ l' = l + 1 /\ run' = run + 1 /\ Load(E) /\ UNCHANGED <<nops, stats, hvars>>
         \* the file the run starts from must read back as the seed it was written from
         /\ IF E.diskok /\ Toks(E.disk) = Toks(E.seed) THEN bad' = bad /\ skip' = FALSE
            ELSE /\ bad' = Append(bad, [run |-> run + 1, line |-> l, si |-> E.si, why |-> {"seed-file"}, exp |-> [cls |-> "reset"]])
                 /\ skip' = TRUE
Skip  == /\ More /\ skip /\ E.a # "Reset" /\ l' = l + 1 /\ UNCHANGED <<run, bad, skip, nops, stats, vars>>
Op ==
  /\ More /\ ~skip /\ E.a = "Op" /\ l' = l + 1 /\ run' = run /\ nops' = nops + 1 /\ UNCHANGED hvars
  \* (bound through a singleton set: TLC evaluates the account once, not once per use)
  /\ \E acc \in {Account(E, S)} :
       IF acc.why = {}
       THEN /\ SetStore(acc.s) /\ bad' = bad /\ skip' = FALSE
            /\ \E tags \in {acc.tags} :
                 stats' = [t \in DOMAIN stats \cup tags |->
                             (IF t \in DOMAIN stats THEN stats[t] ELSE 0) + (IF t \in tags THEN 1 ELSE 0)]
       ELSE Mark(acc.why, acc.exp) /\ skip' = TRUE /\ UNCHANGED <<svars, stats>>
Next == More /\ (Reset \/ Skip \/ Op)
Spec == Init /\ [][Next]_tvars
\* verdict, written once the last line has been consumed
Done == l = Len(Rec) + 1 =>
          JsonSerialize(IOEnv.OUT, [runs |-> run, ops |-> nops, events |-> Len(Rec), bad |-> bad, stats |-> stats])
=================================================================================
