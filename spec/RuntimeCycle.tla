------------------------------ MODULE RuntimeCycle ------------------------------
(* One resource of the trust-platform runtime, at the grain of Runtime::execute_cycle     *)
(* (crates/trust-runtime/src/runtime/cycle.rs): driver reads -> latch -> ready tasks (the   *)
(* programs of each, then the FB instances associated with it) -> background programs ->   *)
(* publish -> driver writes, with a fault possible in every phase,                         *)
(* the fault latch, fault policy / watchdog action and the safe-state map.                 *)
(*                                                                                         *)
(* Written from properties C06 (task model), C07 (process image) and C08 (fault halts the  *)
(* resource, safe state), IEC 61131-3 section 2.7.2 and docs/specs/10-runtime.md; shaped   *)
(* like the code: every phase is a pure operator on the state record `s`, so that the     *)
(* fine-grained model (MCRuntimeCycle: a fault between any two steps) and the trace        *)
(* specification's single Cycle step (RuntimeCycleTrace) share one definition.             *)
(*                                                                                         *)
(* The static configuration `cfg` is a VARIABLE fixed by Init/Reset (never a CONSTANT):    *)
(* one model-checking run ranges over a set of configurations and one trace-validation     *)
(* run over hundreds of recorded configurations.                                           *)
EXTENDS Integers, Sequences, FiniteSets, SequencesExt, TLC

\* ----------------------------------- bytes -----------------------------------
Pow2(n) == CASE n = 0 -> 1 [] n = 1 -> 2 [] n = 2 -> 4 [] n = 3 -> 8
             [] n = 4 -> 16 [] n = 5 -> 32 [] n = 6 -> 64 [] n = 7 -> 128
SizeBytes(sz) == CASE sz = "X" -> 1 [] sz = "B" -> 1 [] sz = "W" -> 2 [] sz = "D" -> 4 [] sz = "L" -> 8
\* images are 1-based sequences of 0..255; byte offset b is index b + 1
GetBit(img, b, k) == (img[b + 1] \div Pow2(k)) % 2
SetBit(img, b, k, v) == [img EXCEPT ![b + 1] = @ - GetBit(img, b, k) * Pow2(k) + v * Pow2(k)]
\* an address is [area, size, byte, bit]; a value is the tuple of bytes it occupies
\* (little-endian), or <<0|1>> for a bit
Decode(img, a) == IF a.size = "X" THEN <<GetBit(img, a.byte, a.bit)>>
                  ELSE SubSeq(img, a.byte + 1, a.byte + SizeBytes(a.size))
Encode(img, a, val) ==
  IF a.size = "X" THEN SetBit(img, a.byte, a.bit, val[1])
  ELSE [i \in DOMAIN img |-> IF i > a.byte /\ i <= a.byte + SizeBytes(a.size) THEN val[i - a.byte] ELSE img[i]]
\* the set of <<byte, bit>> positions an address denotes (C07 locality)
Span(a) == IF a.size = "X" THEN {<<a.byte, a.bit>>}
           ELSE {<<b, k>> : b \in a.byte..(a.byte + SizeBytes(a.size) - 1), k \in 0..7}

\* ----------------------------------- state -----------------------------------
\* cfg: [tasks, programs, fbs, bindings, drivers, policy, wd, safe, singles, imgLen]
\*   tasks[i]    = [name, interval, single ("" = none), prio]                  declaration order
\*   programs[j] = [name, task ("" = background), copies = << [from, to] >>]   declaration order
\*   fbs[f]      = [name, prog, task, copies]   FUNCTION_BLOCK instance `name` declared in program
\*                 instance `prog` and associated with `task` by the program configuration
\*                 (PROGRAM prog [WITH t] : Type (inst WITH task, ...)); per program in the order
\*                 of its list; `inst` may be a path (member of another FB instance: g1.f)
\*   bindings[k] = [var, area, size, byte, bit]
\*   drivers[d]  = [off, len]        (the slice of the input image the driver owns)
\*   policy      \in {"halt", "safe_halt", "restart"}      fault policy
\*   wd          \in {"halt", "safe_halt", "restart"}      watchdog action
\*   safe[m]     = [addr |-> [area, size, byte, bit], val]
\*   counters[c] = [name, owner (index of the program that bumps it, 0 = none), fb (index of the
\*                  task-associated FB instance whose member it is, 0 = none),
\*                  scope ("global"|"program"|"fb"), qual ("none"|"retain"|"nonretain"|"persistent"),
\*                  shape, initFrom ("" or the name of a non-retained global counter whose value
\*                  is this program variable's initialiser: `k : INT := g;`)]       (C09)
\*   sinit       = [single variable |-> its declared initial value]
\*   vars0       = initial bytes of every bound variable
\* s:   [now, g, lastAct, lastSingle, overruns, img, vars, cnt, src, drvLog, exec, faulted,
\*       fault, inj, drvFail]
\*   evReset: the one place where the property is silent (a task with both SINGLE and
\*   INTERVAL: does an event activation restart the period?) is a parameter; the trace
\*   specification accepts either reading, consistently per run.

VARIABLES cfg, s
rvars == <<cfg, s>>
TIdx == 1..Len(cfg.tasks)
PIdx == 1..Len(cfg.programs)
FIdx == 1..Len(cfg.fbs)
DIdx == 1..Len(cfg.drivers)

CtrNames(c) == {c.counters[k].name : k \in DOMAIN c.counters}
\* a SINGLE variable that is initially TRUE is not a rising edge: the edge memory starts at
\* the declared initial value (register_task does the same)
Fresh(c, vars0) ==
  [now |-> 0, g |-> c.sinit,
   lastAct |-> [t \in 1..Len(c.tasks) |-> 0],
   lastSingle |-> [t \in 1..Len(c.tasks) |-> c.tasks[t].single # "" /\ c.sinit[c.tasks[t].single]],
   overruns |-> [t \in 1..Len(c.tasks) |-> 0],
   img |-> [I |-> [i \in 1..c.imgLen |-> 0], Q |-> [i \in 1..c.imgLen |-> 0], M |-> [i \in 1..c.imgLen |-> 0]],
   vars |-> vars0, ctr |-> [n \in CtrNames(c) |-> 0],
   src |-> [d \in 1..Len(c.drivers) |-> [i \in 1..c.drivers[d].len |-> 0]],
   drvLog |-> <<>>, exec |-> <<>>, trun |-> <<>>, faulted |-> FALSE, fault |-> "none",
   pendVar |-> <<>>, pendIo |-> <<>>,
   inj |-> [prog |-> "", at |-> 0], drvFail |-> [d |-> 0, op |-> ""]]

\* ------------------------------- scheduling (C06) -------------------------------
HasSingle(t)      == cfg.tasks[t].single # ""
SingleNow(x, t)   == HasSingle(t) /\ x.g[cfg.tasks[t].single]
\* event-driven: on each rising edge of SINGLE (compared with the previous cycle)
EventDue(x, t)    == SingleNow(x, t) /\ ~x.lastSingle[t]
\* periodic: INTERVAL > 0, SINGLE false, at least INTERVAL elapsed since the last activation
PeriodicDue(x, t) == cfg.tasks[t].interval > 0 /\ ~SingleNow(x, t)
                     /\ x.now - x.lastAct[t] >= cfg.tasks[t].interval
DueAt(x, t)       == IF EventDue(x, t) THEN x.now ELSE x.lastAct[t] + cfg.tasks[t].interval
\* ascending PRIORITY number, then earlier due time, then declaration order
Before(x, a, b)   == LET pa == cfg.tasks[a].prio pb == cfg.tasks[b].prio
                         da == DueAt(x, a) db == DueAt(x, b) IN
                       pa < pb \/ (pa = pb /\ da < db) \/ (pa = pb /\ da = db /\ a < b)
Ready(x)          == {t \in TIdx : EventDue(x, t) \/ PeriodicDue(x, t)}
Order(x)          == SortSeq(SetToSeq(Ready(x)), LAMBDA a, b : Before(x, a, b))
\* missed periodic activations are counted as overruns and not replayed
Missed(x, t)      == IF PeriodicDue(x, t) /\ (x.now - x.lastAct[t]) \div cfg.tasks[t].interval > 1
                     THEN (x.now - x.lastAct[t]) \div cfg.tasks[t].interval - 1 ELSE 0
Collect(x, evReset) ==
  [x EXCEPT !.overruns = [t \in TIdx |-> x.overruns[t] + Missed(x, t)],
            !.lastAct = [t \in TIdx |-> IF PeriodicDue(x, t) \/ (evReset /\ EventDue(x, t))
                                        THEN x.now ELSE x.lastAct[t]],
            !.lastSingle = [t \in TIdx |-> SingleNow(x, t)]]

\* --------------------------------- faults (C08) ---------------------------------
RECURSIVE ApplySafe(_, _)
ApplySafe(q, m) == IF m > Len(cfg.safe) THEN q
                   ELSE ApplySafe(Encode(q, cfg.safe[m].addr, cfg.safe[m].val), m + 1)
\* the safe image is offered to EVERY driver, whether or not an earlier one fails
SafeWrites(q) == [d \in DIdx |-> <<d, "write", q>>]
SafeApplies(decision) == decision \in {"policy:safe_halt", "wd:halt", "wd:safe_halt"}
RaiseFault(x, kind, decision) ==
  IF SafeApplies(decision)
  THEN LET q == ApplySafe(x.img.Q, 1) IN
       [x EXCEPT !.img.Q = q, !.drvLog = x.drvLog \o SafeWrites(q), !.faulted = TRUE, !.fault = kind]
  ELSE [x EXCEPT !.faulted = TRUE, !.fault = kind]

\* ------------------------------ process image (C07) ------------------------------
RECURSIVE ReadDrivers(_, _)
ReadDrivers(x, d) ==
  IF d > Len(cfg.drivers) THEN x
  ELSE LET dr == cfg.drivers[d]
           inp == [i \in DOMAIN x.img.I |->
                     IF i > dr.off /\ i <= dr.off + dr.len THEN x.src[d][i - dr.off] ELSE x.img.I[i]]
           x1 == [x EXCEPT !.img.I = inp, !.drvLog = Append(x.drvLog, <<d, "read">>)]
       IN IF x.drvFail.d = d /\ x.drvFail.op = "read" THEN [x1 EXCEPT !.fault = "pending:DriverRead"]
          ELSE ReadDrivers(x1, d + 1)
RECURSIVE Latch(_, _)
Latch(x, k) ==
  IF k > Len(cfg.bindings) THEN x
  ELSE LET b == cfg.bindings[k] IN
       IF b.area \in {"I", "M"} THEN Latch([x EXCEPT !.vars[b.var] = Decode(x.img[b.area], b)], k + 1)
       ELSE Latch(x, k + 1)
RECURSIVE Publish(_, _)
Publish(x, k) ==
  IF k > Len(cfg.bindings) THEN x
  ELSE LET b == cfg.bindings[k] IN
       IF b.area \in {"Q", "M"}
       THEN Publish([x EXCEPT !.img[b.area] = Encode(x.img[b.area], b, x.vars[b.var])], k + 1)
       ELSE Publish(x, k + 1)
RECURSIVE WriteDrivers(_, _)
WriteDrivers(x, d) ==
  IF d > Len(cfg.drivers) THEN x
  ELSE LET x1 == [x EXCEPT !.drvLog = Append(x.drvLog, <<d, "write", x.img.Q>>)] IN
       IF x.drvFail.d = d /\ x.drvFail.op = "write" THEN [x1 EXCEPT !.fault = "pending:DriverWrite"]
       ELSE WriteDrivers(x1, d + 1)

\* ---------------------------------- programs ----------------------------------
\* a program body is a list of copies between bound variables; the injected fault strikes
\* before copy number inj.at (inj.at = Len(copies) + 1: after the last one)
RECURSIVE RunCopies(_, _, _)
RunCopies(x, p, i) ==
  IF x.inj.prog = p.name /\ x.inj.at = i THEN [x EXCEPT !.fault = "pending:Program"]
  ELSE IF i > Len(p.copies) THEN x
  ELSE RunCopies([x EXCEPT !.vars[p.copies[i].to] = x.vars[p.copies[i].from]], p, i + 1)
\* a program first bumps every counter it owns (C09: variables of every qualifier / scope /
\* type shape), then performs its copies
BumpSel(x, Mine(_)) == [x EXCEPT !.ctr = [n \in DOMAIN x.ctr |->
                 IF \E k \in DOMAIN cfg.counters : cfg.counters[k].name = n /\ Mine(cfg.counters[k])
                 THEN x.ctr[n] + 1 ELSE x.ctr[n]]]
Bump(x, j) == BumpSel(x, LAMBDA c : c.owner = j)
RunProgram(x, j) ==
  RunCopies(Bump([x EXCEPT !.exec = Append(x.exec, cfg.programs[j].name)], j), cfg.programs[j], 1)
Pending(x) == x.fault # "none" /\ ~x.faulted
RECURSIVE RunProgs(_, _, _)
\* run the programs (declaration order) selected by sel, stopping at the first fault
RunProgs(x, j, sel) ==
  IF j > Len(cfg.programs) \/ Pending(x) THEN x
  ELSE IF sel[j] THEN RunProgs(RunProgram(x, j), j + 1, sel) ELSE RunProgs(x, j + 1, sel)
TaskSel(t) == [j \in PIdx |-> cfg.programs[j].task = cfg.tasks[t].name]
BgSel      == [j \in PIdx |-> cfg.programs[j].task = ""]

\* ---------------------- FUNCTION_BLOCK instances associated with a task ----------------------
\* IEC 61131-3 6.8.2 e / docs/specs/10-runtime.md 6.2: an FB instance associated with a task
\* executes under that task - once per activation of the task, never when the task is not due,
\* whatever the task (if any) of the program that declares it.  Where the documents are silent
\* the model follows Runtime::execute_task: an activation runs the task's programs first, then
\* its FB instances in declaration order (declaring program, then position in its list).
\* An instance keeps its state between activations (its member counter is bumped by every
\* execution); its body is an item like a program body: executed-log entry, counter, copies,
\* and a fault inside it is a fault of the cycle (C08).
ProgPos(n)     == CHOOSE j \in PIdx : cfg.programs[j].name = n
FbBefore(a, b) == LET pa == ProgPos(cfg.fbs[a].prog) pb == ProgPos(cfg.fbs[b].prog) IN
                    pa < pb \/ (pa = pb /\ a < b)
TaskFbs(t)     == SortSeq(SetToSeq({f \in FIdx : cfg.fbs[f].task = cfg.tasks[t].name}), FbBefore)
RunFb(x, f) ==
  RunCopies(BumpSel([x EXCEPT !.exec = Append(x.exec, cfg.fbs[f].name)], LAMBDA c : c.fb = f), cfg.fbs[f], 1)
RECURSIVE RunFbs(_, _, _)
RunFbs(x, q, i) == IF i > Len(q) \/ Pending(x) THEN x ELSE RunFbs(RunFb(x, q[i]), q, i + 1)
\* one activation of task t: its programs, then its FB instances; a fault ends it
RunTask(x, t) ==
  LET a == RunProgs([x EXCEPT !.trun = Append(x.trun, cfg.tasks[t].name)], 1, TaskSel(t)) IN
  IF Len(cfg.fbs) = 0 THEN a ELSE RunFbs(a, TaskFbs(t), 1)
RECURSIVE RunTasks(_, _, _)
RunTasks(x, ord, i) ==
  IF i > Len(ord) \/ Pending(x) THEN x
  ELSE RunTasks(RunTask(x, ord[i]), ord, i + 1)

\* ------------------------- debugger writes (cycle boundaries only) -------------------------
\* a debugger write never takes effect in the middle of a cycle: variable writes are applied at the
\* start of the next executed cycle (before the drivers are read), writes to the process image after
\* the drivers delivered their inputs and before the latch; a refused cycle leaves them pending
RECURSIVE ApplyVarWrites(_, _)
ApplyVarWrites(x, i) == IF i > Len(x.pendVar) THEN [x EXCEPT !.pendVar = <<>>]
                        ELSE ApplyVarWrites([x EXCEPT !.vars[x.pendVar[i].var] = x.pendVar[i].val], i + 1)
RECURSIVE ApplyIoWrites(_, _)
ApplyIoWrites(x, i) == IF i > Len(x.pendIo) THEN [x EXCEPT !.pendIo = <<>>]
                       ELSE ApplyIoWrites([x EXCEPT !.img[x.pendIo[i].addr.area] = Encode(x.img[x.pendIo[i].addr.area], x.pendIo[i].addr, x.pendIo[i].val)], i + 1)
\* a second write to the same variable before the boundary replaces the first
QueueVarWrite(q, var, val) == IF \E i \in DOMAIN q : q[i].var = var
                              THEN [i \in DOMAIN q |-> IF q[i].var = var THEN [var |-> var, val |-> val] ELSE q[i]]
                              ELSE Append(q, [var |-> var, val |-> val])

\* ---------------------------------- one cycle ----------------------------------
Settle(x) == IF Pending(x) THEN RaiseFault(x, x.fault, "policy:" \o cfg.policy) ELSE x
CycleOf(x0, evReset) ==
  IF x0.faulted THEN [x0 EXCEPT !.exec = <<>>, !.trun = <<>>, !.drvLog = <<>>]    \* refused: nothing changes
  ELSE LET x  == [x0 EXCEPT !.exec = <<>>, !.trun = <<>>, !.drvLog = <<>>]
           a  == ReadDrivers(ApplyVarWrites(x, 1), 1)                IN IF Pending(a) THEN Settle(a) ELSE
       LET b  == Latch(ApplyIoWrites(a, 1), 1)
           ord == Order(b)
           c  == Collect(b, evReset)
           d  == RunTasks(c, ord, 1)                                 IN IF Pending(d) THEN Settle(d) ELSE
       LET e  == RunProgs(d, 1, BgSel)                               IN IF Pending(e) THEN Settle(e) ELSE
       LET f  == Publish(e, 1)
           g2 == WriteDrivers(f, 1)                                  IN Settle(g2)

\* environment actions (operators on the state record; the modules that use them wrap them)
AdvanceOf(x, dt)        == [x EXCEPT !.now = @ + dt]
SetSingleOf(x, v, b)    == [x EXCEPT !.g[v] = b]
SetSrcOf(x, d, bytes)   == [x EXCEPT !.src[d] = bytes]
InjectOf(x, p, at)      == [x EXCEPT !.inj = [prog |-> p, at |-> at]]
FailDriverOf(x, d, op)  == [x EXCEPT !.drvFail = [d |-> d, op |-> op]]
\* faults raised from outside the cycle: watchdog and scripted simulation fault; a resource
\* that is already faulted stays as it is apart from the (re-)delivered safe state
WatchdogOf(x)           == RaiseFault([x EXCEPT !.drvLog = <<>>], "WatchdogTimeout", "wd:" \o cfg.wd)
SimFaultOf(x)           == RaiseFault([x EXCEPT !.drvLog = <<>>], "SimulationFault", "policy:" \o cfg.policy)
DirectWriteOf(x, a, v)  == [x EXCEPT !.img[a.area] = Encode(x.img[a.area], a, v)]
DebugVarWriteOf(x, var, val) == [x EXCEPT !.pendVar = QueueVarWrite(x.pendVar, var, val)]
DebugIoWriteOf(x, a, v)      == [x EXCEPT !.pendIo = Append(x.pendIo, [addr |-> a, val |-> v])]
\* a write through a VAR_ACCESS path reaches the program variable it names
SetAccessOf(x, n, v)    == [x EXCEPT !.ctr[n] = v]

\* --------------------------------- restart (C09) ---------------------------------
Retained(n) == \E k \in DOMAIN cfg.counters : cfg.counters[k].name = n /\ cfg.counters[k].qual \in {"retain", "persistent"}
\* warm: every RETAIN / PERSISTENT variable keeps its value, every other variable gets its
\* declared initial value; cold: everything as in a newly built runtime.  Clock, task state,
\* fault latch restart; the static configuration (bindings, access paths, task associations)
\* is untouched, so nothing can come loose.  The raw images keep their bytes until the next
\* cycle rewrites them (a fresh runtime starts from zero images; see PowerCycleOf).
\* A variable whose initialiser reads a global gets that global's value AFTER the globals were
\* (re-)initialised: initialisation order is globals first, then program variables, at start-up and at
\* every restart alike (the source global is never retained, so it restarts at its own initial value).
InitFrom(n) == LET k == CHOOSE k \in DOMAIN cfg.counters : cfg.counters[k].name = n IN cfg.counters[k].initFrom
RestartOf(x, mode) ==
  LET f == Fresh(cfg, cfg.vars0)
      kept(n) == IF mode = "warm" /\ Retained(n) THEN x.ctr[n] ELSE 0
  IN
  [f EXCEPT !.ctr = [n \in DOMAIN x.ctr |-> IF mode = "warm" /\ Retained(n) THEN x.ctr[n]
                                            ELSE IF InitFrom(n) # "" THEN kept(InitFrom(n)) ELSE 0],
            !.img = x.img, !.src = x.src, !.drvFail = x.drvFail, !.pendVar = x.pendVar, !.pendIo = x.pendIo]
\* save, new process, load: the same variables survive as in a warm restart
\* (a new process has a new debugger: nothing pending)
PowerCycleOf(x) == [RestartOf(x, "warm") EXCEPT !.img = Fresh(cfg, cfg.vars0).img, !.pendVar = <<>>, !.pendIo = <<>>]
=================================================================================
