-------------------------------- MODULE MCHirDb --------------------------------
(* Design-level model checking of HirDb: every history of set / remove / re-add / query    *)
(* up to MaxOps operations over a small catalogue of cross-referencing contents (a         *)
(* function declared in one content and called in another, the same function declared with *)
(* another type, a type used across files, an empty content).  The invariants are the      *)
(* property statements of C13 written against the observation of the last operation.       *)
(* The same instance exports the histories it explores as scripts for the real database    *)
(* (spec -> implementation direction, see Export), and three seeded slips of the           *)
(* bookkeeping (SpecBadRemove, ..) show that the invariants can fail (vacuity guard).      *)
EXTENDS HirDb, Json

CONSTANTS MaxOps, NFiles, QKinds, CatSet, ExportScripts

VARIABLES hist,   \* script so far (observation only; hidden from the fingerprint by View)
          nops
mvars == <<cfg, d, obs, seen, hist, nops>>
\* revision / synced only matter through their equality
View == <<cfg, [d EXCEPT !.revision = 0, !.synced = IF d.synced = d.revision THEN 0 ELSE 1], obs, seen, nops>>

D(n, ty) == [n |-> n, ty |-> ty]
C(shape, decls, refs) == [shape |-> shape, decls |-> decls, refs |-> refs, opaque |-> FALSE]
\* the small catalogue (exhaustive runs)
CatSmall == << C("ok", {D("Fn1", "INT")}, {}),
               C("ok", {}, {"Fn1", "Ty1"}),
               C("ok", {D("Fn1", "BOOL"), D("Ty1", "INT")}, {"Fn1"}),
               C("empty", {}, {}) >>
\* the larger catalogues (simulation / export)
CatLarge == << C("ok", {D("Fn1", "INT")}, {"Fn2"}),
               C("ok", {}, {"Fn1", "Fn2", "Ty1"}),
               C("ok", {D("Fn1", "BOOL"), D("Ty1", "INT")}, {"Fn1", "Ty1"}),
               C("empty", {}, {}),
               C("ok", {D("Fn2", "DINT"), D("Ty1", "BOOL")}, {"Fn1"}),
               C("broken", {}, {}),
               C("ok", {D("Fn1", "INT"), D("Fn2", "INT")}, {}),
               C("ok", {}, {"Fn1"}) >>
CatDup ==   << C("ok", {D("Fn1", "INT"), D("Ty1", "INT")}, {"Fn1", "Ty1"}),
               C("ok", {D("Fn1", "DINT"), D("Ty1", "BOOL")}, {"Fn1", "Ty1"}),
               C("ok", {}, {"Fn1", "Fn2", "Ty1"}),
               C("ok", {D("Fn2", "BOOL")}, {"Fn2"}),
               C("ok", {D("Fn2", "BOOL")}, {"Fn2"}),
               C("broken", {}, {}) >>
CatOf(name) == CASE name = "small" -> CatSmall [] name = "large" -> CatLarge [] name = "dup" -> CatDup
Cfg(name, n) == [cat |-> CatOf(name), files |-> 1..n, names |-> {"Fn1", "Fn2", "Ty1"}, fnames |-> {"Fn1", "Fn2"}]
Configs == {Cfg(c, n) : c \in CatSet, n \in NFiles}

Init == /\ \E c \in Configs : InitWith(c)
        /\ hist = <<>> /\ nops = 0
Step(ev) == nops < MaxOps /\ nops' = nops + 1 /\ hist' = Append(hist, ev)
SetStep(f, t) == SetText(f, t) /\ Step([a |-> "Set", f |-> f, t |-> t])
\* the three code paths of set_source_text as separate actions (action coverage = vacuity guard)
SetEqualText == \E f \in Files, t \in Texts : SetPath(d, f, t) = "equal-text" /\ SetStep(f, t)
SetExistingInput == \E f \in Files, t \in Texts : SetPath(d, f, t) = "existing-input" /\ SetStep(f, t)
SetNewInput == \E f \in Files, t \in Texts : SetPath(d, f, t) = "new-input" /\ SetStep(f, t)
RemovePresent == \E f \in Files : d.sources[f] # NoText /\ RemoveText(f) /\ Step([a |-> "Remove", f |-> f])
RemoveAbsent == \E f \in Files : d.sources[f] = NoText /\ RemoveText(f) /\ Step([a |-> "Remove", f |-> f])
DoQuery == \E f \in Files, k \in QKinds : Query(k, f) /\ Step([a |-> "Query", kind |-> k, f |-> f])
Next == SetEqualText \/ SetExistingInput \/ SetNewInput \/ RemovePresent \/ RemoveAbsent \/ DoQuery
Spec == Init /\ [][Next]_mvars

Export == (ExportScripts /\ nops = MaxOps) =>
            PrintT(<<"SCRIPT", ToJson([nfiles |-> Cardinality(cfg.files), cat |-> cfg.cat, steps |-> hist])>>)

\* ---- seeded slips: each must make AnswerEqualsFresh fail (the invariant is not vacuous)
\* remove_source_text forgets the salsa side (input kept, project not re-synced)
BadRemove == \E f \in Files :
   /\ d.sources[f] # NoText
   /\ d' = [d EXCEPT !.sources = [d.sources EXCEPT ![f] = NoText], !.revision = d.revision + 1, !.synced = d.revision + 1]
   /\ obs' = [op |-> "Remove", path |-> "present"] /\ seen' = NoSeen /\ UNCHANGED cfg
   /\ Step([a |-> "Remove", f |-> f])
\* set_source_text of a new file forgets sync_project_inputs
BadAdd == \E f \in Files, t \in Texts :
   /\ d.sources[f] = NoText /\ d.project.some
   /\ d' = [d EXCEPT !.sources = [d.sources EXCEPT ![f] = t], !.inputs = [d.inputs EXCEPT ![f] = t],
                     !.revision = d.revision + 1, !.synced = d.revision + 1]
   /\ obs' = [op |-> "Set", path |-> "new-input"] /\ seen' = NoSeen /\ UNCHANGED cfg
   /\ Step([a |-> "Set", f |-> f, t |-> t])
\* set_source_text of an existing file forgets to update the salsa input
BadEdit == \E f \in Files, t \in Texts :
   /\ d.sources[f] # NoText /\ d.sources[f] # t
   /\ d' = [d EXCEPT !.sources = [d.sources EXCEPT ![f] = t], !.revision = d.revision + 1, !.synced = d.revision + 1]
   /\ obs' = [op |-> "Set", path |-> "existing-input"] /\ seen' = NoSeen /\ UNCHANGED cfg
   /\ Step([a |-> "Set", f |-> f, t |-> t])
SpecBadRemove == Init /\ [][Next \/ BadRemove]_mvars
SpecBadAdd == Init /\ [][Next \/ BadAdd]_mvars
SpecBadEdit == Init /\ [][Next \/ BadEdit]_mvars
=================================================================================
