-------------------------------- MODULE DocSync --------------------------------
(* LSP text synchronisation (property C14): the editor and the language server must hold   *)
(* the same document text after every notification, so that every position in an answer    *)
(* refers to the editor's text.                                                            *)
(*                                                                                         *)
(* Written from the property text and the LSP 3.17 specification (Position, Range,         *)
(* TextDocumentContentChangeEvent, didOpen / didChange):                                   *)
(*   - a text is a sequence of Unicode code points; a position is (line, column); lines    *)
(*     are separated by "\n", a "\r" directly before it belongs to the line break; the     *)
(*     column counts UTF-16 code units (no positionEncoding is negotiated), so a code      *)
(*     point above U+FFFF is two columns wide;                                             *)
(*   - a column greater than the line length defaults back to the line length;             *)
(*   - the changes of one didChange notification apply one after the other, each to the    *)
(*     text its predecessors produced; a change without a range replaces the whole text.   *)
(* Shaped like the code (crates/trust-lsp/src/handlers/sync.rs, lsp_utils.rs,              *)
(* state/documents.rs): one operator per code phase -- did_open stores the text, did_change *)
(* folds position_to_offset(start), position_to_offset(end), splice over the changes and   *)
(* then stores the result -- and every phase is a pure operator on the state record `d`,   *)
(* so that the fine-grained model (MCDocSync: editor and server interleaved over a FIFO    *)
(* channel) and the trace specification's single step per notification (DocSyncTrace)      *)
(* share one definition.                                                                   *)
(*                                                                                         *)
(* ServerUnit names what ONE COLUMN means to the server.  "utf16" is the protocol; "char"  *)
(* (one column per code point) and "byte" (one per UTF-8 byte) are the slips the property  *)
(* is about; MCDocSync shows that InSync fails for them.                                   *)
EXTENDS Integers, Sequences, FiniteSets, TLC

CONSTANT ServerUnit

NL == 10
CR == 13
W16(cp) == IF cp > 65535 THEN 2 ELSE 1
W8(cp) == IF cp < 128 THEN 1 ELSE IF cp < 2048 THEN 2 ELSE IF cp < 65536 THEN 3 ELSE 4
ColW(u, cp) == CASE u = "utf16" -> W16(cp) [] u = "char" -> 1 [] u = "byte" -> W8(cp)

\* ----------------------------------- lines -----------------------------------
\* Indices are 1-based and denote the boundary BEFORE the code point; Len(t) + 1 is the end.
\* (Written with set comprehensions rather than recursion over the text: documents in recorded
\* traces are a few hundred code points long.)
NLs(t) == {j \in 1..Len(t) : t[j] = NL}
Min(S) == CHOOSE x \in S : \A y \in S : x <= y
Max(S) == CHOOSE x \in S : \A y \in S : x >= y
NumLines(t) == 1 + Cardinality(NLs(t))
\* first index of line n (lines count from 0); 0: the text has no line n
LineStart(t, n) == IF n = 0 THEN 1
                   ELSE LET S == NLs(t) IN
                        IF Cardinality(S) < n THEN 0
                        ELSE 1 + (CHOOSE j \in S : Cardinality({k \in S : k < j}) = n - 1)
NextNL(t, i) == LET S == {j \in i..Len(t) : t[j] = NL} IN IF S = {} THEN Len(t) + 1 ELSE Min(S)
\* end of the line content: before "\n", and before a "\r" that directly precedes it
ContentEnd(t, s) == LET e == NextNL(t, s) IN IF e <= Len(t) /\ e > s /\ t[e - 1] = CR THEN e - 1 ELSE e
EndsWithCRLF(t, s) == ContentEnd(t, s) # NextNL(t, s)

\* ------------------------------ position <-> index ---------------------------
RECURSIVE Walk(_, _, _, _, _)
\* advance from index i until `col` columns are consumed or the line content ends
\* (a column past the content clamps; a column inside a surrogate pair rounds up)
Walk(u, t, i, stop, col) == IF i >= stop \/ col <= 0 THEN i ELSE Walk(u, t, i + 1, stop, col - ColW(u, t[i]))
ToIndexU(u, t, line, col) == LET s == LineStart(t, line) IN Walk(u, t, s, ContentEnd(t, s), col)
ToIndex(t, line, col) == ToIndexU("utf16", t, line, col)
\* UTF-16 code units between two indices of one line
Units16(t, a, b) == (b - a) + Cardinality({j \in a..(b - 1) : t[j] > 65535})
\* the line an index is on starts after the last "\n" before it
LineStartOf(t, i) == LET S == {j \in 1..(i - 1) : t[j] = NL} IN IF S = {} THEN 1 ELSE Max(S) + 1
ToPos(t, i) == <<Cardinality({j \in 1..(i - 1) : t[j] = NL}), Units16(t, LineStartOf(t, i), i)>>
LineUnits(t, s) == Units16(t, s, ContentEnd(t, s))               \* UTF-16 length of the line content

\* an editor cannot put its cursor between "\r" and "\n"
CursorOK(t, i) == i \in 1..(Len(t) + 1) /\ ~(i > 1 /\ i <= Len(t) /\ t[i - 1] = CR /\ t[i] = NL)
\* a "\r" that is not part of "\r\n" is a line break for the protocol but editors normalise it
\* away; the specification says nothing about texts that contain one
HasLoneCR(t) == \E j \in 1..Len(t) : t[j] = CR /\ (j = Len(t) \/ t[j + 1] # NL)

\* how a logged position relates to the text (trace level; "exact" is the only class the
\* property pins down on a "\r\n" line, see DocSyncTrace)
PosClass(t, line, col) ==
  LET s == LineStart(t, line) IN
    IF s = 0 THEN "no-such-line"
    ELSE IF col > LineUnits(t, s) THEN (IF EndsWithCRLF(t, s) THEN "past-end-crlf" ELSE "past-end")
    ELSE IF ToPos(t, Walk("utf16", t, s, ContentEnd(t, s), col)) # <<line, col>> THEN "inside-pair"
    ELSE "exact"

\* ----------------------------------- changes ---------------------------------
\* a change is [full, l1, c1, l2, c2, text]; the range fields are meaningless when full
Splice(t, a, b, new) == SubSeq(t, 1, a - 1) \o new \o SubSeq(t, b, Len(t))
ChangeU(u, t, ch) == IF ch.full THEN ch.text
                     ELSE Splice(t, ToIndexU(u, t, ch.l1, ch.c1), ToIndexU(u, t, ch.l2, ch.c2), ch.text)
RECURSIVE ChangesU(_, _, _)
ChangesU(u, t, chs) == IF chs = <<>> THEN t ELSE ChangesU(u, ChangeU(u, t, Head(chs)), Tail(chs))
\* what a didChange notification MEANS (the editor's side of the contract)
Meaning(t, chs) == ChangesU("utf16", t, chs)
WellFormed(t, ch) == ch.full \/ (/\ LineStart(t, ch.l1) # 0 /\ LineStart(t, ch.l2) # 0
                                 /\ ToIndex(t, ch.l1, ch.c1) <= ToIndex(t, ch.l2, ch.c2))
FullChange(t) == [full |-> TRUE, l1 |-> 0, c1 |-> 0, l2 |-> 0, c2 |-> 0, text |-> t]
\* the editor replaced [a, b) by `new` in text t and reports it; sa / sb > 0 model an editor
\* that reports a column past the line end (allowed where the index is the content end)
Report(t, a, b, new, sa, sb) == LET pa == ToPos(t, a) pb == ToPos(t, b) IN
  [full |-> FALSE, l1 |-> pa[1], c1 |-> pa[2] + sa, l2 |-> pb[1], c2 |-> pb[2] + sb, text |-> new]
AtContentEnd(t, i) == i = ContentEnd(t, LineStartOf(t, i))

\* ----------------------------------- state -----------------------------------
\* d = [editor  : the text the editor holds,
\*      outbox  : changes made since the last notification (one didChange may carry several),
\*      chan    : notifications in flight, FIFO (stdio): [kind, text, changes, after],
\*      server  : the text the server analyses (Document.content = the project's source text),
\*      mirror  : ghost -- the editor's text as of the last notification the server processed,
\*      opened]
VARIABLE d
Closed == [editor |-> <<>>, outbox |-> <<>>, chan |-> <<>>, server |-> <<>>, mirror |-> <<>>, opened |-> FALSE]
Note(kind, text, changes, after) == [kind |-> kind, text |-> text, changes |-> changes, after |-> after]

EditorOpenOf(x, t) == [x EXCEPT !.editor = t, !.opened = TRUE, !.outbox = <<>>,
                                !.chan = Append(@, Note("open", t, <<>>, t))]
EditorEditOf(x, a, b, new, sa, sb) == [x EXCEPT !.editor = Splice(@, a, b, new),
                                                !.outbox = Append(@, Report(x.editor, a, b, new, sa, sb))]
EditorReplaceOf(x, t) == [x EXCEPT !.editor = t, !.outbox = Append(@, FullChange(t))]
EditorFlushOf(x) == [x EXCEPT !.outbox = <<>>, !.chan = Append(@, Note("change", <<>>, x.outbox, x.editor))]
\* trace level: the editor made whatever edits the logged notification denotes, and sent it
EditorSendOf(x, chs) == LET after == Meaning(x.editor, chs) IN
                        [x EXCEPT !.editor = after, !.chan = Append(@, Note("change", <<>>, chs, after))]
\* did_open / did_change: the next notification is taken off the wire and applied as a whole
ServerStepOf(x) == LET m == Head(x.chan) IN
                   [x EXCEPT !.chan = Tail(@), !.mirror = m.after,
                             !.server = IF m.kind = "open" THEN m.text ELSE ChangesU(ServerUnit, @, m.changes)]

EditorOpen(t) == ~d.opened /\ d' = EditorOpenOf(d, t)
EditorEdit(a, b, new, sa, sb) ==
  /\ d.opened /\ CursorOK(d.editor, a) /\ CursorOK(d.editor, b) /\ a <= b
  /\ (sa > 0 => AtContentEnd(d.editor, a)) /\ (sb > 0 => AtContentEnd(d.editor, b))
  /\ d' = EditorEditOf(d, a, b, new, sa, sb)
EditorReplace(t) == d.opened /\ d' = EditorReplaceOf(d, t)
EditorFlush == d.outbox # <<>> /\ d' = EditorFlushOf(d)
ServerStep == d.chan # <<>> /\ d' = ServerStepOf(d)

\* --------------------------------- properties --------------------------------
\* after every notification the server analyses the text the editor held when it sent it
InSync == d.server = d.mirror
\* nothing in flight, nothing unsent: the two texts are the same, so a position in an answer
\* given now refers to the editor's text
QuiescentAgree == (d.chan = <<>> /\ d.outbox = <<>>) => d.server = d.editor
\* offset -> position -> offset is the identity on every boundary a cursor can be at
RoundTripOn(t) == \A i \in 1..(Len(t) + 1) : CursorOK(t, i) => LET p == ToPos(t, i) IN ToIndex(t, p[1], p[2]) = i
RoundTrip == RoundTripOn(d.editor)
\* position -> offset -> position is the identity on every exact position
PosRoundTripOn(t) == \A i \in 1..(Len(t) + 1) : CursorOK(t, i) =>
                        LET p == ToPos(t, i) IN PosClass(t, p[1], p[2]) = "exact" /\ ToPos(t, ToIndex(t, p[1], p[2])) = p
\* everything in flight is well formed for the text it will be applied to, and means the edit made
RECURSIVE AllWellFormed(_, _)
AllWellFormed(t, chs) == chs = <<>> \/ (WellFormed(t, Head(chs)) /\ AllWellFormed(ChangeU("utf16", t, Head(chs)), Tail(chs)))
RECURSIVE ChanOK(_, _)
ChanOK(t, ch) == ch = <<>> \/ LET m == Head(ch) IN
                   /\ (m.kind = "change" => AllWellFormed(t, m.changes) /\ Meaning(t, m.changes) = m.after)
                   /\ (m.kind = "open" => m.text = m.after)
                   /\ ChanOK(m.after, Tail(ch))
ReportsFaithful == ChanOK(d.mirror, d.chan)
                   /\ LET base == IF d.chan = <<>> THEN d.mirror ELSE d.chan[Len(d.chan)].after IN
                        AllWellFormed(base, d.outbox) /\ Meaning(base, d.outbox) = d.editor
=================================================================================
