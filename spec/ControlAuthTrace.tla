---------------------------- MODULE ControlAuthTrace ----------------------------
(* Trace validation of recorded request / reply exchanges with the REAL control endpoint   *)
(* against ControlAuth.                                                                    *)
(*                                                                                         *)
(* A run (Reset .. next Reset) is ONE request line sent under a list of credentials to an  *)
(* endpoint with one configuration.  The role table is a parameter of ControlAuth, so the  *)
(* run's table row is OBSERVED from the run itself (Reset looks ahead over its n events):  *)
(*     req = the least role that was let through to the handler (ok reply, state change,   *)
(*           data), each credential counted with the highest role the property allows it;  *)
(*     mut = some exchange of the run changed a state probe.                               *)
(* The specification then demands that this is an admissible table row (TableOK: mutating  *)
(* => more than viewer) and that EVERY exchange of the run is an outcome ControlAuth       *)
(* allows for that row: refusals are inert and carry no data, credentials without a role   *)
(* are refused when a token is configured, debug-class kinds are refused while debugging   *)
(* is off, whatever a role may do every higher role may do, a line that is no request gets *)
(* an error reply, and the endpoint never crashes.                                         *)
(*                                                                                         *)
(* The specification is a function of the events, so one TLC pass walks the whole file;    *)
(* a mismatch puts the run into `bad` and the rest of that run is skipped up to the next   *)
(* Reset.                                                                                  *)
EXTENDS ControlAuth, Json, IOUtils
Rec == ndJsonDeserialize(IOEnv.TRACE)
VARIABLES l, run, bad, skip, nreq, nhang
tvars == <<l, run, bad, skip, nreq, nhang, cvars>>
E == Rec[l]
More == l <= Len(Rec)

\* A request whose handler was entitled to run but never answered (the serving thread is
\* positively wedged on one of the endpoint's own locks) is a liveness defect of that handler;
\* property C18 is about who may perform what and about malformed input, so such an exchange
\* is counted (nhang) and reported by the driver but is not a violation of C18.  Where a
\* refusal is the only allowed outcome a missing reply IS a violation.
HangIsViolation == FALSE

\* ------------------------------------------------------------------ observation
Changed(e) == e.changed # <<>>
Performed(e) == e.ok \/ Changed(e) \/ e.hasData
Answered(e) == e.reply /\ e.json
Crashed(e) == e.panic \/ (~e.reply /\ ~e.hang)
\* the role of a credential where the property determines it (NoRole otherwise)
Determined(e, token) == Cardinality(RolesOf(e.cred, token)) = 1 /\ RolesOf(e.cred, token) # {NoRole}
TheRole(e, token) == CHOOSE r \in RolesOf(e.cred, token) : TRUE
GateWords == {"unauthorized", "forbidden", "debug_disabled"}     \* wording of the gate refusals

\* the run's table row, observed over its events Rec[l0 + 1 .. l0 + n].
\* A request was let through the gates when it was performed, or when its handler demonstrably
\* ran (and then wedged).  Every such exchange bounds the required role from above by the
\* highest role its credential may have; the observed threshold is the largest value that all
\* of them allow (any smaller value would only demand more of the higher roles).
RunIdx(l0) == (l0 + 1)..(l0 + Rec[l0].n)
MinOf(S) == CHOOSE x \in S : \A y \in S : x <= y
MaxOf(S) == CHOOSE x \in S : \A y \in S : x >= y
LetThrough(e) == Performed(e) \/ e.hang
ObservedReq(l0, token) ==
  LET through == {j \in RunIdx(l0) : Rec[j].wf # "no" /\ LetThrough(Rec[j]) /\ RolesOf(Rec[j].cred, token) # {NoRole}}
      bounds == {MaxOf(RolesOf(Rec[j].cred, token)) : j \in through}
  IN IF bounds = {} THEN Nobody ELSE MinOf(bounds)
ObservedMut(l0) == \E i \in RunIdx(l0) : Changed(Rec[i])
ConfigOf(l0) ==
  [token |-> Rec[l0].cfg.token, debug |-> Rec[l0].cfg.debug,
   tbl |-> (Rec[l0].k :> [t |-> Rec[l0].t, req |-> ObservedReq(l0, Rec[l0].cfg.token), mut |-> ObservedMut(l0)])]

\* ------------------------------------------------------------------ acceptance
K == CHOOSE k \in Kinds : TRUE          \* the run's one request kind
\* does the recorded exchange e realise outcome o ?
Realises(e, o) ==
  IF o \in Refusals
  THEN Answered(e) /\ ~e.panic /\ ~e.ok /\ ~Changed(e) /\ ~e.hasData
  ELSE /\ ~Crashed(e) /\ ~(e.hang /\ HangIsViolation)
       /\ (e.reply => e.json)
       /\ e.cls \notin GateWords                       \* a sufficient role is not turned away by a gate
Expected(e) == Outcomes(K, e.cred, e.wf)
\* constraints that hold whatever the outcome
\*  - state never changes under the viewer role (the event-level face of TableOK)
\*  - a refusal that names the role it requires is only given to a lower role
Always(e) ==
  /\ (Determined(e, cfg.token) /\ TheRole(e, cfg.token) = Viewer => ~Changed(e))
  /\ (Determined(e, cfg.token) /\ e.cls = "forbidden" /\ e.decl >= 0 => TheRole(e, cfg.token) < e.decl)
Accepted(e) == Always(e) /\ \E o \in Expected(e) : Realises(e, o)

\* why an exchange is rejected (names the failing clause of the property)
OnlyRefusals(e) == Expected(e) \subseteq Refusals
Why(e) ==
     (IF Crashed(e) THEN {"crash"} ELSE {})
  \cup (IF ~Crashed(e) /\ ~e.reply /\ OnlyRefusals(e) THEN {"no-error-reply"} ELSE {})
  \cup (IF e.hang /\ HangIsViolation /\ ~OnlyRefusals(e) THEN {"handler-hang"} ELSE {})
  \cup (IF e.reply /\ ~e.json THEN {"garbled-reply"} ELSE {})
  \cup (IF OnlyRefusals(e) /\ Changed(e) THEN {"effect-without-permission"} ELSE {})
  \cup (IF OnlyRefusals(e) /\ (e.ok \/ e.hasData) THEN {"data-without-permission"} ELSE {})
  \cup (IF Expected(e) = {"dispatched"} /\ e.cls \in GateWords THEN {"refused-despite-sufficient-role"} ELSE {})
  \cup (IF Determined(e, cfg.token) /\ TheRole(e, cfg.token) = Viewer /\ Changed(e) THEN {"viewer-changed-state"} ELSE {})
  \cup (IF Determined(e, cfg.token) /\ e.cls = "forbidden" /\ e.decl >= 0 /\ TheRole(e, cfg.token) >= e.decl
        THEN {"refused-below-declared-role"} ELSE {})
  \cup (IF ~OnlyRefusals(e) /\ e.cls \in GateWords /\ Performed(e) THEN {"refusal-with-effect"} ELSE {})
WhyOr(e) == IF Why(e) = {} THEN {"unexplained"} ELSE Why(e)
\* the single outcome the specification allowed, for the report ("open" if several were)
Gist(e) == IF Cardinality(Expected(e)) = 1 THEN CHOOSE o \in Expected(e) : TRUE ELSE "open"

Mark(why, c, exp) == bad' = Append(bad, [run |-> run, line |-> l, why |-> why, kind |-> K, t |-> TypeOf(K), c |-> c, exp |-> exp,
                                          req |-> Required(K), mut |-> Mutating(K)])

\* ------------------------------------------------------------------ walking the file
Load(l0) == /\ cfg' = ConfigOf(l0) /\ pc' = "idle" /\ cur' = Idle /\ eff' = {} /\ out' = NoReply
Init == /\ l = 2 /\ run = 1 /\ bad = <<>> /\ nreq = 0 /\ nhang = 0
        /\ Rec[1].a = "Reset" /\ 1 + Rec[1].n <= Len(Rec)
        /\ cfg = ConfigOf(1) /\ pc = "idle" /\ cur = Idle /\ eff = {} /\ out = NoReply
        \* an inadmissible first table row is reported when the run's first event is read
        /\ skip = FALSE
\* the property's constraint on the table: a kind observed to change state is not available to viewers
RowOK(c) == TableOK(c.tbl)
Reset == /\ More /\ E.a = "Reset" /\ l + E.n <= Len(Rec)
         /\ Load(l) /\ l' = l + 1 /\ run' = run + 1 /\ skip' = FALSE /\ UNCHANGED <<bad, nreq, nhang>>
Skip  == /\ More /\ skip /\ E.a # "Reset" /\ l' = l + 1 /\ UNCHANGED <<run, bad, skip, nreq, nhang, cvars>>
Req ==
  /\ More /\ ~skip /\ E.a = "Req" /\ l' = l + 1 /\ run' = run /\ nreq' = nreq + 1
  /\ nhang' = nhang + (IF E.hang THEN 1 ELSE 0)
  /\ UNCHANGED <<cfg, pc, cur>>
  /\ IF E.wf # "no" /\ ~RowOK(cfg)
     THEN \* reported once per run, at its first event
          /\ Mark({"mutating-kind-open-to-viewer"}, "table", "table") /\ skip' = TRUE /\ UNCHANGED <<eff, out>>
     ELSE IF Accepted(E)
     THEN /\ bad' = bad /\ skip' = FALSE
          /\ out' = [k |-> K, cred |-> E.cred, wf |-> E.wf, role |-> NoRole, outcome |-> E.cls, changed |-> Changed(E), data |-> E.hasData]
          /\ eff' = (IF Changed(E) THEN eff \cup {<<K, E.c>>} ELSE eff)
     ELSE /\ Mark(WhyOr(E), E.c, Gist(E)) /\ skip' = TRUE /\ UNCHANGED <<eff, out>>

Next == More /\ (Reset \/ Skip \/ Req)
Spec == Init /\ [][Next]_tvars
\* verdict, written once the last line has been consumed
Done == l = Len(Rec) + 1 =>
          JsonSerialize(IOEnv.OUT, [runs |-> run, reqs |-> nreq, hangs |-> nhang, events |-> Len(Rec), bad |-> bad])
=================================================================================
