SPECIFICATION Spec
CONSTANTS
  Mode = "all"
  NScopes = 2
  NameSeq <- Names2
  MaxDecls = 2
  MaxRefs = 1
  MaxReqs = 0
  ExportScripts = FALSE
  AllowHomonyms = TRUE
VIEW View
CHECK_DEADLOCK FALSE
INVARIANTS
  DeclScopeSuffices
