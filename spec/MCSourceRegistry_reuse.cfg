SPECIFICATION Spec
CONSTANTS
  Keys = {k1, k2, k3, k4}
  Texts = {t1, t2}
  MaxId = 7
  ReuseLowered = TRUE
INVARIANTS TypeOK Injective
CONSTRAINT Bound
CHECK_DEADLOCK FALSE
