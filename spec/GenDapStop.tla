------------------------------- MODULE GenDapStop -------------------------------
(* Script exporter for the DAP stop path: the client's half of behaviours of MCDapStop      *)
(* (which request it sent, and where it had seen a stopped event before going on), sampled   *)
(* by TLC's simulator.  The harness replays "send" as a request and "stopped" as "wait for a *)
(* stopped event"; the real threads choose the rest of the interleaving.                     *)
EXTENDS MCDapStop, Json
VARIABLE hist
gvars == <<vars, hist>>
GInit == \E e \in BOOLEAN, n \in {0, 1} : InitWith(e, n, n) /\ hist = <<[op |-> "init", cmd |-> (IF e THEN "entry" ELSE ""), n |-> n]>>
GNext == \/ \E c \in Cmds : nreq < MaxReqs /\ Len(inq) < MaxQueued /\ Send(c[1], 1, c[2])
                            /\ hist' = Append(hist, [op |-> "send", cmd |-> c[1], n |-> c[2]])
         \/ Recv /\ hist' = (IF Head(wire).kind = "stopped" THEN Append(hist, [op |-> "stopped", cmd |-> "", n |-> 0]) ELSE hist)
         \/ (Main \/ Cycle \/ Coord) /\ UNCHANGED hist
GSpec == GInit /\ [][GNext]_gvars
Export == (nreq = MaxReqs /\ inq = <<>> /\ mpc = "idle" /\ wire = <<>>)
            => PrintT(<<"SCRIPT", ToJson(hist)>>)
=================================================================================
