SPECIFICATION TSpec
CONSTANTS
  Threads = {1, 2}
  Dev = {"gateAnyOrder", "cycleUnobserved"}
  LenientGenDrop = TRUE
  LenientOrder = TRUE
CONSTRAINT HighWater
POSTCONDITION Post
CHECK_DEADLOCK FALSE
