SPECIFICATION Spec
CONSTANTS
  Kinds = {"TP", "CTUD", "F_TRIG", "RS"}
  DTs = {0, 2}
  PTs <- MCPTs
  PVs = {0, 2}
  MaxLen = 3
  NInst = 2
  Lo <- MCLo
  Hi = 2
  ExportScripts = FALSE
VIEW View
INVARIANTS TonRefines TofRefines TpRefines RTrigRefines FTrigRefines EtBound EtMonotone TpNoRetrigger CounterInRange CounterStep OneCallPerEdge Dominance
PROPERTY Independence
CHECK_DEADLOCK FALSE
