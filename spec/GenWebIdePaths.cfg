SPECIFICATION Spec
CONSTANTS
  Sessions = {"a"}
  Viewers = {}
  MaxOps = 0
  MaxExpire = 1
  TornIds = {}
  Failures = FALSE
  Variant = "locked"
  External = FALSE
  Sequential = FALSE
  CheckTarget = TRUE
  PathLen = 2
  Mode = "exportpaths"
VIEW View
CHECK_DEADLOCK FALSE
INVARIANTS ExportPaths
