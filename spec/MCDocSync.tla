------------------------------- MODULE MCDocSync -------------------------------
(* Design-level model checking of DocSync: every initial text over a small alphabet whose   *)
(* UTF-8, code-point and UTF-16 lengths all differ (a, e-acute, a CJK ideograph, an emoji    *)
(* outside the BMP, "\n", "\r\n"), every edit an editor can make to it (insert / delete /    *)
(* replace between any two cursor positions, columns past the line end, full-text changes,   *)
(* several changes per notification), the editor running ahead of the server over a FIFO     *)
(* channel.  The invariants are the property statements, not the definitions re-stated:      *)
(* the editor edits by INDEX and reports by POSITION; the server applies by POSITION.        *)
(* The same instance exports the behaviours it explores as scripts for the real trust-lsp    *)
(* binary (spec -> implementation direction): see Export.                                    *)
EXTENDS DocSync, Json

CONSTANTS UnitNames,      \* the alphabet (names of units, see Unit)
          MaxUnits,       \* the initial text has at most this many units
          MaxLen,         \* no text grows beyond this many code points
          MaxNotifs,      \* notifications per behaviour, the didOpen included
          MaxBatch,       \* changes per didChange notification
          MaxChan,        \* notifications in flight
          Lockstep,       \* TRUE: the server processes every notification before the editor goes on
          AllowSlack,     \* the editor may report columns past the line end
          AllowReplace,   \* full-text changes
          RichInserts,    \* two-unit insertions as well
          ExportScripts

VARIABLES hist,           \* the script so far (observation only; hidden from the fingerprint by View)
          nsent
mvars == <<d, hist, nsent>>
View == <<d, nsent>>

Unit(n) == CASE n = "a" -> <<97>> [] n = "eacute" -> <<233>> [] n = "han" -> <<28450>>
             [] n = "emoji" -> <<128512>> [] n = "nl" -> <<NL>> [] n = "crlf" -> <<CR, NL>>
Units == {Unit(n) : n \in UnitNames}
RECURSIVE TextsOf(_)
TextsOf(k) == IF k = 0 THEN {<<>>} ELSE LET T == TextsOf(k - 1) IN T \cup {t \o u : t \in T, u \in Units}
Inserts == {<<>>} \cup Units \cup (IF RichInserts THEN {u \o v : u \in Units, v \in Units} ELSE {})
Slacks == IF AllowSlack THEN {0, 2} ELSE {0}

Init == d = Closed /\ hist = <<>> /\ nsent = 0
CanEdit == d.opened /\ Len(d.outbox) < MaxBatch /\ nsent < MaxNotifs /\ (Lockstep => d.chan = <<>>)
DoOpen == \E t \in TextsOf(MaxUnits) : Len(t) <= MaxLen /\ EditorOpen(t) /\ nsent' = 1
                                       /\ hist' = <<[changes |-> <<>>, after |-> t]>>
DoEdit == CanEdit /\ \E a \in 1..(Len(d.editor) + 1) : \E b \in a..(Len(d.editor) + 1) : \E new \in Inserts, sa \in Slacks, sb \in Slacks :
             /\ Len(d.editor) - (b - a) + Len(new) <= MaxLen
             /\ EditorEdit(a, b, new, sa, sb) /\ UNCHANGED <<hist, nsent>>
DoReplace == AllowReplace /\ CanEdit /\ \E t \in TextsOf(1) : EditorReplace(t) /\ UNCHANGED <<hist, nsent>>
DoFlush == Len(d.chan) < MaxChan /\ EditorFlush /\ nsent' = nsent + 1
           /\ hist' = Append(hist, [changes |-> d.outbox, after |-> d.editor])
DoServer == ServerStep /\ UNCHANGED <<hist, nsent>>
Next == DoOpen \/ DoEdit \/ DoReplace \/ DoFlush \/ DoServer
Spec == Init /\ [][Next]_mvars

\* ------------------------------------------------------------------ invariants
TypeOK == /\ d.opened \in BOOLEAN /\ Len(d.chan) <= MaxChan /\ Len(d.outbox) <= MaxBatch
          /\ Len(d.editor) <= MaxLen /\ ~HasLoneCR(d.editor) /\ ~HasLoneCR(d.server)
PosRoundTrip == PosRoundTripOn(d.editor)
\* InSync, QuiescentAgree, RoundTrip, ReportsFaithful: see DocSync

\* ------------------------------------------------------------------ export (spec -> impl)
\* every complete behaviour of the bounded model becomes one script for the real server:
\* the opened text, the notifications, and the text the editor holds after each of them
Export == (ExportScripts /\ nsent = MaxNotifs /\ d.chan = <<>> /\ d.outbox = <<>>) =>
             PrintT(<<"SCRIPT", ToJson([open |-> hist[1].after, steps |-> SubSeq(hist, 2, Len(hist))])>>)
=================================================================================
