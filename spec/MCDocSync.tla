------------------------------- MODULE MCDocSync -------------------------------
(* Design-level model checking of DocSync: every initial text over a small alphabet whose   *)
(* UTF-8, code-point and UTF-16 lengths all differ (a, e-acute, a CJK ideograph, an emoji    *)
(* outside the BMP, "\n", "\r\n"), every edit an editor can make to it (insert / delete /    *)
(* replace between any two cursor positions, columns past the line end, full-text changes,   *)
(* several changes per notification), the editor running ahead of the server over a FIFO     *)
(* channel.  The invariants are the property statements, not the definitions re-stated:      *)
(* the editor edits by INDEX and reports by POSITION; the server applies by POSITION.        *)
(* The same instance exports the behaviours it explores as scripts for the real trust-lsp    *)
(* binary (spec -> implementation direction): see Export.                                    *)
EXTENDS DocSync, Json

CONSTANTS UnitNames,      \* the alphabet (names of units, see Unit)
          MaxUnits,       \* the initial text has at most this many units
          MaxLen,         \* no text grows beyond this many code points
          MaxNotifs,      \* notifications per behaviour, the didOpen included
          MaxBatch,       \* changes per didChange notification
          MaxChan,        \* notifications in flight
          Lockstep,       \* TRUE: the server processes every notification before the editor goes on
          AllowSlack,     \* the editor may report columns past the line end
          AllowReplace,   \* full-text changes
          RichInserts,    \* two-unit insertions as well
          ExportScripts

VARIABLES hist,           \* the script so far (observation only; hidden from the fingerprint by View)
          nsent,
          draft           \* the text being typed before the document is opened (a sequence of units)
mvars == <<d, hist, nsent, draft>>
View == <<d, nsent, draft>>

Unit(n) == CASE n = "a" -> <<97>> [] n = "eacute" -> <<233>> [] n = "han" -> <<28450>>
             [] n = "emoji" -> <<128512>> [] n = "nl" -> <<NL>> [] n = "crlf" -> <<CR, NL>>
Units == {Unit(n) : n \in UnitNames}
RECURSIVE Flat(_)
Flat(f) == IF f = <<>> THEN <<>> ELSE Head(f) \o Flat(Tail(f))
\* every text is Flat(f) for exactly one sequence of units f (no unit is a lone "\r")
Inserts == {<<>>} \cup Units \cup (IF RichInserts THEN {u \o v : u \in Units, v \in Units} ELSE {})
Slacks == IF AllowSlack THEN {0, 2} ELSE {0}

Init == d = Closed /\ hist = <<>> /\ nsent = 0 /\ draft = <<>>
CanEdit == d.opened /\ Len(d.outbox) < MaxBatch /\ nsent < MaxNotifs /\ (Lockstep => d.chan = <<>>)
\* the initial text is typed unit by unit (so that the breadth-first search fans out), then opened
DoType == ~d.opened /\ Len(draft) < MaxUnits /\ \E u \in Units : Len(Flat(draft)) + Len(u) <= MaxLen
             /\ draft' = Append(draft, u) /\ UNCHANGED <<d, hist, nsent>>
DoOpen == LET t == Flat(draft) IN EditorOpen(t) /\ nsent' = 1 /\ hist' = <<[changes |-> <<>>, after |-> t]>> /\ draft' = <<>>
DoEdit == CanEdit /\ \E a \in 1..(Len(d.editor) + 1) : \E b \in a..(Len(d.editor) + 1) : \E new \in Inserts, sa \in Slacks, sb \in Slacks :
             /\ Len(d.editor) - (b - a) + Len(new) <= MaxLen
             /\ EditorEdit(a, b, new, sa, sb) /\ UNCHANGED <<hist, nsent, draft>>
DoReplace == AllowReplace /\ CanEdit /\ \E t \in Units \cup {<<>>} : EditorReplace(t) /\ UNCHANGED <<hist, nsent, draft>>
DoFlush == Len(d.chan) < MaxChan /\ EditorFlush /\ nsent' = nsent + 1
           /\ hist' = Append(hist, [changes |-> d.outbox, after |-> d.editor]) /\ UNCHANGED draft
DoServer == ServerStep /\ UNCHANGED <<hist, nsent, draft>>
Next == DoType \/ DoOpen \/ DoEdit \/ DoReplace \/ DoFlush \/ DoServer
Spec == Init /\ [][Next]_mvars

\* ------------------------------------------------------------------ invariants
TypeOK == /\ d.opened \in BOOLEAN /\ Len(d.chan) <= MaxChan /\ Len(d.outbox) <= MaxBatch
          /\ Len(d.editor) <= MaxLen /\ ~HasLoneCR(d.editor) /\ ~HasLoneCR(d.server)
PosRoundTrip == PosRoundTripOn(d.editor)
\* InSync, QuiescentAgree, RoundTrip, ReportsFaithful: see DocSync

\* ------------------------------------------------------------------ export (spec -> impl)
\* every complete behaviour of the bounded model becomes one script for the real server:
\* the opened text, the notifications, and the text the editor holds after each of them
Export == (ExportScripts /\ nsent = MaxNotifs /\ d.chan = <<>> /\ d.outbox = <<>>) =>
             PrintT(<<"SCRIPT", ToJson([open |-> hist[1].after, steps |-> SubSeq(hist, 2, Len(hist))])>>)
=================================================================================
