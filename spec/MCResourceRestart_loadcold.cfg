SPECIFICATION Spec
CONSTANTS
  MaxCount = 6
  LoadAfterRestart = TRUE
INVARIANTS TypeOK ColdFresh
CHECK_DEADLOCK FALSE
