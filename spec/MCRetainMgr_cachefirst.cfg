SPECIFICATION Spec
CONSTANTS
  Vals = {v1, v2, v3}
  CacheBeforeStore = TRUE
INVARIANTS CacheIsDisk OkMeansStored
CHECK_DEADLOCK FALSE
