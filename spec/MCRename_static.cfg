SPECIFICATION Spec
CONSTANTS
  Mode = "all"
  NScopes = 3
  NameSeq <- Names3
  MaxDecls = 3
  MaxRefs = 2
  MaxReqs = 0
  ExportScripts = FALSE
  AllowHomonyms = TRUE
VIEW View
CHECK_DEADLOCK FALSE
INVARIANTS
  SafeIsExactOnce
  CaseVariantIsSafeOnce
