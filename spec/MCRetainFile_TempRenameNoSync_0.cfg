SPECIFICATION Spec
CONSTANTS
  Proto = "TempRenameNoSync"
  OldLen = 0
  NewLen = 6
INVARIANTS AtomicKill AtomicPower SaveTakesEffect
CHECK_DEADLOCK FALSE
