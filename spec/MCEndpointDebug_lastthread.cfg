SPECIFICATION Spec
CONSTANTS
  Tasks = {"fast", "ev", "slow"}
  Every = "fast"
  PauseOnlyLastThread = TRUE
INVARIANTS TypeOK PauseStops

CONSTRAINT Bound
CHECK_DEADLOCK FALSE
