SPECIFICATION Spec
CONSTANTS
  Threads = {1}
  Dev = {}
  CmdSet = {"continue", "pause", "setBps1", "stackTrace"}
  MaxReqs = 2
  MaxQueued = 1
  MaxStops = 2
INVARIANTS TypeOK NoDuplicateStopped NoLostStop NoStoppedAfterResume ResponseBeforeLaterStop WaitHasCause StopHasSnapshot
PROPERTIES EveryRequestAnswered ContinueResumes
CHECK_DEADLOCK FALSE
