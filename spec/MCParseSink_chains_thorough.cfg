SPECIFICATION Spec
CONSTANTS
  MaxToks = 3
  MaxEvents = 13
  WithStartNode = FALSE
  WithError = FALSE
  ExportScripts = FALSE
  MaxSoup = 0
  MaxOps = 1
  MaxIns = 1
  NFiles = 1
  Positions = {0}
CHECK_DEADLOCK FALSE
INVARIANTS
  InputTiles
  EmittedIsPrefix
  NoUnderflow
  Lossless
  TreeIsIntended
  ErrorsInside
  TriviaInvariant
