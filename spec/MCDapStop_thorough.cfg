SPECIFICATION Spec
CONSTANTS
  Threads = {1}
  Dev = {}
  MaxReqs = 3
  MaxQueued = 1
  MaxStops = 2
INVARIANTS TypeOK NoDuplicateStopped NoLostStop NoStoppedAfterResume ResponseBeforeLaterStop WaitHasCause
PROPERTIES EveryRequestAnswered ContinueResumes
CHECK_DEADLOCK FALSE
