------------------------- MODULE ResourceRestartTrace -------------------------
(* C09 conformance through the resource thread loop.  One run = one real resource thread     *)
(* (plain or shared-globals runner) with a restart signal and, usually, a retain store with  *)
(* a save interval.  The log is totally ordered (one mutex):                                  *)
(*   W{gr,gn,pr,pn}  the output image of a cycle: global/program-level RETAIN (gr, pr) and    *)
(*                   plain (gn, pn) counters, each incremented by the cycle before the copy   *)
(*   Store{gr,pr}    the store was given a snapshot;  Load  the store was read (not judged)   *)
(*   Req{mode}       the restart signal was set (appended under the log mutex: every cycle    *)
(*                   logged before it ended before the request)                               *)
(* The rules are ResourceRestart's: Cycle adds one to every counter; the first cycle after a  *)
(* restart is recognised by pn = 1 and must be Restart . Cycle: plain counters 1, RETAIN      *)
(* counters one more than before (warm) or 1 (cold).  A cycle that was in flight when the     *)
(* request was made still counts on (at most the property needs nothing about promptness).    *)
EXTENDS Sequences, Integers, Json, IOUtils, TLC
Rec == ndJsonDeserialize(IOEnv.TRACE)
VARIABLES l, run, cfg, cur, pend, bad, nruns, taken, first, reqNow, since
tvars == <<l, run, cfg, cur, pend, bad, nruns, taken, first, reqNow, since>>
\* reqNow: the scheduling clock (ms) when the pending restart was requested; since: the same for the restart that
\* was taken last (0 at the start of a run) -- a TON (IN = TRUE, PT = 5 ms) re-initialised by that restart cannot
\* have its Q set while the clock shows less than since + 5
PT == 5
E == Rec[l]
More == l <= Len(Rec)
Zero == [gr |-> 0, gn |-> 0, pr |-> 0, pn |-> 0]
Init == l = 1 /\ run = 0 /\ cfg = [store |-> FALSE, interval |-> -1, runner |-> ""] /\ cur = Zero /\ pend = "none" /\ bad = <<>> /\ nruns = 0 /\ taken = 0 /\ first = FALSE /\ reqNow = 0 /\ since = 0
Mark(why) == bad' = Append(bad, [run |-> run, line |-> l, why |-> why, mode |-> pend, interval |-> cfg.interval, runner |-> cfg.runner])

Reset == /\ E.a = "Reset" /\ l' = l + 1 /\ run' = run + 1 /\ nruns' = nruns + 1
         /\ cfg' = [store |-> E.store, interval |-> E.interval, runner |-> E.runner]
         \* a run that starts on a store holding a snapshot (ResourceRestart!StopStart seen from the new process:
         \* r := disk, n := 0): the RETAIN counters start from the stored values
         /\ cur' = (IF E.bootGr >= 0 THEN [gr |-> E.bootGr, gn |-> 0, pr |-> E.bootPr, pn |-> 0] ELSE Zero)
         /\ first' = (E.bootGr >= 0) /\ pend' = "none" /\ reqNow' = 0 /\ since' = 0 /\ UNCHANGED <<bad, taken>>
Obs == [gr |-> E.gr, gn |-> E.gn, pr |-> E.pr, pn |-> E.pn]
Plus1(v) == [gr |-> v.gr + 1, gn |-> v.gn + 1, pr |-> v.pr + 1, pn |-> v.pn + 1]
\* ResourceRestart!Restart followed by ResourceRestart!Cycle
AfterRestart(v, m) == IF m = "warm" THEN [gr |-> v.gr + 1, gn |-> 1, pr |-> v.pr + 1, pn |-> 1]
                      ELSE [gr |-> 1, gn |-> 1, pr |-> 1, pn |-> 1]
IsRestartCycle == pend # "none" /\ E.pn = 1 /\ cur.pn >= 1
Ahead(s) == IF E.ton /\ E.now - s < PT THEN {"timer-ran-ahead-of-the-clock-after-restart"} ELSE {}
Cycle == /\ E.a = "W" /\ l' = l + 1 /\ cur' = Obs /\ UNCHANGED reqNow
         /\ IF IsRestartCycle
            THEN /\ pend' = "none" /\ taken' = taken + 1 /\ since' = reqNow
                 /\ LET exp == AfterRestart(cur, pend)
                        why == (IF pend = "warm" /\ (Obs.gr # exp.gr \/ Obs.pr # exp.pr) THEN {"warm-restart-changed-retained-value"} ELSE {})
                               \cup (IF pend = "cold" /\ (Obs.gr # exp.gr \/ Obs.pr # exp.pr) THEN {"cold-restart-kept-retained-value"} ELSE {})
                               \cup (IF Obs.gn # 1 THEN {"plain-global-not-initialised"} ELSE {})
                               \cup Ahead(reqNow)
                    IN IF why = {} THEN UNCHANGED bad ELSE Mark(why)
            ELSE /\ UNCHANGED <<pend, taken, since>>
                 /\ IF Obs # Plus1(cur) THEN (IF first THEN Mark({"start-did-not-load-the-stored-retained-values"}) ELSE Mark({"cycle-does-not-count-on"}))
                    ELSE IF pend = "none" /\ Ahead(since) # {} THEN Mark(Ahead(since))
                    ELSE UNCHANGED bad
         /\ first' = FALSE
         /\ UNCHANGED <<run, cfg, nruns>>
\* a snapshot handed to the store holds the values of the cycle that just ended
Store == /\ E.a = "Store" /\ l' = l + 1
         /\ (IF E.gr = cur.gr /\ E.pr = cur.pr THEN UNCHANGED bad ELSE Mark({"saved-snapshot-differs-from-current-values"}))
         /\ UNCHANGED <<run, cfg, cur, pend, nruns, taken, first, reqNow, since>>
Load == E.a = "Load" /\ l' = l + 1 /\ UNCHANGED <<run, cfg, cur, pend, bad, nruns, taken, first, reqNow, since>>
Req == /\ E.a = "Req" /\ l' = l + 1 /\ pend' = E.mode /\ reqNow' = E.now /\ UNCHANGED <<run, cfg, cur, bad, nruns, taken, first, since>>
End == /\ E.a = "End" /\ l' = l + 1
       /\ (IF E.faulted THEN Mark({"resource-faulted"}) ELSE IF ~E.joined THEN Mark({"join-timeout"}) ELSE UNCHANGED bad)
       /\ UNCHANGED <<run, cfg, cur, pend, nruns, taken, first, reqNow, since>>
Next == More /\ (Reset \/ Cycle \/ Store \/ Load \/ Req \/ End)
Spec == Init /\ [][Next]_tvars
Done == l = Len(Rec) + 1 => JsonSerialize(IOEnv.OUT, [events |-> Len(Rec), runs |-> nruns, restarts |-> taken, bad |-> bad])
=============================================================================
