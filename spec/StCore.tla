-------------------------------- MODULE StCore --------------------------------
(* Reference semantics of the typed ST core (IEC 61131-3 + docs/specs/05,06,10), big-step.  *)
(* Written from the standard and property C02, not from the interpreter: exact integer      *)
(* arithmetic in the operand type with a fault on overflow, truncating division, MOD with   *)
(* the sign of the dividend, short-circuit AND/OR on BOOL, FOR tested before each           *)
(* iteration, CASE labels and ranges, EXIT, assignment converts to the declared type.       *)
(* Values are records [t, v]: t a type name, v an integer (BOOL as 0/1).                *)
(* Outcomes are records [f, ...]: f = "ok" or a value-dependent fault kind.             *)
EXTENDS Integers, Sequences, FiniteSets, TLC

\* ------------------------------------ types ------------------------------------
Signed   == {"SINT", "INT", "DINT"}
Unsigned == {"USINT", "UINT"}
Bits     == {"BYTE", "WORD"}
IntTypes == Signed \cup Unsigned
AllTypes == IntTypes \cup Bits \cup {"BOOL"}
MaxDINT  == 2147483647
MinDINT  == -2147483647 - 1
Lo(t) == CASE t = "SINT" -> -128 [] t = "INT" -> -32768 [] t = "DINT" -> MinDINT
           [] t \in {"USINT", "UINT", "BYTE", "WORD", "BOOL"} -> 0
Hi(t) == CASE t = "SINT" -> 127 [] t = "INT" -> 32767 [] t = "DINT" -> MaxDINT
           [] t = "USINT" -> 255 [] t = "UINT" -> 65535 [] t = "BYTE" -> 255 [] t = "WORD" -> 65535
           [] t = "BOOL" -> 1
Rank(t) == CASE t \in {"SINT", "USINT", "BYTE"} -> 1 [] t \in {"INT", "UINT", "WORD"} -> 2 [] t = "DINT" -> 3 [] OTHER -> 0
Family(t) == CASE t \in Signed -> "s" [] t \in Unsigned -> "u" [] t \in Bits -> "b" [] OTHER -> t
Wider(a, b) == IF Rank(a) >= Rank(b) THEN a ELSE b     \* same family (guaranteed by the checker)

Val(t, v)  == [f |-> "ok", t |-> t, v |-> v]
Fault(k)   == [f |-> k, t |-> "", v |-> 0]
IsOk(r)    == r.f = "ok"
InRange(t, v) == Lo(t) <= v /\ v <= Hi(t)
Ranged(t, v)  == IF InRange(t, v) THEN Val(t, v) ELSE Fault("Overflow")

\* checked arithmetic that never leaves TLC's 32-bit integers
AddOv(a, b) == (b > 0 /\ a > MaxDINT - b) \/ (b < 0 /\ a < MinDINT - b)
Abs(x) == IF x < 0 THEN -x ELSE x
MulOv(a, b) == a # 0 /\ b # 0 /\
               ( (a = MinDINT /\ b # 1) \/ (b = MinDINT /\ a # 1)
                 \/ (a # MinDINT /\ b # MinDINT /\ Abs(a) > MaxDINT \div Abs(b)) )
\* truncating division (toward zero) using only positive divisors, never negating MinDINT
TruncPos(a, n) == LET fl == a \div n  r == a % n IN IF a < 0 /\ r # 0 THEN fl + 1 ELSE fl    \* n > 0
TruncDiv(a, b) == IF b > 0 THEN TruncPos(a, b)
                  ELSE IF b = MinDINT THEN (IF a = MinDINT THEN 1 ELSE 0)
                  ELSE -TruncPos(a, -b)                       \* caller excludes MinDINT / -1
TruncMod(a, b) == a - TruncDiv(a, b) * b                      \* sign of dividend

Arith(op, t, a, b) ==
  CASE op = "add" -> IF AddOv(a, b) THEN Fault("Overflow") ELSE Ranged(t, a + b)
    [] op = "sub" -> IF b = MinDINT THEN (IF a >= 0 THEN Fault("Overflow") ELSE Ranged(t, (a + 1) + MaxDINT))
                     ELSE IF AddOv(a, -b) THEN Fault("Overflow") ELSE Ranged(t, a - b)
    [] op = "mul" -> IF MulOv(a, b) THEN Fault("Overflow") ELSE Ranged(t, a * b)
    [] op = "div" -> IF b = 0 THEN Fault("DivisionByZero")
                     ELSE IF a = MinDINT /\ b = -1 THEN Fault("Overflow") ELSE Ranged(t, TruncDiv(a, b))
    [] op = "mod" -> IF b = 0 THEN Fault("ModuloByZero")
                     ELSE IF b = -1 THEN Val(t, 0) ELSE Ranged(t, TruncMod(a, b))

\* bitwise on 16-bit strings
RECURSIVE BitOp(_, _, _, _)
BitOp(op, a, b, n) ==
  IF n = 0 THEN 0
  ELSE LET x == a % 2  y == b % 2
           z == CASE op = "and" -> IF x = 1 /\ y = 1 THEN 1 ELSE 0
                  [] op = "or"  -> IF x = 1 \/ y = 1 THEN 1 ELSE 0
                  [] op = "xor" -> IF x # y THEN 1 ELSE 0
       IN z + 2 * BitOp(op, a \div 2, b \div 2, n - 1)

Cmp(op, a, b) == CASE op = "eq" -> a = b [] op = "ne" -> a # b [] op = "lt" -> a < b
                   [] op = "le" -> a <= b [] op = "gt" -> a > b [] op = "ge" -> a >= b
B(x) == IF x THEN 1 ELSE 0

\* ---------------------------------- expressions ----------------------------------
\* A store maps variable names to values:
\*   scalar  [f |-> "ok", t, v]                      array  [t |-> "ARRAY", lo, el |-> <<scalars>>]
\*   struct  [t |-> "STRUCT", fl |-> [field |-> scalar]]
\*   FB instance [t |-> "FB", ty |-> fb type name, vars |-> [name |-> scalar]]
\* Expressions may call FUNCTIONs, which write their VAR_IN_OUT actual back into the caller's store,
\* so evaluation threads the store: the result of Eval is a value record extended with `st`.
\* env = [decl |-> declared types of the current POU, funcs |-> FUNCTION definitions, fbs |-> FB definitions]
\*   funcs[F] = [ret |-> type, ins |-> <<[n, t, hasdef, def]>>, inout |-> name or "" (type INT), locals |-> <<[n, t]>>, body]
\*   fbs[B]   = [ins |-> <<[n, t]>>, outs |-> <<[n, t]>>, body]      (member types in decl of the FB: fbs[B].decl)
V(x, st) == [f |-> x.f, t |-> x.t, v |-> x.v, st |-> st]
Plain(r) == [f |-> r.f, t |-> r.t, v |-> r.v]
Coerce(t, x) == Ranged(t, x.v)                 \* assignment conversion (checker admits widening only)
ZeroOf(t) == Val(t, 0)

MaxIter == 300
RECURSIVE Eval(_, _, _), EvalArgs(_, _, _, _, _), CallFunction(_, _, _, _)
RECURSIVE Exec(_, _, _), ExecSeq(_, _, _, _), ForLoop(_, _, _, _, _, _, _), WhileLoop(_, _, _, _), RepeatLoop(_, _, _, _), CaseExec(_, _, _, _, _)
\* statement result: [st, flow, alt]  flow \in {"next", "exit", "continue", "return"} or a fault kind
R(st, flow) == [st |-> st, flow |-> flow, alt |-> ""]
\* two sub-expressions of one statement fault and IEC does not order them: either kind is acceptable
R2(st, f1, f2) == [st |-> st, flow |-> f1, alt |-> IF f1 = f2 THEN "" ELSE f2]
IsFaultFlow(fl) == fl \notin {"next", "exit", "continue", "return"}

Eval(e, st, env) ==
  CASE e.k = "lit" -> V(Val(IF e.t = "ANYINT" THEN "DINT" ELSE e.t, e.v), st)
    [] e.k = "var" -> V(st[e.n], st)
    [] e.k = "field" -> V(st[e.n].fl[e.fd], st)
    [] e.k = "fbout" -> V(st[e.n].vars[e.fd], st)
    [] e.k = "idx" ->
        LET i == Eval(e.i, st, env) IN
        IF ~IsOk(i) THEN i
        ELSE LET arr == i.st[e.n] IN
             IF i.v < arr.lo \/ i.v > arr.lo + Len(arr.el) - 1 THEN V(Fault("IndexOutOfBounds"), i.st)
             ELSE V(arr.el[i.v - arr.lo + 1], i.st)
    [] e.k = "un" ->
        LET x == Eval(e.e, st, env) IN
        IF ~IsOk(x) THEN x
        ELSE IF e.op = "neg" THEN V(IF x.v = MinDINT THEN Fault("Overflow") ELSE Ranged(x.t, -x.v), x.st)
        ELSE IF x.t = "BOOL" THEN V(Val("BOOL", 1 - x.v), x.st)
        ELSE V(Val(x.t, Hi(x.t) - x.v), x.st)                                   \* NOT on a bit string
    [] e.k = "bin" ->
        LET l == Eval(e.l, st, env) IN
        IF ~IsOk(l) THEN l
        ELSE IF e.op = "and" /\ l.t = "BOOL" /\ l.v = 0 THEN V(Val("BOOL", 0), l.st)      \* short circuit
        ELSE IF e.op = "or"  /\ l.t = "BOOL" /\ l.v = 1 THEN V(Val("BOOL", 1), l.st)
        ELSE LET r == Eval(e.r, l.st, env) IN
             IF ~IsOk(r) THEN r
             ELSE IF e.op \in {"add", "sub", "mul", "div", "mod"} THEN V(Arith(e.op, Wider(l.t, r.t), l.v, r.v), r.st)
             ELSE IF e.op \in {"and", "or", "xor"} THEN
                    (IF l.t = "BOOL" THEN V(Val("BOOL", BitOp(e.op, l.v, r.v, 1)), r.st)
                     ELSE V(Val(Wider(l.t, r.t), BitOp(e.op, l.v, r.v, 16)), r.st))
             ELSE V(Val("BOOL", B(Cmp(e.op, l.v, r.v))), r.st)
    [] e.k = "call" -> CallFunction(e, st, env, env.funcs[e.fn])

\* evaluate the named arguments left to right into the callee's fresh frame `loc`
EvalArgs(args, i, st, env, loc) ==
  IF i > Len(args) THEN [f |-> "ok", st |-> st, loc |-> loc]
  ELSE LET x == Eval(args[i].e, st, env) IN
       IF ~IsOk(x) THEN [f |-> x.f, st |-> x.st, loc |-> loc]
       ELSE LET c == Coerce(loc[args[i].n].t, x) IN
            IF ~IsOk(c) THEN [f |-> c.f, st |-> x.st, loc |-> loc]
            ELSE EvalArgs(args, i + 1, x.st, env, [loc EXCEPT ![args[i].n] = c])

\* FUNCTION call: inputs by value (declared default when the argument is omitted), VAR_IN_OUT
\* bound to the caller's variable (its value on entry, written back on exit), locals and the
\* result variable initialised, RETURN ends the body
CallFunction(e, st, env, fd) ==
  LET names == {fd.ins[k].n : k \in DOMAIN fd.ins} \cup {fd.locals[k].n : k \in DOMAIN fd.locals} \cup {e.fn}
                 \cup (IF fd.inout = "" THEN {} ELSE {fd.inout})
      tyOf(n) == IF n = e.fn THEN fd.ret
                 ELSE IF n = fd.inout THEN "INT"
                 ELSE IF \E k \in DOMAIN fd.ins : fd.ins[k].n = n
                      THEN (CHOOSE p \in {fd.ins[k] : k \in DOMAIN fd.ins} : p.n = n).t
                      ELSE (CHOOSE p \in {fd.locals[k] : k \in DOMAIN fd.locals} : p.n = n).t
      defOf(n) == IF \E k \in DOMAIN fd.ins : fd.ins[k].n = n /\ fd.ins[k].hasdef
                  THEN (CHOOSE p \in {fd.ins[k] : k \in DOMAIN fd.ins} : p.n = n).def ELSE 0
      loc0 == [n \in names |-> IF n = fd.inout /\ e.io # "" THEN st[e.io] ELSE Val(tyOf(n), defOf(n))]
      a == EvalArgs(e.args, 1, st, env, loc0)
  IN IF a.f # "ok" THEN V(Fault(a.f), a.st)
     ELSE LET fenv == [decl |-> [n \in names |-> [t |-> tyOf(n)]], funcs |-> env.funcs, fbs |-> env.fbs]
              \* the in-out actual may have been changed by an argument expression evaluated before the call
              loc1 == IF fd.inout # "" /\ e.io # "" THEN [a.loc EXCEPT ![fd.inout] = a.st[e.io]] ELSE a.loc
              r == ExecSeq(fd.body, 1, loc1, fenv)
          IN IF IsFaultFlow(r.flow) THEN V(Fault(r.flow), a.st)
             ELSE LET st2 == IF fd.inout # "" /\ e.io # "" THEN [a.st EXCEPT ![e.io] = r.st[fd.inout]] ELSE a.st
                  IN V(r.st[e.fn], st2)

\* ---------------------------------- statements ----------------------------------
\* declared types: decl[name] = [t |-> type] or [t |-> "ARRAY", el |-> type, lo, hi] or [t |-> "STRUCT"/"FB", ...]
ExecSeq(ss, i, st, env) ==
  IF i > Len(ss) THEN R(st, "next")
  ELSE LET r == Exec(ss[i], st, env) IN
       IF r.flow = "next" THEN ExecSeq(ss, i + 1, r.st, env) ELSE r

CaseMatch(br, v) == \E j \in DOMAIN br.labels : br.labels[j].lo <= v /\ v <= br.labels[j].hi
CaseExec(s, j, v, st, env) ==
  IF j > Len(s.br) THEN ExecSeq(s.e, 1, st, env)
  ELSE IF CaseMatch(s.br[j], v) THEN ExecSeq(s.br[j].body, 1, st, env)
  ELSE CaseExec(s, j + 1, v, st, env)

RECURSIVE FbInputs(_, _, _, _, _)
\* FB call: the given inputs are stored in the instance (omitted ones keep their last value),
\* the body runs on the instance's own variables, then the bound outputs are copied out
FbInputs(args, i, st, env, inst) ==
  IF i > Len(args) THEN [f |-> "ok", st |-> st, inst |-> inst]
  ELSE LET x == Eval(args[i].e, st, env) IN
       IF ~IsOk(x) THEN [f |-> x.f, st |-> x.st, inst |-> inst]
       ELSE LET c == Coerce(inst[args[i].n].t, x) IN
            IF ~IsOk(c) THEN [f |-> c.f, st |-> x.st, inst |-> inst]
            ELSE FbInputs(args, i + 1, x.st, env, [inst EXCEPT ![args[i].n] = c])
RECURSIVE FbOutputs(_, _, _, _, _)
FbOutputs(outs, i, st, env, inst) ==
  IF i > Len(outs) THEN R(st, "next")
  ELSE LET c == Coerce(env.decl[outs[i].to].t, inst[outs[i].n]) IN
       IF ~IsOk(c) THEN R(st, c.f) ELSE FbOutputs(outs, i + 1, [st EXCEPT ![outs[i].to] = c], env, inst)

Exec(s, st, env) ==
  CASE s.k = "assign" ->
        LET x == Eval(s.e, st, env) IN
        IF ~IsOk(x) THEN R(x.st, x.f)
        ELSE LET c == Coerce(env.decl[s.n].t, x) IN
             IF ~IsOk(c) THEN R(x.st, c.f) ELSE R([x.st EXCEPT ![s.n] = c], "next")
    [] s.k = "assignfield" ->
        LET x == Eval(s.e, st, env) IN
        IF ~IsOk(x) THEN R(x.st, x.f)
        ELSE LET c == Coerce(st[s.n].fl[s.fd].t, x) IN
             IF ~IsOk(c) THEN R(x.st, c.f) ELSE R([x.st EXCEPT ![s.n].fl[s.fd] = c], "next")
    [] s.k = "assignidx" ->
        LET i == Eval(s.i, st, env) IN
        IF ~IsOk(i) THEN (LET x0 == Eval(s.e, st, env) IN IF IsOk(x0) THEN R(i.st, i.f) ELSE R2(i.st, i.f, x0.f))
        ELSE LET x == Eval(s.e, i.st, env) arr == x.st[s.n] IN
             IF ~IsOk(x) THEN (IF i.v < arr.lo \/ i.v > arr.lo + Len(arr.el) - 1 THEN R2(x.st, x.f, "IndexOutOfBounds") ELSE R(x.st, x.f))
             ELSE IF i.v < arr.lo \/ i.v > arr.lo + Len(arr.el) - 1 THEN R(x.st, "IndexOutOfBounds")
             ELSE LET c == Coerce(env.decl[s.n].el, x) IN
                  IF ~IsOk(c) THEN R(x.st, c.f)
                  ELSE R([x.st EXCEPT ![s.n].el[i.v - arr.lo + 1] = c], "next")
    [] s.k = "fbcall" ->
        LET a == FbInputs(s.args, 1, st, env, st[s.n].vars) IN
        IF a.f # "ok" THEN R(a.st, a.f)
        ELSE LET fb == env.fbs[st[s.n].ty]
                 r == ExecSeq(fb.body, 1, a.inst, [decl |-> fb.decl, funcs |-> env.funcs, fbs |-> env.fbs])
                 st2 == [a.st EXCEPT ![s.n].vars = r.st]
             IN IF IsFaultFlow(r.flow) THEN R(st2, r.flow)
                ELSE FbOutputs(s.outs, 1, st2, env, r.st)
    [] s.k = "if" ->
        LET c == Eval(s.c, st, env) IN
        IF ~IsOk(c) THEN R(c.st, c.f)
        ELSE IF c.v = 1 THEN ExecSeq(s.t, 1, c.st, env) ELSE ExecSeq(s.e, 1, c.st, env)
    [] s.k = "case" ->
        LET v == Eval(s.s, st, env) IN
        IF ~IsOk(v) THEN R(v.st, v.f) ELSE CaseExec(s, 1, v.v, v.st, env)
    [] s.k = "for" ->
        LET a == Eval(s.from, st, env) IN IF ~IsOk(a) THEN R(a.st, a.f) ELSE
        LET b == Eval(s.to, a.st, env) IN IF ~IsOk(b) THEN R(b.st, b.f) ELSE
        LET c == Eval(s.by, b.st, env) IN IF ~IsOk(c) THEN R(c.st, c.f) ELSE
        IF c.v = 0 THEN R(c.st, "ForStepZero")
        ELSE LET ct == env.decl[s.n].t
                 c0 == Coerce(ct, a) IN
             IF ~IsOk(c0) THEN R(c.st, c0.f)
             ELSE ForLoop(s, a.v, b.v, c.v, [c.st EXCEPT ![s.n] = c0], env, 0)
    [] s.k = "while"  -> WhileLoop(s, st, env, 0)
    [] s.k = "repeat" -> RepeatLoop(s, st, env, 0)
    [] s.k = "exit"     -> R(st, "exit")
    [] s.k = "continue" -> R(st, "continue")
    [] s.k = "return"   -> R(st, "return")

\* FOR: test before each iteration; the control variable is updated after the body (also after
\* CONTINUE).  A final increment that leaves the control variable's type is "ForPastEnd" (IEC leaves
\* the post-loop value implementer-dependent: the trace spec accepts termination or Overflow).
ForLoop(s, cur, to, by, st, env, n) ==
  IF n > MaxIter THEN R(st, "Timeout")
  ELSE IF (by > 0 /\ cur > to) \/ (by < 0 /\ cur < to) THEN R(st, "next")
  ELSE LET r == ExecSeq(s.body, 1, st, env) ct == st[s.n].t IN
       IF IsFaultFlow(r.flow) \/ r.flow = "return" THEN r
       ELSE IF r.flow = "exit" THEN R(r.st, "next")
       ELSE IF AddOv(cur, by) \/ ~InRange(ct, cur + by) THEN R(r.st, "ForPastEnd")
       ELSE ForLoop(s, cur + by, to, by, [r.st EXCEPT ![s.n] = Val(ct, cur + by)], env, n + 1)

WhileLoop(s, st, env, n) ==
  IF n > MaxIter THEN R(st, "Timeout")
  ELSE LET c == Eval(s.c, st, env) IN
       IF ~IsOk(c) THEN R(c.st, c.f)
       ELSE IF c.v = 0 THEN R(c.st, "next")
       ELSE LET r == ExecSeq(s.body, 1, c.st, env) IN
            IF IsFaultFlow(r.flow) \/ r.flow = "return" THEN r
            ELSE IF r.flow = "exit" THEN R(r.st, "next")
            ELSE WhileLoop(s, r.st, env, n + 1)

RepeatLoop(s, st, env, n) ==
  IF n > MaxIter THEN R(st, "Timeout")
  ELSE LET r == ExecSeq(s.body, 1, st, env) IN
       IF IsFaultFlow(r.flow) \/ r.flow = "return" THEN r
       ELSE IF r.flow = "exit" THEN R(r.st, "next")
       ELSE LET c == Eval(s.c, r.st, env) IN
            IF ~IsOk(c) THEN R(c.st, c.f)
            ELSE IF c.v = 1 THEN R(c.st, "next")
            ELSE RepeatLoop(s, c.st, env, n + 1)

\* one cycle of the program body; a RETURN at program level ends the cycle normally
RunCycle(body, st, env) == LET r == ExecSeq(body, 1, st, env) IN IF r.flow = "return" THEN R(r.st, "next") ELSE r
=================================================================================
