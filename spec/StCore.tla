-------------------------------- MODULE StCore --------------------------------
(* Reference semantics of the typed ST core (IEC 61131-3 + docs/specs/05,06,10), big-step.  *)
(* Written from the standard and property C02, not from the interpreter: exact integer      *)
(* arithmetic in the operand type with a fault on overflow, truncating division, MOD with   *)
(* the sign of the dividend, short-circuit AND/OR on BOOL, FOR tested before each           *)
(* iteration, CASE labels and ranges, EXIT, assignment converts to the declared type.       *)
(* Values are records [t, v]: t a type name, v an integer (BOOL as 0/1).                *)
(* Outcomes are records [f, ...]: f = "ok" or a value-dependent fault kind.             *)
EXTENDS Integers, Sequences, FiniteSets, TLC

\* ------------------------------------ types ------------------------------------
Signed   == {"SINT", "INT", "DINT"}
Unsigned == {"USINT", "UINT"}
Bits     == {"BYTE", "WORD"}
IntTypes == Signed \cup Unsigned
AllTypes == IntTypes \cup Bits \cup {"BOOL"}
MaxDINT  == 2147483647
MinDINT  == -2147483647 - 1
Lo(t) == CASE t = "SINT" -> -128 [] t = "INT" -> -32768 [] t = "DINT" -> MinDINT
           [] t \in {"USINT", "UINT", "BYTE", "WORD", "BOOL"} -> 0
Hi(t) == CASE t = "SINT" -> 127 [] t = "INT" -> 32767 [] t = "DINT" -> MaxDINT
           [] t = "USINT" -> 255 [] t = "UINT" -> 65535 [] t = "BYTE" -> 255 [] t = "WORD" -> 65535
           [] t = "BOOL" -> 1
Rank(t) == CASE t \in {"SINT", "USINT", "BYTE"} -> 1 [] t \in {"INT", "UINT", "WORD"} -> 2 [] t = "DINT" -> 3 [] OTHER -> 0
Family(t) == CASE t \in Signed -> "s" [] t \in Unsigned -> "u" [] t \in Bits -> "b" [] OTHER -> t
Wider(a, b) == IF Rank(a) >= Rank(b) THEN a ELSE b     \* same family (guaranteed by the checker)

Val(t, v)  == [f |-> "ok", t |-> t, v |-> v]
Fault(k)   == [f |-> k, t |-> "", v |-> 0]
IsOk(r)    == r.f = "ok"
InRange(t, v) == Lo(t) <= v /\ v <= Hi(t)
Ranged(t, v)  == IF InRange(t, v) THEN Val(t, v) ELSE Fault("Overflow")

\* checked arithmetic that never leaves TLC's 32-bit integers
AddOv(a, b) == (b > 0 /\ a > MaxDINT - b) \/ (b < 0 /\ a < MinDINT - b)
Abs(x) == IF x < 0 THEN -x ELSE x
MulOv(a, b) == a # 0 /\ b # 0 /\
               ( (a = MinDINT /\ b # 1) \/ (b = MinDINT /\ a # 1)
                 \/ (a # MinDINT /\ b # MinDINT /\ Abs(a) > MaxDINT \div Abs(b)) )
\* truncating division (toward zero) using only positive divisors, never negating MinDINT
TruncPos(a, n) == LET fl == a \div n  r == a % n IN IF a < 0 /\ r # 0 THEN fl + 1 ELSE fl    \* n > 0
TruncDiv(a, b) == IF b > 0 THEN TruncPos(a, b)
                  ELSE IF b = MinDINT THEN (IF a = MinDINT THEN 1 ELSE 0)
                  ELSE -TruncPos(a, -b)                       \* caller excludes MinDINT / -1
TruncMod(a, b) == a - TruncDiv(a, b) * b                      \* sign of dividend

Arith(op, t, a, b) ==
  CASE op = "add" -> IF AddOv(a, b) THEN Fault("Overflow") ELSE Ranged(t, a + b)
    [] op = "sub" -> IF b = MinDINT THEN (IF a >= 0 THEN Fault("Overflow") ELSE Ranged(t, (a + 1) + MaxDINT))
                     ELSE IF AddOv(a, -b) THEN Fault("Overflow") ELSE Ranged(t, a - b)
    [] op = "mul" -> IF MulOv(a, b) THEN Fault("Overflow") ELSE Ranged(t, a * b)
    [] op = "div" -> IF b = 0 THEN Fault("DivisionByZero")
                     ELSE IF a = MinDINT /\ b = -1 THEN Fault("Overflow") ELSE Ranged(t, TruncDiv(a, b))
    [] op = "mod" -> IF b = 0 THEN Fault("ModuloByZero")
                     ELSE IF b = -1 THEN Val(t, 0) ELSE Ranged(t, TruncMod(a, b))

\* bitwise on 16-bit strings
RECURSIVE BitOp(_, _, _, _)
BitOp(op, a, b, n) ==
  IF n = 0 THEN 0
  ELSE LET x == a % 2  y == b % 2
           z == CASE op = "and" -> IF x = 1 /\ y = 1 THEN 1 ELSE 0
                  [] op = "or"  -> IF x = 1 \/ y = 1 THEN 1 ELSE 0
                  [] op = "xor" -> IF x # y THEN 1 ELSE 0
       IN z + 2 * BitOp(op, a \div 2, b \div 2, n - 1)

Cmp(op, a, b) == CASE op = "eq" -> a = b [] op = "ne" -> a # b [] op = "lt" -> a < b
                   [] op = "le" -> a <= b [] op = "gt" -> a > b [] op = "ge" -> a >= b
B(x) == IF x THEN 1 ELSE 0

\* ---------------------------------- expressions ----------------------------------
\* store: [vars |-> [name |-> value record or array record]]
\* array value: [t |-> "ARRAY", lo |-> l, el |-> <<values>>]
RECURSIVE Eval(_, _)
Eval(e, st) ==
  CASE e.k = "lit" -> Val(IF e.t = "ANYINT" THEN "DINT" ELSE e.t, e.v)
    [] e.k = "var" -> st[e.n]
    [] e.k = "idx" ->
        LET i == Eval(e.i, st) arr == st[e.n] IN
        IF ~IsOk(i) THEN i
        ELSE IF i.v < arr.lo \/ i.v > arr.lo + Len(arr.el) - 1 THEN Fault("IndexOutOfBounds")
        ELSE arr.el[i.v - arr.lo + 1]
    [] e.k = "un" ->
        LET x == Eval(e.e, st) IN
        IF ~IsOk(x) THEN x
        ELSE IF e.op = "neg" THEN (IF x.v = MinDINT THEN Fault("Overflow") ELSE Ranged(x.t, -x.v))
        ELSE IF x.t = "BOOL" THEN Val("BOOL", 1 - x.v)
        ELSE Val(x.t, Hi(x.t) - x.v)                                   \* NOT on a bit string
    [] e.k = "bin" ->
        LET l == Eval(e.l, st) IN
        IF ~IsOk(l) THEN l
        ELSE IF e.op = "and" /\ l.t = "BOOL" /\ l.v = 0 THEN Val("BOOL", 0)      \* short circuit
        ELSE IF e.op = "or"  /\ l.t = "BOOL" /\ l.v = 1 THEN Val("BOOL", 1)
        ELSE LET r == Eval(e.r, st) IN
             IF ~IsOk(r) THEN r
             ELSE IF e.op \in {"add", "sub", "mul", "div", "mod"} THEN Arith(e.op, Wider(l.t, r.t), l.v, r.v)
             ELSE IF e.op \in {"and", "or", "xor"} THEN
                    (IF l.t = "BOOL" THEN Val("BOOL", BitOp(e.op, l.v, r.v, 1))
                     ELSE Val(Wider(l.t, r.t), BitOp(e.op, l.v, r.v, 16)))
             ELSE Val("BOOL", B(Cmp(e.op, l.v, r.v)))

\* ---------------------------------- statements ----------------------------------
\* declared types: decl[name] = [t |-> type] or [t |-> "ARRAY", el |-> type, lo, hi]
Coerce(t, x) == Ranged(t, x.v)                 \* assignment conversion (checker admits widening only)

MaxIter == 300
RECURSIVE Exec(_, _, _, _), ExecSeq(_, _, _, _, _), ForLoop(_, _, _, _, _, _, _, _), WhileLoop(_, _, _, _, _), RepeatLoop(_, _, _, _, _)
\* result: [st, flow]  flow \in {"next", "exit", "continue"} or a fault kind
R(st, flow) == [st |-> st, flow |-> flow, alt |-> ""]
\* two sub-expressions of one statement fault and IEC does not order them: either kind is acceptable
R2(st, f1, f2) == [st |-> st, flow |-> f1, alt |-> IF f1 = f2 THEN "" ELSE f2]
IsFaultFlow(fl) == fl \notin {"next", "exit", "continue"}

ExecSeq(ss, i, st, decl, co) ==
  IF i > Len(ss) THEN R(st, "next")
  ELSE LET r == Exec(ss[i], st, decl, co) IN
       IF r.flow = "next" THEN ExecSeq(ss, i + 1, r.st, decl, co) ELSE r

CaseMatch(br, v) == \E j \in DOMAIN br.labels : br.labels[j].lo <= v /\ v <= br.labels[j].hi
RECURSIVE CaseExec(_, _, _, _, _, _)
CaseExec(s, j, v, st, decl, co) ==
  IF j > Len(s.br) THEN ExecSeq(s.e, 1, st, decl, co)
  ELSE IF CaseMatch(s.br[j], v) THEN ExecSeq(s.br[j].body, 1, st, decl, co)
  ELSE CaseExec(s, j + 1, v, st, decl, co)

\* co = TRUE: reference (assignment converts to the declared type); co = FALSE: the recorded deviation
\* (the assigned value is stored with the tag it was computed in; untyped literals are DINT)
Store(t, x, co) == IF co THEN Coerce(t, x) ELSE x
Exec(s, st, decl, co) ==
  CASE s.k = "assign" ->
        LET x == Eval(s.e, st) IN
        IF ~IsOk(x) THEN R(st, x.f)
        ELSE LET c == Store(decl[s.n].t, x, co) IN
             IF ~IsOk(c) THEN R(st, c.f) ELSE R([st EXCEPT ![s.n] = c], "next")
    [] s.k = "assignidx" ->
        LET i == Eval(s.i, st) IN
        IF ~IsOk(i) THEN (LET x0 == Eval(s.e, st) IN IF IsOk(x0) THEN R(st, i.f) ELSE R2(st, i.f, x0.f))
        ELSE LET x == Eval(s.e, st) arr == st[s.n] IN
             IF ~IsOk(x) THEN (IF i.v < arr.lo \/ i.v > arr.lo + Len(arr.el) - 1 THEN R2(st, x.f, "IndexOutOfBounds") ELSE R(st, x.f))
             ELSE IF i.v < arr.lo \/ i.v > arr.lo + Len(arr.el) - 1 THEN R(st, "IndexOutOfBounds")
             ELSE LET c == Store(decl[s.n].el, x, co) IN
                  IF ~IsOk(c) THEN R(st, c.f)
                  ELSE R([st EXCEPT ![s.n].el[i.v - arr.lo + 1] = c], "next")
    [] s.k = "if" ->
        LET c == Eval(s.c, st) IN
        IF ~IsOk(c) THEN R(st, c.f)
        ELSE IF c.v = 1 THEN ExecSeq(s.t, 1, st, decl, co) ELSE ExecSeq(s.e, 1, st, decl, co)
    [] s.k = "case" ->
        LET v == Eval(s.s, st) IN
        IF ~IsOk(v) THEN R(st, v.f) ELSE CaseExec(s, 1, v.v, st, decl, co)
    [] s.k = "for" ->
        LET a == Eval(s.from, st) IN IF ~IsOk(a) THEN R(st, a.f) ELSE
        LET b == Eval(s.to, st)   IN IF ~IsOk(b) THEN R(st, b.f) ELSE
        LET c == Eval(s.by, st)   IN IF ~IsOk(c) THEN R(st, c.f) ELSE
        IF c.v = 0 THEN R(st, "ForStepZero")
        ELSE LET ct == decl[s.n].t
                 c0 == Coerce(ct, a) IN
             IF ~IsOk(c0) THEN R(st, c0.f)
             ELSE ForLoop(s, a.v, b.v, c.v, [st EXCEPT ![s.n] = c0], decl, 0, co)
    [] s.k = "while"  -> WhileLoop(s, st, decl, 0, co)
    [] s.k = "repeat" -> RepeatLoop(s, st, decl, 0, co)
    [] s.k = "exit"     -> R(st, "exit")
    [] s.k = "continue" -> R(st, "continue")

\* FOR: test before each iteration; the control variable is updated after the body.
\* A final increment that leaves the control variable's type is "ForPastEnd" (IEC leaves the
\* post-loop value implementer-dependent: the trace spec accepts termination or Overflow).
ForLoop(s, cur, to, by, st, decl, n, co) ==
  IF n > MaxIter THEN R(st, "Timeout")
  ELSE IF (by > 0 /\ cur > to) \/ (by < 0 /\ cur < to) THEN R(st, "next")
  ELSE LET r == ExecSeq(s.body, 1, st, decl, co) ct == st[s.n].t IN
       IF IsFaultFlow(r.flow) THEN r
       ELSE IF r.flow = "exit" THEN R(r.st, "next")
       ELSE IF AddOv(cur, by) \/ ~InRange(ct, cur + by) THEN R(r.st, "ForPastEnd")
       ELSE ForLoop(s, cur + by, to, by, [r.st EXCEPT ![s.n] = Val(ct, cur + by)], decl, n + 1, co)

WhileLoop(s, st, decl, n, co) ==
  IF n > MaxIter THEN R(st, "Timeout")
  ELSE LET c == Eval(s.c, st) IN
       IF ~IsOk(c) THEN R(st, c.f)
       ELSE IF c.v = 0 THEN R(st, "next")
       ELSE LET r == ExecSeq(s.body, 1, st, decl, co) IN
            IF IsFaultFlow(r.flow) THEN r
            ELSE IF r.flow = "exit" THEN R(r.st, "next")
            ELSE WhileLoop(s, r.st, decl, n + 1, co)

RepeatLoop(s, st, decl, n, co) ==
  IF n > MaxIter THEN R(st, "Timeout")
  ELSE LET r == ExecSeq(s.body, 1, st, decl, co) IN
       IF IsFaultFlow(r.flow) THEN r
       ELSE IF r.flow = "exit" THEN R(r.st, "next")
       ELSE LET c == Eval(s.c, r.st) IN
            IF ~IsOk(c) THEN R(r.st, c.f)
            ELSE IF c.v = 1 THEN R(r.st, "next")
            ELSE RepeatLoop(s, r.st, decl, n + 1, co)

RunCycle(body, st, decl, co) == ExecSeq(body, 1, st, decl, co)
=================================================================================
