SPECIFICATION GSpec
CONSTANTS
  Threads = {1}
  Dev = {}
  CmdSet = {"continue", "pause", "next", "setBps0", "setBps1"}
  MaxReqs = 6
  MaxQueued = 2
  MaxStops = 6
INVARIANT Export
CHECK_DEADLOCK FALSE
