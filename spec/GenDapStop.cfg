SPECIFICATION GSpec
CONSTANTS
  Threads = {1}
  Dev = {}
  MaxReqs = 6
  MaxQueued = 2
  MaxStops = 6
INVARIANT Export
CHECK_DEADLOCK FALSE
