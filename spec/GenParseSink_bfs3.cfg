SPECIFICATION GenSpec
CONSTANTS
  MaxToks = 0
  MaxEvents = 0
  WithStartNode = FALSE
  WithError = FALSE
  ExportScripts = TRUE
  MaxSoup = 3
  MaxOps = 1
  MaxIns = 1
  NFiles = 40
  Positions = {0, 250, 500, 750, 999}
CHECK_DEADLOCK FALSE
INVARIANT Export
