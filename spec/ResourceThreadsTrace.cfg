SPECIFICATION Spec
CONSTRAINT HighWater
POSTCONDITION Post
CHECK_DEADLOCK FALSE
