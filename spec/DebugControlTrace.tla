--------------------------- MODULE DebugControlTrace ---------------------------
(* Trace validation for C17.  The events are the runtime's own ST_DEBUG_TRACE lines (all    *)
(* emitted while the DebugState mutex is held, i.e. at the linearization points, in a       *)
(* total order), grouped per critical section by the harness:                               *)
(*   Adapter{kind, th, modeBefore, modeAfter}   one apply_action call                       *)
(*   SetBps{n}                                  one set_breakpoints_for_file call (which    *)
(*                                              locations is NOT logged: TLC infers it)     *)
(*   HookEnter{loc, depth, mode, cur, target, pending, steps, bps, stops, end}              *)
(*   HookWake{mode, target, stops, end}                                                     *)
(*   Final{same}      the statement thread finished; final variables = undebugged run's     *)
(* set_current_thread is not logged either: SetCur is a silent step TLC may take whenever   *)
(* the specification enables it.  Because of these unlogged choices the trace               *)
(* specification is nondeterministic; acceptance = some behaviour consumes every event.     *)
(* The high-water mark of consumed events is kept in TLC register 1 (needs -workers 1).     *)
EXTENDS DebugControl, Json, IOUtils
Rec == ndJsonDeserialize(IOEnv.TRACE)
VARIABLES l, run
tvars == <<l, run, vars>>
E == Rec[l]
More == l <= Len(Rec)
ToOpt(x) == IF x = -1 THEN None ELSE x
ASSUME TLCSet(1, 0)
SetOf(q) == {q[i] : i \in DOMAIN q}

Load(r) == InitWith(r.prog, SetOf(r.cands), r.cycles)
TInit == l = 2 /\ run = 1 /\ Rec[1].a = "Reset" /\ Load(Rec[1])
TReset == /\ E.a = "Reset" /\ l' = l + 1 /\ run' = run + 1
          /\ prog' = E.prog /\ cands' = SetOf(E.cands) /\ maxc' = E.cycles
          /\ mode' = "Running" /\ pending' = NoReason /\ step' = NoStep /\ target' = None
          /\ cur' = E.prog[1].th /\ lastDepth' = 0 /\ lastDepths' = [t \in Threads |-> -1] /\ bps' = {}
          /\ pc' = "run" /\ ip' = 1 /\ cycle' = 1 /\ stops' = <<>> /\ executed' = <<>> /\ ncmd' = 0 /\ stepOrigin' = -1
TAdapter ==
  /\ E.a = "Adapter" /\ l' = l + 1 /\ UNCHANGED run
  /\ mode = E.modeBefore
  /\ \/ E.kind = "Pause" /\ Pause(ToOpt(E.th))
     \/ E.kind = "Continue" /\ Continue
     \/ E.kind \in {"StepIn", "StepOver", "StepOut"}
        /\ StepCmd(CASE E.kind = "StepIn" -> "Into" [] E.kind = "StepOver" -> "Over" [] OTHER -> "Out", ToOpt(E.th))
  /\ mode' = E.modeAfter
TSetBps == /\ E.a = "SetBps" /\ l' = l + 1 /\ UNCHANGED run
           /\ \E S \in SUBSET cands : Cardinality(S) = E.n /\ SetBps(S)
PreState == /\ mode = E.mode /\ target = ToOpt(E.target) /\ pending = E.pending
            /\ (IF step.kind = "none" THEN 0 ELSE 1) = E.steps /\ Cardinality(bps) = E.bps
NewStops == SubSeq(stops', Len(stops) + 1, Len(stops'))
\* silent: the cycle thread announced the task it is about to run
TSetCur == pc = "run" /\ cur # Stmt.th /\ SetCur /\ UNCHANGED <<l, run>>
THookEnter ==
  /\ E.a = "HookEnter" /\ l' = l + 1 /\ UNCHANGED run
  /\ cur = E.cur /\ Stmt.loc = E.loc /\ Stmt.depth = E.depth /\ PreState
  /\ HookEnter
  /\ [i \in DOMAIN NewStops |-> NewStops[i].reason] = E.stops
  /\ (pc' = "wait") = (E.end = "wait")
THookWake ==
  /\ E.a = "HookWake" /\ l' = l + 1 /\ UNCHANGED run
  /\ mode = E.mode /\ target = ToOpt(E.target)
  /\ HookWake
  /\ [i \in DOMAIN NewStops |-> NewStops[i].reason] = E.stops
  /\ (pc' = "wait") = (E.end = "wait")
\* the statement thread ran to completion and the program state is the undebugged one
TFinal == /\ E.a = "Final" /\ l' = l + 1 /\ UNCHANGED <<run, vars>>
          /\ pc = "done" /\ E.same
TNext == More /\ (TReset \/ TAdapter \/ TSetBps \/ TSetCur \/ THookEnter \/ THookWake \/ TFinal)
TSpec == TInit /\ [][TNext]_tvars
\* unbounded command count in traces
HighWater == TLCSet(1, IF TLCGet(1) < l THEN l ELSE TLCGet(1))
\* the per-step invariants of the design, evaluated on every state of every validated run
StepInvariants == TypeOK /\ Transparent /\ StopHasLocation
Post == JsonSerialize(IOEnv.OUT, [events |-> Len(Rec), consumed |-> TLCGet(1) - 1, runs |-> Cardinality({i \in DOMAIN Rec : Rec[i].a = "Reset"})])
=================================================================================
