SPECIFICATION Spec
CONSTANTS
  ServerUnit = "utf16"
  UnitNames = {"a", "eacute", "han", "emoji", "nl", "crlf"}
  MaxUnits = 2
  MaxLen = 3
  MaxNotifs = 2
  MaxBatch = 2
  MaxChan = 1
  Lockstep = TRUE
  AllowSlack = TRUE
  AllowReplace = TRUE
  RichInserts = FALSE
  ExportScripts = FALSE
VIEW View
CHECK_DEADLOCK FALSE
INVARIANTS
  TypeOK
  InSync
  QuiescentAgree
  ReportsFaithful
