SPECIFICATION Spec
CONSTANTS
  Threads = {1}
  Dev = {"dupStopped"}
  CmdSet = {"continue", "pause", "next", "setBps0", "setBps1"}
  MaxReqs = 2
  MaxQueued = 1
  MaxStops = 2
INVARIANTS NoDuplicateStopped
CHECK_DEADLOCK FALSE
