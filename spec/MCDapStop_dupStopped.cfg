SPECIFICATION Spec
CONSTANTS
  Threads = {1}
  Dev = {"dupStopped"}
  MaxReqs = 2
  MaxQueued = 1
  MaxStops = 2
INVARIANTS NoDuplicateStopped
CHECK_DEADLOCK FALSE
