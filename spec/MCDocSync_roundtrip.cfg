SPECIFICATION Spec
CONSTANTS
  ServerUnit = "utf16"
  UnitNames = {"a", "eacute", "han", "emoji", "nl", "crlf"}
  MaxUnits = 6
  MaxLen = 12
  MaxNotifs = 1
  MaxBatch = 1
  MaxChan = 1
  Lockstep = TRUE
  AllowSlack = FALSE
  AllowReplace = FALSE
  RichInserts = FALSE
  ExportScripts = FALSE
VIEW View
CHECK_DEADLOCK FALSE
INVARIANTS
  TypeOK
  InSync
  RoundTrip
  PosRoundTrip
