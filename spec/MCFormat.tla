-------------------------------- MODULE MCFormat --------------------------------
(* Design-level model checking of Format, and the script generator of C15.                 *)
(*                                                                                         *)
(* Spec:    the reference formatter of Format on                                           *)
(*            - the adjacent-pair matrix: every text `a b` (and, for a smaller alphabet,   *)
(*              `a b c`) over an alphabet of lexical atoms, under both spacing styles,     *)
(*            - layout documents: every sequence of up to MaxLines lines from a set of     *)
(*              line templates (VAR block, long call, comment line, multi-line comment and *)
(*              pragma, string with a comma, pre-wrapped call, CRLF), with and without      *)
(*              wrapping, every range and every on-type line, formatted twice.              *)
(*          The invariants are the property statements of C15 written with the CONTRACT    *)
(*          operators of Format (the same ones FormatTrace applies to the real code).      *)
(*          Two named deviations are checked to VIOLATE them (MCFormat_blindGlue.cfg,      *)
(*          MCFormat_byIndex.cfg), so the invariants are not vacuous.                      *)
(* GenSpec: the input space of the property as model actions (lines, configuration vector, *)
(*          request); every complete choice is exported as a script for the real language  *)
(*          server and the web IDE formatter.                                               *)
EXTENDS Format, Json

CONSTANTS WithPairs, WithTriples, MaxLines, WithRanges, Maxes, Ends, BlindGlue, ByIndex,
          ExportScripts, RunModel, GenMaxLines

(* ------------------------------------------------------------------------------ inputs *)
Atoms == {
  <<"a">>, <<"b","1">>, <<"I","F">>, <<"i","f">>, <<"T","H","E","N">>, <<"M","O","D">>,
  <<"N","O","T">>, <<"A","T">>, <<"I","N","T","#">>, <<"T","#">>, <<"D","#">>, <<"T","O","D","#">>,
  <<"1">>, <<"1","6">>, <<"5">>, <<"3","0">>, <<"1",".","5">>, <<"1","6","#","F","F">>,
  <<"2","#","1">>, <<"F","F">>, <<"s">>, <<"m","s">>, <<"T","#","5","s">>,
  <<"D","#","2","0","2","4","-","0","1","-","1","5">>,
  <<"T","O","D","#","1","2",":","3","0",":","0","0">>, <<"%","I","X","0",".","5">>,
  <<"%","M","W","1">>, <<"'","s","'">>, <<"'","a",",","b","'">>, <<"'","a"," "," ","b","'">>, <<";">>, <<":">>, <<",">>,
  <<".">>, <<".",".">>, <<"(">>, <<")">>, <<"[">>, <<"]">>, <<"#">>, <<"^">>, <<"@">>, <<":","=">>,
  <<"=",">">>, <<"?","=">>, <<"=">>, <<"<",">">>, <<"<">>, <<"<","=">>, <<">">>, <<">","=">>,
  <<"+">>, <<"-">>, <<"*">>, <<"/">>, <<"*","*">>, <<"&">>, <<"?">>, <<"$">>, <<"'">>, <<"{">>,
  <<"}">>, <<"%">>, <<"(","*","c","*",")">>, <<"/","/","c">>, <<"{","p","}">>, <<"(","*">>,
  <<"*",")">>, <<"/","*">> }
\* the atoms that take part in merges of more than two tokens
SmallAtoms == {
  <<"a">>, <<"1">>, <<"5">>, <<"1","6">>, <<"F","F">>, <<"s">>, <<"T","#">>, <<"D","#">>, <<"2","0","2","4">>,
  <<".">>, <<".",".">>, <<"#">>, <<"-">>, <<":">>, <<"=">>, <<"<">>, <<">">>, <<"*">>, <<"(">>, <<")">>, <<"/">>,
  <<"'">>, <<"%">>, <<"I","X","0">> }
Sp == <<" ">>
PairTexts == IF WithPairs THEN {a \o Sp \o b : a \in Atoms, b \in Atoms} ELSE {}
TripleTexts == IF WithTriples THEN {a \o Sp \o b \o Sp \o c : a \in SmallAtoms, b \in SmallAtoms, c \in SmallAtoms} ELSE {}

\* line templates of the layout documents (index 9/10 and 16/17 are the two halves of a
\* multi-line comment / pragma; 13/14 a call the user wrapped already, 18 ends in CR, 20 is a VAR
\* block whose second declaration continues on the next line)
Templates == <<
  <<"V","A","R">>,
  <<"x",":","I","N","T",";">>,
  <<"y","y"," ",":","T","O","D",":","=","T","O","D","#","1","2",":","3","0",":","0","0",";">>,
  <<"E","N","D","_","V","A","R">>,
  <<"x",":","=","f","(","a",",","b","b",",","c",")",";">>,
  <<"y","y",":","=","1",";"," ","/","/"," ","c">>,
  <<"I","F"," ","a"," ","T","H","E","N">>,
  <<"E","N","D","_","I","F">>,
  <<"(","*"," ","c">>,
  <<" "," ","d"," ","*",")">>,
  <<"s",":","=","'","a",",","b","'",";">>,
  <<>>,
  <<" "," ","g","(","a",",">>,
  <<"b",")",";">>,
  <<"z",":","=","a","<","=","b",";">>,
  <<"{","p">>,
  <<" ","q","}">>,
  <<"y","y",":","=","1",";","\r">>,
  <<"r",":","=","f","b","(","i",":","=","a",",","j",":","=","b","b",",","q","=",">","c",")",";">>,
  <<"V","A","R","\n","t",":","T","O","D",":","=","\n"," ","T","O","D","#","1","2",":","3","0",":","0","0",";","\n","l","o","n","g","_","n","a","m","e",":","I","N","T",";","\n","E","N","D","_","V","A","R">>,
  <<"z",":","=","a"," ","M","O","D"," ","I","N","T","#","5",";">> >>
NT == Len(Templates)
RECURSIVE LineSeqs(_)
LineSeqs(n) == IF n = 0 THEN { <<>> } ELSE { Append(s, k) : s \in LineSeqs(n - 1), k \in 1..NT }
\* the text of a sequence of template indices; every line but the last is terminated
TextOf(ks) == FoldLeft(LAMBDA a, i : a \o Templates[ks[i]] \o (IF i < Len(ks) THEN <<"\n">> ELSE <<>>), <<>>, [i \in 1..Len(ks) |-> i])
LayoutTexts == UNION { {TextOf(ks) : ks \in LineSeqs(n)} : n \in 1..MaxLines }
\* ... and the same with a final line terminator (the usual shape of a file)
LayoutTextsNl == {t \o <<"\n">> : t \in LayoutTexts}
\* documents without a final line terminator: the single lines only
LayoutTextsNoNl == IF MaxLines >= 1 THEN {TextOf(ks) : ks \in LineSeqs(1)} ELSE {}

BaseCfg == [style |-> "spaced", kwcase |-> "upper", width |-> 2, tabs |-> FALSE, ends |-> "aligned", alignColons |-> TRUE,
            alignAssign |-> TRUE, max |-> 0, vendor |-> "none", byIndex |-> ByIndex, blindGlue |-> BlindGlue]
MatrixCfgs == {[BaseCfg EXCEPT !.style = s] : s \in {"spaced", "compact"}}
LayoutCfgs == {[BaseCfg EXCEPT !.max = m, !.ends = e] : m \in Maxes, e \in Ends}
Ranges(t) == {r \in {[op |-> "range", a |-> a, b |-> b] : a \in 1..LineCount(t), b \in 1..LineCount(t)} : r.a <= r.b}
OnTypes(t) == {[op |-> "ontype", a |-> a] : a \in 1..LineCount(t)}
Requests(t) == {[op |-> "full"]} \cup (IF WithRanges THEN Ranges(t) \cup OnTypes(t) ELSE {})

VARIABLES g     \* generator: [stage, ks] while a script is being chosen (GenSpec), [stage |-> "model"] otherwise
mvars == <<fvars, g>>

Init ==
  /\ g = [stage |-> "model"]
  /\ \/ \E t \in PairTexts \cup TripleTexts, c \in MatrixCfgs : FormatInit(t, c, [op |-> "full"])
     \/ \E t \in LayoutTextsNoNl \cup LayoutTextsNl, c \in LayoutCfgs : \E r \in Requests(t) : FormatInit(t, c, r)
\* one named disjunct per phase, so that TLC's coverage shows which of them were taken
MSplitLines == RunModel /\ DoSplitLines /\ UNCHANGED g
MEmitLines == RunModel /\ DoEmitLines /\ UNCHANGED g
MWrap == RunModel /\ DoWrap /\ UNCHANGED g
MAlignColons == RunModel /\ DoAlignColons /\ UNCHANGED g
MAlignAssign == RunModel /\ DoAlignAssign /\ UNCHANGED g
MMakeEdits == RunModel /\ DoMakeEdits /\ UNCHANGED g
MApplyEdits == RunModel /\ DoApplyEdits /\ UNCHANGED g
MAgain == RunModel /\ DoAgain /\ UNCHANGED g
Next == MSplitLines \/ MEmitLines \/ MWrap \/ MAlignColons \/ MAlignAssign \/ MMakeEdits \/ MApplyEdits \/ MAgain
Spec == Init /\ [][Next]_mvars

(* -------------------------------------------------------------------------- invariants *)
Applied == pc = "applied"
\* FormatDoc, FormatRange, FormatOnType, once and twice: the document is the same program
TokensPreserved == Applied => ProgramWhy(Observe(src), Observe(doc)) = {}
\* formatting the formatted document changes nothing
Idempotent == Applied /\ pass = 2 => IdempotenceWhy(Observe(first), Observe(doc)) = {}
\* what the contract observes of a model edit (lines are 1-based in the model, 0-based there)
ObsEdit(t, e) ==
  LET toks == Lex(t)
      code == SelectSeq(toks, IsCode)
      cms == SelectSeq(toks, IsComment)
      last(x) == x.ln + Count(x.t, "\n")
      o == Observe(e.new)
  IN [ls |-> e.ls - 1, le |-> e.le - 1,
      cut |-> \E j \in 1..Len(toks) : ~IsSpace(toks[j]) /\ ((toks[j].ln < e.ls /\ last(toks[j]) >= e.ls)
                                                          \/ (toks[j].ln <= e.le /\ last(toks[j]) > e.le)),
      nf |-> 1 + Cardinality({i \in 1..Len(code) : code[i].ln < e.ls}), nl |-> Cardinality({i \in 1..Len(code) : code[i].ln <= e.le}),
      cf |-> 1 + Cardinality({i \in 1..Len(cms) : cms[i].ln < e.ls}), cl |-> Cardinality({i \in 1..Len(cms) : cms[i].ln <= e.le}),
      nt |-> o.nt, cm |-> o.cm, ld |-> o.ld, ldx |-> o.ld]
\* an edit re-lays-out exactly the lines it covers
EditsConfined == pc = "apply" => EditsWhy(Observe(text), [i \in 1..Len(edits) |-> ObsEdit(text, edits[i])]) = {}
\* wrapping keeps every source line, in order
OriginsInOrder == pc \in {"colons", "assign", "edits"} =>
                    /\ \A i \in 1..(Len(lines) - 1) : lines[i].origin <= lines[i + 1].origin
                    /\ {lines[i].origin : i \in 1..Len(lines)} = 1..LineCount(text)
\* lines that a multi-line comment, pragma or unterminated comment runs through are untouched
KeptLinesVerbatim == pc = "edits" => \A i \in 1..Len(lines) : lines[i].mode = "keep" => Render(lines[i], cfg) = lines[i].raw
\* a request other than FormatDoc never touches the text outside the lines it names
OutsideUntouched == Applied /\ req.op # "full" =>
   LET a == req.a  b == IF req.op = "range" THEN req.b ELSE req.a
       before == TextLines(src)  after == TextLines(doc)
   IN /\ \A i \in 1..(a - 1) : after[i] = before[i]
      /\ \A k \in 0..(Len(before) - b - 1) : after[Len(after) - k] = before[Len(before) - k]

(* ------------------------------------------------------------------------------- export *)
Enc(c) == IF c = "\n" THEN "NL" ELSE IF c = "\t" THEN "TAB" ELSE IF c = "\r" THEN "CR" ELSE c
Script(t, c, r, family) ==
  [text |-> [i \in 1..Len(t) |-> Enc(t[i])], family |-> family,
   cfg |-> [spacingStyle |-> c.style, keywordCase |-> c.kwcase, indentWidth |-> c.width, insertSpaces |-> ~c.tabs,
            endKeywordStyle |-> c.ends, alignVarDecls |-> c.alignColons, alignAssignments |-> c.alignAssign,
            maxLineLength |-> c.max, vendor |-> c.vendor],
   req |-> r]
\* the matrix and the layout documents of the model: one script per initial state
Export == (ExportScripts /\ g.stage = "model" /\ pc = "split" /\ pass = 1) =>
             PrintT(<<"SCRIPT", ToJson(Script(src, cfg, req, IF Count(src, "\n") = 0 THEN "matrix" ELSE "layout"))>>)

(* ------------------------------------------------------------------------------ GenSpec *)
\* choices are made one at a time so that a simulation run draws every field independently
GenInit == /\ g = [stage |-> "lines", ks |-> <<>>]
           /\ FormatInit(<<>>, [BaseCfg EXCEPT !.max = 0], [op |-> "full"])
GenIdle == UNCHANGED <<src, req, pass, text, pc, lines, edits, doc, first>>
GenLine == /\ g.stage = "lines" /\ Len(g.ks) < GenMaxLines
           /\ \E k \in 1..NT : g' = [g EXCEPT !.ks = Append(@, k)]
           /\ UNCHANGED cfg /\ GenIdle
GenField(from, to, field, vals) == /\ g.stage = from /\ \E v \in vals : cfg' = [cfg EXCEPT ![field] = v]
                                   /\ g' = [g EXCEPT !.stage = to] /\ GenIdle
GenCfg == \/ g.stage = "lines" /\ Len(g.ks) >= 1 /\ g' = [g EXCEPT !.stage = "style"] /\ UNCHANGED cfg /\ GenIdle
          \/ GenField("style", "kwcase", "style", {"spaced", "compact"})
          \/ GenField("kwcase", "width", "kwcase", {"preserve", "upper", "lower"})
          \/ GenField("width", "tabs", "width", {1, 2, 4, 8})
          \/ GenField("tabs", "ends", "tabs", BOOLEAN)
          \/ GenField("ends", "alignColons", "ends", {"aligned", "indented"})
          \/ GenField("alignColons", "alignAssign", "alignColons", BOOLEAN)
          \/ GenField("alignAssign", "max", "alignAssign", BOOLEAN)
          \/ GenField("max", "vendor", "max", {0, 20, 40, 120})
          \/ GenField("vendor", "req", "vendor", {"none", "codesys", "siemens"})
GenReq == /\ g.stage = "req"
          /\ LET t == TextOf(g.ks) \o <<"\n">> IN
             /\ src' = t /\ text' = t
             /\ \E r \in {[op |-> "full"]} \cup Ranges(t) \cup OnTypes(t) : req' = r
          /\ g' = [g EXCEPT !.stage = "go"]
          /\ UNCHANGED <<cfg, pass, pc, lines, edits, doc, first>>
GenNext == GenLine \/ GenCfg \/ GenReq
GenSpec == GenInit /\ [][GenNext]_mvars
GenExport == (ExportScripts /\ g.stage = "go") => PrintT(<<"SCRIPT", ToJson(Script(src, cfg, req, "simulated"))>>)
=================================================================================
