SPECIFICATION GenSpec
CONSTANTS
  MaxToks = 0
  MaxEvents = 0
  WithStartNode = FALSE
  WithError = FALSE
  ExportScripts = TRUE
  MaxSoup = 2
  MaxOps = 1
  MaxIns = 1
  NFiles = 12
  Positions = {0, 250, 500, 750, 999}
CHECK_DEADLOCK FALSE
INVARIANT Export
