SPECIFICATION Spec
CONSTANTS
  Sessions = {"a", "b", "v"}
  Viewers = {"v"}
  MaxOps = 6
  MaxExpire = 3
  TornIds = {99}
  Failures = FALSE
  Variant = "locked"
  External = TRUE
  Sequential = FALSE
  CheckTarget = TRUE
  PathLen = 0
  Mode = "mc"
VIEW View
CHECK_DEADLOCK FALSE
INVARIANTS DiskIsLastSuccess
PROPERTIES Chain VersionsGrow OnlyLiveEditorsMutate FileChangesOnlyInWrites
