SPECIFICATION Spec
CONSTANTS
  Sessions = {"a", "b", "v"}
  Viewers = {"v"}
  MaxOps = 7
  Variant = "locked"
  External = TRUE
  Sequential = FALSE
  CheckTarget = TRUE
  PathLen = 0
  Mode = "mc"
VIEW View
CHECK_DEADLOCK FALSE
INVARIANTS DiskIsLastSuccess
PROPERTIES Chain VersionsGrow OnlyLiveEditorsMutate FileChangesOnlyInWrites
