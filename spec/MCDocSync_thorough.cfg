SPECIFICATION Spec
CONSTANTS
  ServerUnit = "utf16"
  UnitNames = {"a", "eacute", "han", "emoji", "nl", "crlf"}
  MaxUnits = 2
  MaxLen = 3
  MaxNotifs = 3
  MaxBatch = 1
  MaxChan = 2
  Lockstep = FALSE
  AllowSlack = TRUE
  AllowReplace = TRUE
  RichInserts = FALSE
  ExportScripts = FALSE
VIEW View
CHECK_DEADLOCK FALSE
INVARIANTS
  TypeOK
  InSync
  QuiescentAgree
  ReportsFaithful
