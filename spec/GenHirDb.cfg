SPECIFICATION Spec
CONSTANTS
  MaxOps = 16
  NFiles = {2, 3, 4, 5}
  QKinds = {"diagnostics", "analyze", "symbols", "types"}
  CatSet = {"small", "large", "dup"}
  ExportScripts = TRUE
VIEW View
CHECK_DEADLOCK FALSE
INVARIANTS
  Export
