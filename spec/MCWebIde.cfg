SPECIFICATION Spec
CONSTANTS
  Sessions = {"a", "b", "c"}
  Viewers = {}
  MaxOps = 6
  MaxExpire = 3
  TornIds = {99}
  Failures = FALSE
  Variant = "locked"
  External = FALSE
  Sequential = FALSE
  CheckTarget = TRUE
  PathLen = 0
  Mode = "mc"
VIEW View
INVARIANTS DiskIsLastSuccess
PROPERTIES NoLostUpdate Chain VersionsGrow OnlyLiveEditorsMutate FileChangesOnlyInWrites
CHECK_DEADLOCK FALSE
