------------------------------ MODULE DocSyncTrace ------------------------------
(* Trace validation of recorded sessions of the real trust-lsp binary against DocSync.      *)
(* The specification is a function of the script, so one TLC pass walks the whole file:     *)
(* Open / Change events drive the model (the editor's text is what the LSP specification    *)
(* says the notifications mean); then                                                       *)
(*   Fresh  the text the harness opened in the reference server with ONE didOpen must be    *)
(*          the specification's editor text (otherwise the harness is wrong: tool error);   *)
(*   Query  the property's own differential formulation: the answer of the server that was  *)
(*          fed (s0; c1..cn) equals the answer of the server that was fed the final text;    *)
(*   Probe  an answer about the identifier at editor position ToPos(i) must carry that      *)
(*          identifier's range in the EDITOR's coordinates (position -> offset -> position); *)
(*   Panic  has no counterpart in the specification and is always rejected.                 *)
(* A mismatch puts the run into `bad`; the rest of that run is skipped up to the next       *)
(* Reset.  Where the protocol or the property is silent the run becomes `inconclusive`      *)
(* (nothing after that point is judged): a text with a lone "\r", a line that does not      *)
(* exist, a range whose start lies after its end, a column inside a surrogate pair, and a   *)
(* column past the end of a "\r\n" line (the protocol clamps before the "\r", the server    *)
(* between "\r" and "\n"; DESIGN section 5, C14, "permissive on").                          *)
(* `feats` collects what the notifications of the run had in common with the known slips    *)
(* (for narrow finding keys).                                                               *)
EXTENDS DocSync, Json, IOUtils
Rec == ndJsonDeserialize(IOEnv.TRACE)
VARIABLES l, run, bad, skip, inconcl, feats, marker, nq, nprobe, nincon, nnull
tvars == <<l, run, bad, skip, inconcl, feats, marker, nq, nprobe, nincon, nnull, d>>
E == Rec[l]
More == l <= Len(Rec)

Init == /\ l = 2 /\ run = 1 /\ bad = <<>> /\ skip = FALSE /\ inconcl = {} /\ feats = {} /\ nq = 0 /\ nprobe = 0
        /\ nincon = 0 /\ nnull = 0 /\ Rec[1].a = "Reset" /\ marker = Rec[1].marker /\ d = Closed
Reset == /\ E.a = "Reset" /\ l' = l + 1 /\ run' = run + 1 /\ skip' = FALSE /\ inconcl' = {} /\ feats' = {}
         /\ marker' = E.marker /\ d' = Closed /\ UNCHANGED <<bad, nq, nprobe, nincon, nnull>>
Skip == /\ skip /\ E.a # "Reset" /\ l' = l + 1 /\ UNCHANGED <<run, bad, skip, inconcl, feats, marker, nq, nprobe, nincon, nnull, d>>

\* the most specific class of the run so far (narrow keys: a finding never widens)
ClassOf(fs) == IF "astral-before-edit-on-same-line" \in fs THEN "astral-before-edit-on-same-line"
               ELSE IF "nonascii-before-edit-on-same-line" \in fs THEN "nonascii-before-edit-on-same-line"
               ELSE IF "column-past-line-end" \in fs THEN "column-past-line-end"
               ELSE IF "crlf-line" \in fs THEN "edit-on-crlf-line"
               ELSE IF "multi-change-notification" \in fs THEN "multi-change-notification"
               ELSE IF "full-text-change" \in fs THEN "full-text-change"
               ELSE IF "ranged-change" \in fs THEN "plain-ranged-change"
               ELSE "after-open"
Mark(why, class) == bad' = Append(bad, [run |-> run, line |-> l, why |-> why, ev |-> E.a, class |-> class,
                                        kind |-> (IF "kind" \in DOMAIN E THEN E.kind ELSE ""), feats |-> feats,
                                        inconcl |-> inconcl])

Open == /\ ~skip /\ E.a = "Open" /\ l' = l + 1 /\ d' = ServerStepOf(EditorOpenOf(Closed, E.text))
        /\ inconcl' = (IF HasLoneCR(E.text) THEN {"lone-cr"} ELSE {})
        /\ UNCHANGED <<run, bad, skip, feats, marker, nq, nprobe, nincon, nnull>>

\* features / ambiguities of one position of a ranged change, on the text it applies to
Before(t, line, col) == LET s == LineStart(t, line) IN {t[j] : j \in s..(ToIndex(t, line, col) - 1)}
PosFeats(t, line, col) ==
  IF LineStart(t, line) = 0 THEN {}
  ELSE (IF \E c \in Before(t, line, col) : c > 65535 THEN {"astral-before-edit-on-same-line"} ELSE {})
       \cup (IF \E c \in Before(t, line, col) : c > 127 /\ c <= 65535 THEN {"nonascii-before-edit-on-same-line"} ELSE {})
       \cup (IF PosClass(t, line, col) = "past-end" THEN {"column-past-line-end"} ELSE {})
       \cup (IF EndsWithCRLF(t, LineStart(t, line)) THEN {"crlf-line"} ELSE {})
PosAmbig(t, line, col) == LET c == PosClass(t, line, col) IN
  CASE c = "no-such-line" -> {"no-such-line"} [] c = "past-end-crlf" -> {"column-past-crlf-line-end"}
    [] c = "inside-pair" -> {"column-inside-surrogate-pair"} [] OTHER -> {}
ChFeats(t, ch) == IF ch.full THEN {"full-text-change"}
                  ELSE {"ranged-change"} \cup PosFeats(t, ch.l1, ch.c1) \cup PosFeats(t, ch.l2, ch.c2)
ChAmbig(t, ch) == IF ch.full THEN {}
                  ELSE PosAmbig(t, ch.l1, ch.c1) \cup PosAmbig(t, ch.l2, ch.c2)
                       \cup (IF WellFormed(t, ch) THEN {} ELSE {"start-after-end"})
RECURSIVE FoldFeats(_, _), FoldAmbig(_, _)
FoldFeats(t, chs) == IF chs = <<>> THEN {} ELSE ChFeats(t, Head(chs)) \cup FoldFeats(ChangeU("utf16", t, Head(chs)), Tail(chs))
\* stop interpreting at the first ambiguous change: what follows has no defined meaning
FoldAmbig(t, chs) == IF chs = <<>> THEN {}
                     ELSE LET a == ChAmbig(t, Head(chs)) n == ChangeU("utf16", t, Head(chs)) IN
                          IF a # {} THEN a ELSE (IF HasLoneCR(n) THEN {"lone-cr"} ELSE FoldAmbig(n, Tail(chs)))

Change == /\ ~skip /\ E.a = "Change" /\ l' = l + 1
          /\ IF inconcl # {} \/ FoldAmbig(d.editor, E.changes) # {}
             THEN /\ inconcl' = inconcl \cup (IF inconcl # {} THEN {} ELSE FoldAmbig(d.editor, E.changes))
                  /\ UNCHANGED <<d, feats>>
             ELSE /\ d' = ServerStepOf(EditorSendOf(d, E.changes))
                  /\ feats' = feats \cup FoldFeats(d.editor, E.changes)
                              \cup (IF Len(E.changes) > 1 THEN {"multi-change-notification"} ELSE {})
                  /\ UNCHANGED inconcl
          /\ UNCHANGED <<run, bad, skip, marker, nq, nprobe, nincon, nnull>>

\* the reference server was opened on the editor's text (else the harness, not the code, is wrong)
Fresh == /\ ~skip /\ E.a = "Fresh" /\ l' = l + 1 /\ UNCHANGED <<run, inconcl, feats, marker, nq, nprobe, nnull, d>>
         /\ IF inconcl # {} THEN nincon' = nincon + 1 /\ UNCHANGED <<bad, skip>>
            ELSE /\ nincon' = nincon
                 /\ IF E.text = d.editor /\ d.server = d.editor /\ d.chan = <<>>
                    THEN UNCHANGED <<bad, skip>> ELSE Mark({"harness-fresh-text"}, "harness") /\ skip' = TRUE

Query == /\ ~skip /\ E.a = "Query" /\ l' = l + 1 /\ UNCHANGED <<run, inconcl, feats, marker, nprobe, nnull, d>>
         /\ IF inconcl # {} THEN nincon' = nincon + 1 /\ UNCHANGED <<bad, skip, nq>>
            ELSE /\ nincon' = nincon /\ nq' = nq + 1
                 /\ IF E.incr = E.fresh THEN UNCHANGED <<bad, skip>>
                    ELSE Mark({"answer-differs"}, ClassOf(feats)) /\ skip' = TRUE

\* An identifier the harness found at index E.i of the editor's text.  It is certainly an identifier
\* TOKEN of the program (whatever else the text holds) if it stands alone and, reading from the
\* start, index i is reached outside every comment with nothing before it outside comments but
\* ASCII that can open neither a string, a pragma, nor a "//" or "/*" comment.  Comments are
\* "(*" .. "*)"; a text with a nested or ambiguous ("(*)") opener before i is not probed.
IsAt(t, j, a, b) == j + 1 <= Len(t) /\ t[j] = a /\ t[j + 1] = b
RECURSIVE CodeAt(_, _, _, _)
CodeAt(t, j, i, inC) ==
  IF j >= i THEN j = i /\ ~inC
  ELSE IF inC THEN (IF IsAt(t, j, 42, 41) THEN CodeAt(t, j + 2, i, FALSE)
                    ELSE IF IsAt(t, j, 40, 42) THEN FALSE ELSE CodeAt(t, j + 1, i, TRUE))
  ELSE IF IsAt(t, j, 40, 42) THEN (IF j + 2 <= Len(t) /\ t[j + 2] = 41 THEN FALSE ELSE CodeAt(t, j + 2, i, TRUE))
  ELSE IF t[j] > 126 \/ t[j] \in {39, 34, 123, 125, 47} THEN FALSE        \* ' " { } /
  ELSE CodeAt(t, j + 1, i, FALSE)
LeftOK(t, i) == i = 1 \/ t[i - 1] \in {32, 9, 10, 59, 41}                          \* blank tab \n ; )
RightOK(t, j) == j > Len(t) \/ t[j] \in {32, 9, 10, 13, 58, 59, 41, 40, 43, 45, 42, 44, 60, 62, 61}
Isolated(t, i, n) == /\ i >= 1 /\ i + n - 1 <= Len(t) /\ SubSeq(t, i, i + n - 1) = marker
                     /\ LeftOK(t, i) /\ RightOK(t, i + n) /\ CodeAt(t, 1, i, FALSE)
ProbeClass(t, i) == LET p == ToPos(t, i) b == Before(t, p[1], p[2]) IN
                    IF \E c \in b : c > 65535 THEN "astral-before-position-on-same-line"
                    ELSE IF \E c \in b : c > 127 THEN "nonascii-before-position-on-same-line"
                    ELSE IF EndsWithCRLF(t, LineStart(t, p[1])) THEN "position-on-crlf-line"
                    ELSE "plain-position"
\* a server that answers (has) must answer with the identifier's range in the editor's coordinates
Right(t, i, n, r) == ~r.has \/ (<<r.l1, r.c1>> = ToPos(t, i) /\ <<r.l2, r.c2>> = ToPos(t, i + n))
Probe == /\ ~skip /\ E.a = "Probe" /\ l' = l + 1 /\ UNCHANGED <<run, inconcl, feats, marker, nq, d>>
         /\ IF inconcl # {} THEN nincon' = nincon + 1 /\ UNCHANGED <<bad, skip, nprobe, nnull>>
            ELSE /\ nincon' = nincon
                 /\ IF ~Isolated(d.editor, E.i, E.n) \/ <<E.ql, E.qc>> # ToPos(d.editor, E.i)
                    THEN Mark({"harness-probe"}, "harness") /\ skip' = TRUE /\ UNCHANGED <<nprobe, nnull>>
                    ELSE /\ nprobe' = nprobe + (IF E.incr.has THEN 1 ELSE 0) + (IF E.fresh.has THEN 1 ELSE 0)
                         /\ nnull' = nnull + (IF E.incr.has THEN 0 ELSE 1) + (IF E.fresh.has THEN 0 ELSE 1)   \* no answer: nothing to judge
                         /\ IF Right(d.editor, E.i, E.n, E.incr) /\ Right(d.editor, E.i, E.n, E.fresh)
                            THEN UNCHANGED <<bad, skip>>
                            ELSE Mark({"position-mismatch"}, ProbeClass(d.editor, E.i)) /\ skip' = TRUE

Panic == /\ ~skip /\ E.a = "Panic" /\ l' = l + 1 /\ Mark({"panic"}, ClassOf(feats)) /\ skip' = TRUE
         /\ UNCHANGED <<run, inconcl, feats, marker, nq, nprobe, nincon, nnull, d>>

Next == More /\ (Reset \/ Skip \/ Open \/ Change \/ Fresh \/ Query \/ Probe \/ Panic)
Spec == Init /\ [][Next]_tvars
\* verdict, written once the last line has been consumed
Done == l = Len(Rec) + 1 =>
          JsonSerialize(IOEnv.OUT, [runs |-> run, events |-> Len(Rec), queries |-> nq, probes |-> nprobe,
                                    unanswered |-> nnull, inconclusive |-> nincon, bad |-> bad])
=================================================================================
