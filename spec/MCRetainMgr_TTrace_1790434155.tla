---- MODULE MCRetainMgr_TTrace_1790434155 ----
EXTENDS Sequences, TLCExt, MCRetainMgr, Toolbox, MCRetainMgr_TEConstants, Naturals, TLC

_expression ==
    LET MCRetainMgr_TEExpression == INSTANCE MCRetainMgr_TEExpression
    IN MCRetainMgr_TEExpression!expression
----

_trace ==
    LET MCRetainMgr_TETrace == INSTANCE MCRetainMgr_TETrace
    IN MCRetainMgr_TETrace!trace
----

_inv ==
    ~(
        TLCGet("level") = Len(_TETrace)
        /\
        dirty = (FALSE)
        /\
        res = ("err")
        /\
        cache = (v1)
        /\
        disk = ("none")
    )
----

_init ==
    /\ dirty = _TETrace[1].dirty
    /\ res = _TETrace[1].res
    /\ cache = _TETrace[1].cache
    /\ disk = _TETrace[1].disk
----

_next ==
    /\ \E i,j \in DOMAIN _TETrace:
        /\ \/ /\ j = i + 1
              /\ i = TLCGet("level")
        /\ dirty  = _TETrace[i].dirty
        /\ dirty' = _TETrace[j].dirty
        /\ res  = _TETrace[i].res
        /\ res' = _TETrace[j].res
        /\ cache  = _TETrace[i].cache
        /\ cache' = _TETrace[j].cache
        /\ disk  = _TETrace[i].disk
        /\ disk' = _TETrace[j].disk

\* Uncomment the ASSUME below to write the states of the error trace
\* to the given file in Json format. Note that you can pass any tuple
\* to `JsonSerialize`. For example, a sub-sequence of _TETrace.
    \* ASSUME
    \*     LET J == INSTANCE Json
    \*         IN J!JsonSerialize("MCRetainMgr_TTrace_1790434155.json", _TETrace)

=============================================================================

 Note that you can extract this module `MCRetainMgr_TEExpression`
  to a dedicated file to reuse `expression` (the module in the 
  dedicated `MCRetainMgr_TEExpression.tla` file takes precedence 
  over the module `MCRetainMgr_TEExpression` below).

---- MODULE MCRetainMgr_TEExpression ----
EXTENDS Sequences, TLCExt, MCRetainMgr, Toolbox, MCRetainMgr_TEConstants, Naturals, TLC

expression == 
    [
        \* To hide variables of the `MCRetainMgr` spec from the error trace,
        \* remove the variables below.  The trace will be written in the order
        \* of the fields of this record.
        dirty |-> dirty
        ,res |-> res
        ,cache |-> cache
        ,disk |-> disk
        
        \* Put additional constant-, state-, and action-level expressions here:
        \* ,_stateNumber |-> _TEPosition
        \* ,_dirtyUnchanged |-> dirty = dirty'
        
        \* Format the `dirty` variable as Json value.
        \* ,_dirtyJson |->
        \*     LET J == INSTANCE Json
        \*     IN J!ToJson(dirty)
        
        \* Lastly, you may build expressions over arbitrary sets of states by
        \* leveraging the _TETrace operator.  For example, this is how to
        \* count the number of times a spec variable changed up to the current
        \* state in the trace.
        \* ,_dirtyModCount |->
        \*     LET F[s \in DOMAIN _TETrace] ==
        \*         IF s = 1 THEN 0
        \*         ELSE IF _TETrace[s].dirty # _TETrace[s-1].dirty
        \*             THEN 1 + F[s-1] ELSE F[s-1]
        \*     IN F[_TEPosition - 1]
    ]

=============================================================================



Parsing and semantic processing can take forever if the trace below is long.
 In this case, it is advised to uncomment the module below to deserialize the
 trace from a generated binary file.

\*
\*---- MODULE MCRetainMgr_TETrace ----
\*EXTENDS IOUtils, MCRetainMgr, MCRetainMgr_TEConstants, TLC
\*
\*trace == IODeserialize("MCRetainMgr_TTrace_1790434155.bin", TRUE)
\*
\*=============================================================================
\*

---- MODULE MCRetainMgr_TETrace ----
EXTENDS MCRetainMgr, MCRetainMgr_TEConstants, TLC

trace == 
    <<
    ([dirty |-> FALSE,res |-> "-",cache |-> "none",disk |-> "none"]),
    ([dirty |-> FALSE,res |-> "err",cache |-> v1,disk |-> "none"])
    >>
----


=============================================================================

---- MODULE MCRetainMgr_TEConstants ----
EXTENDS MCRetainMgr

CONSTANTS v1, v2, v3

=============================================================================

---- CONFIG MCRetainMgr_TTrace_1790434155 ----
CONSTANTS
    Vals = { v1 , v2 , v3 }
    CacheBeforeStore = TRUE
    v2 = v2
    v3 = v3
    v1 = v1

INVARIANT
    _inv

CHECK_DEADLOCK
    \* CHECK_DEADLOCK off because of PROPERTY or INVARIANT above.
    FALSE

INIT
    _init

NEXT
    _next

CONSTANT
    _TETrace <- _trace

ALIAS
    _expression
=============================================================================
\* Generated on Sat Sep 26 14:49:16 UTC 2026