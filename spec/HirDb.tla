--------------------------------- MODULE HirDb ---------------------------------
(* The analysis database of trust-hir (crates/trust-hir/src/db/queries/database.rs,        *)
(* salsa_backend.rs) at the grain of its public API: set_source_text, remove_source_text   *)
(* and the queries diagnostics / analyze / type_of (project level) and file_symbols /      *)
(* expr_id_at_offset (file level).                                                         *)
(*                                                                                         *)
(* Written from property C13: after ANY history of additions, edits, removals,             *)
(* re-additions and queries, every answer equals the answer of a brand-new database loaded *)
(* with the same final contents, no query panics, and a repeated query is stable.          *)
(* Shaped like the code: the database keeps THREE views of the file set that must agree    *)
(*   sources            Database.sources            FileId -> text                         *)
(*   inputs             SalsaState.sources          FileId -> salsa SourceInput (its text) *)
(*   project            ProjectInputs.files         the file list every project-level      *)
(*                                                  query is keyed on (none before the     *)
(*                                                  first sync)                            *)
(* plus the lazy re-sync trigger revision / synced and salsa's memo table.  Salsa itself   *)
(* is trusted relative to the inputs it is given: a memo entry records what it read        *)
(* (file list + texts) and is reused exactly while that is unchanged.                      *)
(* set_source_text has three code paths (equal text: early return / existing salsa input:  *)
(* set_text / new input: file-set change => sync_project_inputs); remove always re-syncs;  *)
(* project-level queries go through with_synced_salsa_state (prepare_salsa_project when    *)
(* synced # revision); file-level queries go through source_handle_for_file.               *)
(* Every operation is a pure operator on the record `d`, so that the model-checking        *)
(* instance (MCHirDb) and the trace specification (HirDbTrace) share one definition.       *)
(*                                                                                         *)
(* File contents are abstract.  The static configuration `cfg` (a VARIABLE fixed by        *)
(* Init/Reset) is a catalogue: content t DECLARES names (each with a type) and REFERENCES  *)
(* names; `opaque` marks an arbitrary content the specification knows nothing about.  The  *)
(* analysis is then a function defined on the model: a referenced name is resolved iff     *)
(* some file of the project declares it, the type of a call is a declared type of the      *)
(* callee, a file's own symbol table holds exactly the names its content declares.         *)
(* An answer maps each relevant name to the SET of acceptable observations; where the      *)
(* property is silent the set is AnyObs: which declaration wins among several files        *)
(* declaring the same name with different types, the type reported for a call of an        *)
(* undeclared function, anything next to an opaque content.                                *)
EXTENDS Integers, Sequences, FiniteSets, TLC

VARIABLES cfg,  \* [cat: Seq([decls: SUBSET [n, ty], refs: SUBSET STRING, opaque: BOOLEAN]),
                \*  files: SUBSET Nat, names: SUBSET STRING, fnames: SUBSET STRING]
          d,    \* [sources, inputs, project: [some, files], revision, synced, memo]
          obs,  \* observation of the last operation (for the properties)
          seen  \* answers given since the last edit, by <<kind, file>> (repeat stability)
hvars == <<cfg, d, obs, seen>>

NoText == 0
AnyObs == {"*"}
Empty == [n \in {} |-> {}]
Files == cfg.files
Texts == DOMAIN cfg.cat
Dom(m) == {f \in DOMAIN m : m[f] # NoText}
ProjectKinds == {"diagnostics", "analyze", "types"}
LocalKinds == {"symbols"}

\* ------------------------------ the analysis, on the model ------------------------------
DeclNames(t) == {x.n : x \in cfg.cat[t].decls}
OpaqueIn(fs, tx) == \E g \in fs : cfg.cat[tx[g]].opaque
DeclaredIn(fs, tx, n) == \E g \in fs : n \in DeclNames(tx[g])
TypesIn(fs, tx, n) == {x.ty : x \in {y \in UNION {cfg.cat[tx[g]].decls : g \in fs} : y.n = n}}
\* project-level answer for file f when the project is the file set fs0 with texts tx
ProjectAnswer(fs0, tx, kind, f) ==
  LET fs == fs0 \cap Dom(tx) IN
  IF f \notin fs THEN Empty
  ELSE LET t == tx[f]
           refs == IF kind = "types" THEN cfg.cat[t].refs \cap cfg.fnames ELSE cfg.cat[t].refs
       IN [n \in refs |->
             IF OpaqueIn(fs, tx) THEN AnyObs
             ELSE IF ~DeclaredIn(fs, tx, n) THEN (IF kind = "types" THEN AnyObs ELSE {"unres"})
             ELSE IF kind = "types" THEN TypesIn(fs, tx, n) ELSE {"ok"}]
\* file-level answer: the file's own symbol table
LocalAnswer(t) ==
  IF t = NoText THEN Empty
  ELSE [n \in cfg.names |-> IF cfg.cat[t].opaque THEN AnyObs
                            ELSE IF n \in DeclNames(t) THEN {"decl"} ELSE {"none"}]
\* what a brand-new database loaded with the map m answers
FreshAnswer(m, kind, f) == IF kind \in LocalKinds THEN LocalAnswer(m[f])
                           ELSE ProjectAnswer(Dom(m), m, kind, f)

\* ----------------------------------- the database -----------------------------------
InitDb == [sources |-> [f \in Files |-> NoText], inputs |-> [f \in Files |-> NoText],
           project |-> [some |-> FALSE, files |-> {}], revision |-> 1, synced |-> 0,
           memo |-> [k \in {} |-> 0]]
SyncProject(inp) == [some |-> TRUE, files |-> Dom(inp)]          \* sync_project_inputs

SetPath(x, f, t) == IF x.sources[f] = t THEN "equal-text"
                    ELSE IF x.inputs[f] # NoText THEN "existing-input" ELSE "new-input"
SetOf(x, f, t) ==
  IF x.sources[f] = t THEN x
  ELSE LET inp == [x.inputs EXCEPT ![f] = t]
       IN [x EXCEPT !.sources = [x.sources EXCEPT ![f] = t],
                    !.revision = x.revision + 1,
                    !.inputs = inp,
                    !.project = IF x.inputs[f] = NoText \/ ~x.project.some THEN SyncProject(inp) ELSE x.project,
                    !.synced = x.revision + 1]
RemoveOf(x, f) ==
  IF x.sources[f] = NoText THEN x
  ELSE LET inp == [x.inputs EXCEPT ![f] = NoText]
       IN [x EXCEPT !.sources = [x.sources EXCEPT ![f] = NoText],
                    !.revision = x.revision + 1,
                    !.inputs = inp,
                    !.project = SyncProject(inp),
                    !.synced = x.revision + 1]
\* with_synced_salsa_state / prepare_salsa_project
Prepared(x) ==
  IF x.synced = x.revision THEN x
  ELSE [x EXCEPT !.inputs = x.sources,
                 !.project = IF Dom(x.inputs) # Dom(x.sources) \/ ~x.project.some
                             THEN SyncProject(x.sources) ELSE x.project,
                 !.synced = x.revision]
\* salsa: reuse the memo while what it read is unchanged, else recompute and store
Lookup(x, key, deps, val) == IF key \in DOMAIN x.memo /\ x.memo[key].deps = deps THEN x.memo[key].val ELSE val
Store(x, key, deps, v) == [x EXCEPT !.memo = (key :> [deps |-> deps, val |-> v]) @@ x.memo]
\* source_handle_for_file: the salsa input of f, created on demand from `sources`
HandleOf(x, f) ==
  IF x.inputs[f] # NoText THEN [d |-> x, found |-> TRUE]
  ELSE IF x.sources[f] = NoText THEN [d |-> x, found |-> FALSE]
  ELSE LET inp == [x.inputs EXCEPT ![f] = x.sources[f]]
       IN [d |-> [x EXCEPT !.inputs = inp, !.project = SyncProject(inp)], found |-> TRUE]
\* the three views agree (the project list exists from the first sync on)
InSync(x) == x.inputs = x.sources /\ (x.project.some => x.project.files = Dom(x.sources))
Result(x, a, p) == [d |-> x, ans |-> a, panic |-> p, insync |-> InSync(x)]
LocalQueryOf(x0, kind, f) ==
  LET h == HandleOf(x0, f)
      x == h.d
  IN IF ~h.found THEN Result(x, Empty, FALSE)
     ELSE LET deps == [text |-> x.inputs[f]]
              a == Lookup(x, <<kind, f>>, deps, LocalAnswer(x.inputs[f]))
          IN Result(Store(x, <<kind, f>>, deps, a), a, FALSE)
ProjectQueryOf(x0, kind, f) ==
  LET x == Prepared(x0) IN
  IF x.inputs[f] = NoText THEN [Result(x, Empty, FALSE) EXCEPT !.insync = @ /\ x.project.some]
  ELSE IF ~x.project.some THEN Result(x, Empty, TRUE)      \* project_inputs(..).expect(..)
  ELSE LET fs == x.project.files
           deps == [files |-> fs, texts |-> [g \in fs |-> x.inputs[g]]]
           a == Lookup(x, <<kind, f>>, deps, ProjectAnswer(fs, x.inputs, kind, f))
       IN [Result(Store(x, <<kind, f>>, deps, a), a, FALSE) EXCEPT !.insync = @ /\ x.project.some]
\* "types" = expr_id_at_offset (file level) followed by type_of (project level)
QueryOf(x, kind, f) ==
  IF kind \in LocalKinds THEN LocalQueryOf(x, kind, f)
  ELSE IF kind = "types"
       THEN LET h == HandleOf(x, f) IN
            IF h.found THEN ProjectQueryOf(h.d, kind, f) ELSE Result(h.d, Empty, FALSE)
       ELSE ProjectQueryOf(x, kind, f)

\* ------------------------------------- actions -------------------------------------
NoObs == [op |-> "Init"]
NoSeen == [k \in {} |-> 0]
InitWith(c) == cfg = c /\ d = InitDb /\ obs = NoObs /\ seen = NoSeen
SetText(f, t) == /\ f \in Files /\ t \in Texts
                 /\ d' = SetOf(d, f, t) /\ obs' = [op |-> "Set", path |-> SetPath(d, f, t)]
                 /\ seen' = NoSeen /\ UNCHANGED cfg
RemoveText(f) == /\ f \in Files
             /\ d' = RemoveOf(d, f) /\ obs' = [op |-> "Remove", path |-> IF d.sources[f] = NoText THEN "absent" ELSE "present"]
             /\ seen' = NoSeen /\ UNCHANGED cfg
Query(kind, f) ==
  /\ f \in Files
  /\ LET r == QueryOf(d, kind, f)
         key == <<kind, f>>
     IN /\ d' = r.d
        /\ obs' = [op |-> "Query", kind |-> kind, f |-> f, ans |-> r.ans, panic |-> r.panic,
                   fresh |-> FreshAnswer(d.sources, kind, f), insync |-> r.insync,
                   stable |-> (key \in DOMAIN seen => seen[key] = r.ans)]
        /\ seen' = (key :> r.ans) @@ seen
  /\ UNCHANGED cfg

\* ------------------------------------ properties ------------------------------------
\* the three views of the file set agree whenever a query is answered ...
InputsInSyncAtQuery == obs.op = "Query" => obs.insync
\* ... and, the code syncing eagerly, in every reachable state
InputsInSync == /\ InSync(d)
                /\ d.synced = d.revision \/ (d.revision = 1 /\ d.synced = 0)
\* the answer of the long-lived database is the answer of a brand-new one
AnswerEqualsFresh == obs.op = "Query" => obs.ans = obs.fresh
\* repeating a query without an intervening edit gives the same answer
RepeatQueryStable == obs.op = "Query" => obs.stable
NoPanic == obs.op = "Query" => ~obs.panic
\* no memo entry that salsa would reuse is stale
MemoSound == \A key \in DOMAIN d.memo :
   LET k == key[1]
       f == key[2]
       m == d.memo[key]
   IN IF k \in LocalKinds
      THEN (d.inputs[f] # NoText /\ m.deps = [text |-> d.inputs[f]]) => m.val = LocalAnswer(d.inputs[f])
      ELSE (d.project.some /\ m.deps = [files |-> d.project.files, texts |-> [g \in d.project.files |-> d.inputs[g]]])
             => m.val = ProjectAnswer(d.project.files, d.inputs, k, f)
=================================================================================
