------------------------- MODULE ResourceFaultTrace -------------------------
(* C08 conformance through the resource thread loop.  One run of the trace = one real      *)
(* resource thread (plain or shared-globals runner) in which one kind of fault was provoked *)
(* under a fault policy, a watchdog action and a safe-state map.  The log is totally       *)
(* ordered (one mutex): R / W = a driver was asked for inputs / given the image `img`      *)
(* (1-based bytes), Obs = what ResourceControl showed when the controller looked (appended *)
(* under the same mutex: every driver call logged before it really happened before),       *)
(* Quiet = the controller kept the clock running for a while after seeing Faulted.         *)
(* The rules are the ones of ResourceFault: Decider / SafeRequired / ErrorOf.              *)
EXTENDS Sequences, Integers, Json, IOUtils, TLC
Rec == ndJsonDeserialize(IOEnv.TRACE)
VARIABLES l, run, cfg, last, seen, calls, bad, nruns
tvars == <<l, run, cfg, last, seen, calls, bad, nruns>>
E == Rec[l]
More == l <= Len(Rec)

Decider(c) == IF c.kind = "watchdog" THEN c.wd ELSE c.policy
Restarts(c) == Decider(c) = "restart"
SafeRequired(c) == IF c.kind = "watchdog" THEN c.wd \in {"halt", "safe_halt"} ELSE c.policy = "safe_halt"
ErrorOf(c) == CASE c.kind = "error" -> "DivisionByZero" [] c.kind = "driver" -> "IoDriver" [] c.kind = "simulation" -> "SimulationFault" [] OTHER -> "WatchdogTimeout"
\* image carries every safe value
IsSafe(img, c) == \A i \in DOMAIN c.safe : img[c.safe[i].b] = c.safe[i].v

NoCfg == [kind |-> "", policy |-> "", wd |-> "", ndrv |-> 0, safe |-> <<>>, runner |-> ""]
Init == l = 1 /\ run = 0 /\ cfg = NoCfg /\ last = <<>> /\ seen = "none" /\ calls = 0 /\ bad = <<>> /\ nruns = 0
Mark(why) == bad' = Append(bad, [run |-> run, line |-> l, why |-> why, kind |-> cfg.kind, policy |-> cfg.policy, wd |-> cfg.wd, runner |-> cfg.runner])

Reset == /\ E.a = "Reset" /\ l' = l + 1 /\ run' = run + 1 /\ nruns' = nruns + 1
         /\ cfg' = [kind |-> E.kind, policy |-> E.policy, wd |-> E.wd, ndrv |-> E.ndrv, safe |-> E.safe, runner |-> E.runner]
         /\ last' = [d \in 1..E.ndrv |-> <<>>] /\ seen' = "none" /\ calls' = 0 /\ UNCHANGED bad
\* a driver call: none may happen once Faulted has been seen
Call == /\ E.a \in {"R", "W"} /\ l' = l + 1
        /\ last' = (IF E.a = "W" THEN [last EXCEPT ![E.d] = E.img] ELSE last)
        /\ calls' = calls + 1
        /\ (IF seen = "Faulted" THEN Mark({"driver-call-after-fault-reported"}) ELSE UNCHANGED bad)
        /\ UNCHANGED <<run, cfg, seen, nruns>>
Inject == E.a \in {"Inject", "Quiet"} /\ l' = l + 1 /\ UNCHANGED <<run, cfg, last, seen, calls, bad, nruns>>
Obs == /\ E.a = "Obs" /\ l' = l + 1 /\ seen' = E.state
       /\ LET why ==
              (IF Restarts(cfg) /\ E.state = "Faulted" THEN {"faulted-under-restart-policy"} ELSE {})
              \cup (IF ~Restarts(cfg) /\ E.state # "Faulted" THEN {"fault-never-reported"} ELSE {})
              \cup (IF Restarts(cfg) /\ E.verdict # "running" /\ E.state # "Faulted" THEN {"no-cycles-after-restart"} ELSE {})
              \cup (IF E.state = "Faulted" /\ E.err # ErrorOf(cfg) THEN {"reported-error"} ELSE {})
              \cup (IF E.state = "Faulted" /\ SafeRequired(cfg) /\ \E d \in 1..cfg.ndrv : (last[d] = <<>> \/ ~IsSafe(last[d], cfg))
                    THEN {"safe-image-not-delivered-before-report"} ELSE {})
          IN IF why = {} THEN UNCHANGED bad ELSE Mark(why)
       /\ UNCHANGED <<run, cfg, last, calls, nruns>>
End == /\ E.a = "End" /\ l' = l + 1
       /\ (IF ~E.joined THEN Mark({"join-timeout"}) ELSE UNCHANGED bad)
       /\ UNCHANGED <<run, cfg, last, seen, calls, nruns>>
Next == More /\ (Reset \/ Call \/ Inject \/ Obs \/ End)
Spec == Init /\ [][Next]_tvars
Done == l = Len(Rec) + 1 => JsonSerialize(IOEnv.OUT, [events |-> Len(Rec), runs |-> nruns, bad |-> bad])
=============================================================================
