----------------------------- MODULE MCStbcContainer -----------------------------
(* Bounded exhaustive check of StbcContainer.                                              *)
(*  mode "frame": every section table of up to MaxEntries entries on a grid of offsets /   *)
(*     lengths                                                                             *)
(*     (overlap by one byte, adjacent, zero length, end = file length, one past the end,   *)
(*     unaligned, inside the table) and every combination of header defects.  Checked:     *)
(*     the decision shaped like decode.rs (sort + scan, checks in code order) agrees with  *)
(*     the definition wherever the documentation decides; arithmetic overlap = sharing a   *)
(*     byte; an accepted table can be sliced without leaving the file.                     *)
(*  mode "life": Emit -> Mutate(field class x hostile value class) -> Decode -> Validate   *)
(*     -> Metadata -> Apply over every field class of every section.  Checked: the phase   *)
(*     order, "emitted => decodes and validates", "framing violation => not decoded",      *)
(*     pre-allocation bounded by the input, and that the encoder's layout is a valid frame *)
(*     that decodes back to the same sections (exact round trip at the framing level).     *)
(* The same instance exports what it explores as scripts for the real code (Export).       *)
EXTENDS StbcContainer, Json
CONSTANTS Modes, ExportScripts, MaxEntries

VARIABLES mode, hist       \* hist: the script of this behaviour (observation only, hidden by View)
mvars == <<pc, c, out, mem, mode, hist>>
View == <<pc, c, out, mem, mode>>

\* ------------------------------------------------------------------ frames
PB(n) == Align4(HeaderLen + n * EntrySize)
OffDeltas == {-4, 0, 1, 4, 8, 12}
LenSet == {0, 1, 4, 5, 8}
\* (a coarser grid for tables of more than 3 entries keeps the thorough instance in minutes)
Entries(n) == IF n <= 3 THEN {[id |-> 32769, off |-> PB(n) + d, length |-> ln] : d \in OffDeltas, ln \in LenSet}
              ELSE {[id |-> 32769, off |-> PB(n) + d, length |-> ln] : d \in {0, 4, 8, 12}, ln \in {0, 4, 5}}
GoodHeader(n, t, L) == [len |-> L, magicOk |-> TRUE, major |-> 1, minor |-> 1, headerSize |-> 24, count |-> n, tableOff |-> 24,
                        crcFlag |-> TRUE, crcOk |-> TRUE, table |-> t]
\* four well-formed sections behind the largest table position used below
TBase == << [id |-> 32769, off |-> 88, length |-> 5], [id |-> 6, off |-> 96, length |-> 4],
            [id |-> 32771, off |-> 100, length |-> 0], [id |-> 32772, off |-> 104, length |-> 8] >>
\* (the frame sets are enumerated inside Init; as constant sets TLC would build their union
\* with a quadratic membership search)
HeaderFrame(L, mg, mj, hs, to, n, cf, ck) ==
  [len |-> L, magicOk |-> mg, major |-> mj, minor |-> 1, headerSize |-> hs, count |-> n, tableOff |-> to,
   crcFlag |-> cf, crcOk |-> ck,
   table |-> IF to >= HeaderLen /\ to + n * EntrySize <= L THEN SubSeq(TBase, 1, n) ELSE <<>>]
\* a typed section with an arbitrary body: not decided by framing
TypedFrame == GoodHeader(1, <<[id |-> 1, off |-> 36, length |-> 4]>>, 40)

\* ------------------------------------------------------------------ field catalogue (docs section 6)
Catalogue ==
  [STRING_TABLE |-> {"count", "length"},
   TYPE_TABLE |-> {"count", "offset", "tag", "index", "optindex", "id", "i64", "u32"},
   CONST_POOL |-> {"count", "index", "length"},
   REF_TABLE |-> {"count", "tag", "index", "i64", "u32"},
   POU_INDEX |-> {"count", "index", "optindex", "id", "optid", "tag", "offset", "length", "u32"},
   POU_BODIES |-> {"opcode", "jump", "index", "id", "u32"},
   RESOURCE_META |-> {"count", "index", "optindex", "size", "i64", "u32"},
   IO_MAP |-> {"count", "index", "optindex"},
   DEBUG_MAP |-> {"count", "id", "offset", "index", "u32"},
   DEBUG_STRING_TABLE |-> {"count", "length"},
   VAR_META |-> {"count", "index", "optindex", "tag"},
   RETAIN_INIT |-> {"count", "index"}]
VCs == {"0", "1", "n-1", "n", "n+1", "2^16", "2^31-1", "2^31", "2^32-1"}
\* value of a hostile class relative to the natural bound n, in the harness's projection
Val(vc, n) == CASE vc = "0" -> 0 [] vc = "1" -> 1 [] vc = "n-1" -> (IF n = 0 THEN Big + 3 ELSE n - 1) [] vc = "n" -> n
                [] vc = "n+1" -> n + 1 [] vc = "2^16" -> 65536 [] vc = "2^31-1" -> Big + 3 [] vc = "2^31" -> Big
                [] vc = "2^32-1" -> Big + 3
\* what the compiler emits, abstractly: section ids with payload lengths (unaligned and empty
\* payloads included); Shape is the program shape handed to the real compiler
Shapes == << [secs |-> << [id |-> 1, length |-> 9], [id |-> 2, length |-> 16], [id |-> 6, length |-> 0], [id |-> 7, length |-> 5] >>,
              prog |-> [types |-> FALSE, classes |-> FALSE, ifaces |-> FALSE, fb |-> FALSE, func |-> TRUE, ctrl |-> TRUE, cfg |-> 0,
                        io |-> FALSE, retain |-> FALSE, ntasks |-> 1, taskfb |-> FALSE, dbg |-> FALSE, strs |-> FALSE, k |-> 3]],
             [secs |-> << [id |-> 1, length |-> 12], [id |-> 3, length |-> 7], [id |-> 5, length |-> 20], [id |-> 6, length |-> 6], [id |-> 11, length |-> 4] >>,
              prog |-> [types |-> TRUE, classes |-> FALSE, ifaces |-> TRUE, fb |-> TRUE, func |-> FALSE, ctrl |-> TRUE, cfg |-> 1,
                        io |-> TRUE, retain |-> TRUE, ntasks |-> 2, taskfb |-> TRUE, dbg |-> TRUE, strs |-> TRUE, k |-> 11]],
             [secs |-> << [id |-> 4, length |-> 8], [id |-> 9, length |-> 3], [id |-> 10, length |-> 1] >>,
              prog |-> [types |-> TRUE, classes |-> TRUE, ifaces |-> TRUE, fb |-> TRUE, func |-> TRUE, ctrl |-> TRUE, cfg |-> 2,
                        io |-> TRUE, retain |-> TRUE, ntasks |-> 3, taskfb |-> TRUE, dbg |-> TRUE, strs |-> TRUE, k |-> 7]] >>

\* ------------------------------------------------------------------ behaviours
LayoutMut == [kind |-> "layout", cls |-> "", newc |-> 0, rem |-> 0, single |-> FALSE]
FrameInit(f) == c = [frame |-> f, mut |-> LayoutMut, img |-> 0] /\ hist = [kind |-> "frame", from |-> "tlc", layout |-> f]
Init == /\ mode \in Modes /\ out = NoOut /\ mem = 0
        /\ \/ /\ mode = "frame" /\ pc = "mutated"
              /\ \/ \E n \in 0..MaxEntries : \E t \in [1..n -> Entries(n)], dl \in {8, 12, 13} : FrameInit(GoodHeader(n, t, PB(n) + dl))
                 \/ \E L \in {10, 23, 24, 60, 100, 112, 116}, mg \in BOOLEAN, mj \in {0, 1, 2}, hs \in {20, 23, 24, 25, 28},
                       to \in {20, 24, 26, 28, 36, 40, Big, Big + 1}, n \in 0..4, cf \in BOOLEAN, ck \in BOOLEAN :
                         FrameInit(HeaderFrame(L, mg, mj, hs, to, n, cf, ck))
                 \/ FrameInit(TypedFrame)
           \/ mode = "life" /\ pc = "start" /\ c = [frame |-> EncodeFrame(<<>>), mut |-> NoMut, img |-> 0]
              /\ hist = [kind |-> "life", from |-> "tlc"]

DoDecodeLayout == \E r \in FrameDecodeAllowed(c.frame) :
   /\ mode = "frame" /\ pc = "mutated" /\ out' = [out EXCEPT !.decode = r] /\ pc' = "done" /\ UNCHANGED <<c, mem, mode, hist>>

DoEmit == \E s \in DOMAIN Shapes :
   /\ mode = "life" /\ Emit(EncodeFrame(Shapes[s].secs))
   /\ hist' = [kind |-> "life", from |-> "tlc", prog |-> Shapes[s].prog, mut |-> [kind |-> "none"]] /\ UNCHANGED mode
Script(m) == [hist EXCEPT !.mut = m]
\* one field of a section body replaced by a hostile value (the framing is untouched)
DoMutateBody == \E sec \in DOMAIN Catalogue : \E cls \in Catalogue[sec], vc \in VCs, n \in {0, 3}, rem \in {0, 8, 40} :
   /\ mode = "life" /\ (cls # "count" => n = 3 /\ rem = 40)
   /\ Mutate([kind |-> "field", cls |-> cls, newc |-> Val(vc, n), rem |-> rem, single |-> TRUE], c.frame)
   /\ hist' = Script([kind |-> "field", sec |-> sec, cls |-> cls, k |-> n + rem, vc |-> vc]) /\ UNCHANGED mode
\* one field of the section table replaced (n = the value that just fits)
DoMutateTable == \E i \in DOMAIN c.frame.table, which \in {"tbl-off", "tbl-len"}, vc \in VCs :
   LET e == c.frame.table[i]
       v == IF which = "tbl-off" THEN Val(vc, c.frame.len) ELSE Val(vc, c.frame.len - e.off)
       e2 == IF which = "tbl-off" THEN [e EXCEPT !.off = v] ELSE [e EXCEPT !.length = v]
   IN /\ mode = "life"
      /\ Mutate([kind |-> "field", cls |-> which, newc |-> v, rem |-> 0, single |-> TRUE], [c.frame EXCEPT !.table[i] = e2])
      /\ hist' = Script([kind |-> "field", sec |-> "SECTION_TABLE", cls |-> which, k |-> i - 1, vc |-> vc]) /\ UNCHANGED mode
\* header fields (k = position of the field in the header); a moved table is unreadable here
DoMutateHeader == \E fld \in {"magic", "major", "header_size", "section_table_off", "checksum"}, vc \in VCs :
   LET f == c.frame
       f2 == CASE fld = "magic" -> [f EXCEPT !.magicOk = (vc = "n")]
               [] fld = "major" -> [f EXCEPT !.major = Val(vc, 1)]
               [] fld = "header_size" -> [f EXCEPT !.headerSize = Min(Val(vc, 24), 65535)]
               [] fld = "section_table_off" -> LET to == Val(vc, f.len - f.count * EntrySize) IN
                      [f EXCEPT !.tableOff = to, !.table = IF to = f.tableOff THEN f.table ELSE <<>>,
                                !.count = IF to = f.tableOff \/ to + f.count * EntrySize > f.len THEN f.count ELSE 0]
               [] fld = "checksum" -> [f EXCEPT !.crcOk = (vc = "n")]
       k == CASE fld = "magic" -> 0 [] fld = "major" -> 1 [] fld = "header_size" -> 4 [] fld = "section_table_off" -> 6 [] fld = "checksum" -> 7
   IN /\ mode = "life"
      /\ Mutate([kind |-> "field", cls |-> "hdr", newc |-> 0, rem |-> 0, single |-> TRUE], f2)
      /\ hist' = Script([kind |-> "field", sec |-> "HEADER", cls |-> "hdr", k |-> k, vc |-> vc]) /\ UNCHANGED mode
\* the file cut at a section boundary +- 1 (CRC recomputed)
DoTruncate == \E i \in DOMAIN c.frame.table, atEnd \in BOOLEAN, d \in {-1, 0, 1} :
   LET e == c.frame.table[i]
       L == Min((IF atEnd THEN End(e) ELSE e.off) + d, c.frame.len)
       f == c.frame
       f2 == [f EXCEPT !.len = L, !.table = IF TableEnd(f) <= L THEN f.table ELSE <<>>]
   IN /\ mode = "life"
      /\ Mutate([kind |-> "trunc", cls |-> "trunc", newc |-> L, rem |-> 0, single |-> FALSE], f2)
      /\ hist' = Script([kind |-> "trunc", k |-> 2 * i + (IF atEnd THEN 1 ELSE 0), delta |-> d]) /\ UNCHANGED mode
DoDecode == \E r \in Outcomes : mode = "life" /\ Decode(r) /\ UNCHANGED <<mode, hist>>
DoValidate == \E r \in Outcomes : Validate(r) /\ UNCHANGED <<mode, hist>>
DoMetadata == \E r \in Outcomes, img \in {7, Big} : Metadata(r, img) /\ UNCHANGED <<mode, hist>>
DoApply == \E r \in Outcomes \cup {"abort-alloc"} : Apply(r) /\ UNCHANGED <<mode, hist>>
Next == DoDecodeLayout \/ DoEmit \/ DoMutateBody \/ DoMutateTable \/ DoMutateHeader \/ DoTruncate
        \/ DoDecode \/ DoValidate \/ DoMetadata \/ DoApply
Spec == Init /\ [][Next]_mvars

\* ------------------------------------------------------------------ invariants: framing
F == c.frame
AtLayout == mode = "frame" /\ pc = "mutated"
\* the code-shaped decision agrees with the definition wherever the documentation decides
ScanAgrees == AtLayout => /\ (Verdict(F) = "reject" => DecodeFraming(F) # "ok")
                          /\ (Verdict(F) = "accept" => DecodeFraming(F) = "ok")
\* ... and where it does not decide, the code-shaped decision is still safe
FreeIsSafe == AtLayout /\ DecodeFraming(F) = "ok" => \A i \in DOMAIN F.table : End(F.table[i]) <= F.len
\* arithmetic overlap is "the two payloads share a byte"
BytesOf(e) == e.off .. (End(e) - 1)
OverlapIsSharedByte == AtLayout /\ F.tableOff < Big =>
   \A i, j \in DOMAIN F.table : (F.table[i].off < Big /\ F.table[j].off < Big /\ i # j) =>
       (Overlap(F.table[i], F.table[j]) <=> BytesOf(F.table[i]) \cap BytesOf(F.table[j]) # {})
\* an accepted layout can be sliced: payloads inside the file, disjoint from each other and
\* from header and table
AcceptedPartitions == AtLayout /\ Verdict(F) = "accept" =>
   /\ \A i \in DOMAIN F.table : BytesOf(F.table[i]) \subseteq TableEnd(F) .. (F.len - 1)
   /\ \A i, j \in DOMAIN F.table : i # j => BytesOf(F.table[i]) \cap BytesOf(F.table[j]) = {}
\* the three verdicts really occur (vacuity guard evaluated by the driver from coverage)

\* ------------------------------------------------------------------ invariants: encoder layout / round trip
EncoderLayoutValid == pc = "start" => \A s \in DOMAIN Shapes :
   LET secs == Shapes[s].secs
       f == EncodeFrame(secs)
   IN /\ Verdict(f) # "reject" /\ DecodeFraming(f) = "ok"
      /\ f.len % 4 = 0 /\ \A i \in DOMAIN f.table : f.table[i].off % 4 = 0 /\ End(f.table[i]) <= f.len
      /\ DecodeSections(f) = secs                                  \* decode(encode(m)) = m, framing level
      /\ EncodeFrame(DecodeSections(f)) = f                        \* encode(decode(e)) = e, framing level
\* ------------------------------------------------------------------ invariants: life cycle
Total == /\ out.decode \in {"-"} \cup Outcomes /\ out.validate \in {"-"} \cup Outcomes /\ out.metadata \in {"-"} \cup Outcomes
         /\ out.apply \in {"-"} \cup Outcomes \cup (IF c.img >= ImgBound THEN {"abort-alloc"} ELSE {})
PhaseOrder == /\ (out.validate # "-" => out.decode = "ok") /\ (out.metadata # "-" => out.validate # "-")
              /\ (out.apply # "-" => out.metadata # "-")
EmittedDecodesAndValidates == mode = "life" /\ Emitted(c) =>
   /\ (out.decode # "-" => out.decode = "ok") /\ (out.validate # "-" => out.validate = "ok")
BrokenFramingNeverDecoded == out.decode = "ok" => Verdict(F) # "reject" /\ \A i \in DOMAIN F.table : End(F.table[i]) <= F.len
TruncatedArrayNeverDecoded == out.decode = "ok" => ~CountCannotFit(c)
MemProportional == mem <= c.frame.len

\* ------------------------------------------------------------------ export (spec -> implementation)
Export == (ExportScripts /\ pc = "done") => PrintT(<<"SCRIPT", ToJson(hist)>>)
=================================================================================
