SPECIFICATION Spec
INVARIANT Lemmas
CHECK_DEADLOCK FALSE
