#!/usr/bin/env python3
"""usage: mkmutant.py <name> <repo-relative-path> <<< JSON {"old": "...", "new": "..."}
Writes /verif/mutants/<name>.diff (unified diff against /repo's file) without touching /repo."""
import difflib
import json
import sys

name, rel = sys.argv[1], sys.argv[2]
spec = json.load(sys.stdin)
src = open(f"/repo/{rel}").read()
assert src.count(spec["old"]) == 1, f"old text occurs {src.count(spec['old'])} times"
new = src.replace(spec["old"], spec["new"])
d = difflib.unified_diff(src.splitlines(True), new.splitlines(True), f"a/{rel}", f"b/{rel}")
open(f"/verif/mutants/{name}.diff", "w").write("".join(d))
print("wrote", name)
