"""Minimal JSON-RPC / LSP client for the real trust-lsp binary over stdio (used by C14).
A reader thread drains the server's stdout continuously (so the server never blocks on a
full pipe), answers server->client requests, and hands responses to the caller.  A server
that exits, closes its stdout or prints a Rust panic message is reported as ServerDied with
whatever it wrote to stderr: for the checks this is DATA (a Panic event), never a verdict by
itself.  A server that is alive but silent past the time budget raises ServerTimeout, which
the checks treat as a tool error."""
import json
import os
import queue
import subprocess
import tempfile
import threading
import time


class ServerDied(Exception):
    pass


class ServerTimeout(Exception):
    pass


class LspServer:
    def __init__(self, binary, *, name="lsp", init_options=None, pull_diagnostics=True, workdir=None, env=None):
        self.name = name
        self.errf = tempfile.NamedTemporaryFile(prefix=f"{name}-", suffix=".stderr", dir=workdir, delete=False)
        e = dict(os.environ)
        e["RUST_BACKTRACE"] = "0"      # a backtrace of the debug binary takes seconds to print
        e["RUST_LOG"] = "off"
        if env:
            e.update(env)
        try:
            self.p = subprocess.Popen([str(binary)], stdin=subprocess.PIPE, stdout=subprocess.PIPE,
                                      stderr=self.errf, env=e, cwd=workdir)
        except OSError:
            self.errf.close()
            os.unlink(self.errf.name)
            raise
        self.next_id = 0
        self.responses = {}
        self.cv = threading.Condition()
        self.eof = False
        self.notifications = 0
        self.wlock = threading.Lock()
        self.reader = threading.Thread(target=self._read_loop, daemon=True)
        self.reader.start()
        caps = {"textDocument": {"synchronization": {"dynamicRegistration": False},
                                 "semanticTokens": {"requests": {"full": True}, "tokenTypes": [], "tokenModifiers": [],
                                                    "formats": ["relative"]}}}
        if pull_diagnostics:
            # the server pushes diagnostics after every notification unless the client can pull them
            caps["workspace"] = {"diagnostic": {"refreshSupport": True}}
            caps["textDocument"]["diagnostic"] = {"dynamicRegistration": False}
        r = self.request("initialize", {"processId": None, "rootUri": None, "capabilities": caps,
                                        "initializationOptions": init_options or {}}, timeout=60)
        if "result" not in r:
            raise ServerDied(f"initialize failed: {r}")
        self.capabilities = r["result"].get("capabilities", {})
        self.notify("initialized", {})

    # ------------------------------------------------------------------ wire
    def _send(self, msg):
        b = json.dumps(msg, ensure_ascii=False).encode("utf-8")
        try:
            with self.wlock:
                self.p.stdin.write(b"Content-Length: %d\r\n\r\n" % len(b) + b)
                self.p.stdin.flush()
        except (BrokenPipeError, OSError, ValueError) as ex:
            raise ServerDied(f"write to server failed ({ex}); stderr: {self.stderr_tail()}")

    def _read_msg(self):
        out = self.p.stdout
        n = None
        while True:
            line = out.readline()
            if not line:
                return None
            if line in (b"\r\n", b"\n"):
                break
            if line.lower().startswith(b"content-length:"):
                n = int(line.split(b":", 1)[1])
        if n is None:
            return None
        body = b""
        while len(body) < n:
            chunk = out.read(n - len(body))
            if not chunk:
                return None
            body += chunk
        return json.loads(body.decode("utf-8"))

    def _read_loop(self):
        try:
            while True:
                m = self._read_msg()
                if m is None:
                    break
                if "method" in m and "id" in m:
                    # server -> client request (workspace/configuration, registerCapability, refresh ...)
                    if m["method"] == "workspace/configuration":
                        res = [None for _ in m.get("params", {}).get("items", [])]
                    else:
                        res = None
                    try:
                        self._send({"jsonrpc": "2.0", "id": m["id"], "result": res})
                    except ServerDied:
                        break
                elif "id" in m:
                    with self.cv:
                        self.responses[m["id"]] = m
                        self.cv.notify_all()
                else:
                    self.notifications += 1
        except Exception:       # a malformed frame ends the session; the caller sees ServerDied
            pass
        with self.cv:
            self.eof = True
            self.cv.notify_all()

    # ------------------------------------------------------------------ API
    def notify(self, method, params):
        self._send({"jsonrpc": "2.0", "method": method, "params": params})

    def send_request(self, method, params):
        self.next_id += 1
        rid = self.next_id
        self._send({"jsonrpc": "2.0", "id": rid, "method": method, "params": params})
        return rid

    def wait(self, rid, timeout=60):
        start = time.time()
        end = start + timeout
        with self.cv:
            while rid not in self.responses:
                if self.eof:
                    raise ServerDied(f"server closed its output (exit code {self.p.poll()}); stderr: {self.stderr_tail()}")
                left = end - time.time()
                # a handler panic unwinds the server's main task, but the process lingers until its
                # stdin reader returns: the panic message on stderr is the evidence
                if (left <= 0 or time.time() - start > 0.4) and self.panicked():
                    raise ServerDied(f"server panicked and does not answer; stderr: {self.stderr_tail()}")
                if left <= 0:
                    raise ServerTimeout(f"no response to request {rid} within {timeout}s")
                self.cv.wait(min(left, 0.5))
            return self.responses.pop(rid)

    def request(self, method, params, timeout=60):
        return self.wait(self.send_request(method, params), timeout)

    def stderr_tail(self, n=600):
        """The panic message if there is one, else the last bytes of stderr."""
        try:
            with open(self.errf.name, "rb") as f:
                data = f.read().decode("utf-8", "replace")
        except OSError:
            return ""
        k = data.find("panicked at")
        if k >= 0:
            return data[data.rfind("\n", 0, k) + 1:k + n].strip()
        return data[-n:].strip()

    def panicked(self):
        return "panicked at" in self.stderr_tail()

    def alive(self):
        return self.p.poll() is None and not self.eof

    def close(self):
        try:
            if self.alive():
                try:
                    self.request("shutdown", None, timeout=5)
                    self.notify("exit", None)
                except (ServerDied, ServerTimeout):
                    pass
            try:
                self.p.stdin.close()
            except OSError:
                pass
            try:
                self.p.wait(timeout=3)
            except subprocess.TimeoutExpired:
                self.p.kill()
                self.p.wait(timeout=5)
        finally:
            try:
                self.errf.close()
                os.unlink(self.errf.name)
            except OSError:
                pass
