#!/usr/bin/env python3
"""Regenerates /verif/MANIFEST.json from the table below (keeps it schema-valid)."""
import json
import subprocess
from pathlib import Path

VERIF = Path(__file__).resolve().parent.parent
PROPS = [json.loads(l)["id"] for l in open(VERIF / "properties.jsonl")]

CHECKS = {
    "C04": dict(cat="model_checking", engine="StdFb", ref="§5 C04",
                tech="TLA+ StdFb spec (history definitions = state machines, model-checked with TLC) + TLC trace validation of recorded FB calls",
                text="TLC proves the StdFb state machines equal the history-based IEC definitions of TON/TOF/TP/R_TRIG/F_TRIG on every call "
                     "history up to the bound, plus ET<=PT, ET monotone, TP non-retriggerable, counter saturation, bistable dominance and "
                     "instance independence; TLC-exported and seeded random call scripts (two interleaved instances, PT/PV incl. 0, negative, "
                     "type bounds, dt=0 bursts, PT changed while timing) run through the public step structs and through an ST program on the "
                     "real runtime, and every call's outputs are validated against the machines by TLC.",
                note="1 tick = 1 ms; ET compared only where the property constrains it; 64-bit counter bounds outside TLC integers are not exercised"),
    "C06": dict(cat="model_checking", engine="RuntimeCycle", ref="§5 C06",
                tech="TLA+ RuntimeCycle spec model-checked with TLC; recorded runs of the real runtime trace-validated against it",
                text="TLC checks the task-model invariants (due set, priority order, at most once, background last, no replay) on "
                     "MCRuntimeCycle exhaustively for small constants; TLC-exported and seeded random (task set x timeline) scripts are "
                     "executed on the real Runtime and every cycle's executed sequence, task events and overrun counters are validated "
                     "against the specification by TLC.",
                note="trusts TLC, the generated ST programs' execution log, RuntimeEvent::TaskStart; tasks with both SINGLE and INTERVAL are accepted under either reading of the period restart"),
    "C07": dict(cat="model_checking", engine="RuntimeCycle", ref="§5 C07",
                tech="TLA+ RuntimeCycle spec (process image) + TLC trace validation of logging-driver recordings",
                text="TLC checks driver call shape, latch stability, publish = encode(final), locality on MCRuntimeCycle; recorded driver "
                     "call logs, full %I/%Q/%M images and bound variable bytes of every cycle of generated binding sets (X/B/W/D/L, "
                     "overlapping inputs, adjacent outputs, two drivers) are validated against the specification.",
                note="trusts the logging IoDriver of the harness; overlapping output bindings are not generated"),
    "C08": dict(cat="fault_enumeration", engine="RuntimeCycle", ref="§5 C08",
                tech="TLA+ RuntimeCycle fault model checked with TLC; fault points enumerated and replayed on the real runtime, traces validated by TLC",
                text="Every fault point of the model (each program statement index incl. nested FUNCTION/FB, driver read/write "
                     "failure, watchdog, simulation fault) x policy x watchdog action x safe-state map is explored by TLC; scripts "
                     "injecting those faults through public means run on the real Runtime and the latch, refused cycles, safe image "
                     "and per-driver delivery are validated event by event.",
                note="faults are injected by division by zero in generated programs, failing scripted drivers, Runtime::watchdog_timeout/simulation_fault"),
}
CHECKS["C09"] = dict(cat="model_checking", engine="RuntimeCycle", ref="§5 C09",
    tech="TLA+ RuntimeCycle restart model checked with TLC; restart/power-cycle histories replayed on the real runtime and trace-validated by TLC",
    text="TLC checks WarmKeepsExactlyRetained, ColdEqualsFresh, PowerCycleSetEqualsWarmSet, RestartResets on MCRuntimeCycle; generated "
         "programs declaring RETAIN/NON_RETAIN/PERSISTENT/unqualified variables of 9 type shapes in global and program scope run "
         "histories of cycles, faults, %I changes, warm/cold restarts, save+rebuild+load power cycles and VAR_ACCESS writes on the real "
         "runtime; after every event the decoded variable values, bound variables, images, access paths, task state, clock and latch "
         "are validated against the specification, whose restart equals a fresh configuration (so dead bindings show as divergence).",
    note="raw %Q/%I image bytes between restart() and the next cycle are not compared (only what cycles publish); RETAIN FB instances are not generated")
CHECKS["C10"] = dict(cat="fault_enumeration", engine="RetainFile", ref="§5 C10",
    tech="TLA+ RetainFile crash model (TLC) instantiated with the syscall protocol observed from the real store; kill-at-every-crash-point replay validated by TLC",
    text="TLC shows which save protocols are crash-atomic (in-place: no; temp+fsync+rename: yes; without fsync: kill-safe only). The real "
         "FileRetainStore::store runs in a child under an LD_PRELOAD shim that logs its file-system calls; that observed protocol becomes "
         "the model's program, and for every step (and several byte counts inside every write; every byte in thorough) the child is killed "
         "there and FileRetainStore::load must return the old or the new snapshot in full and agree with the model's prediction. Codec "
         "round trips over all retainable value shapes and structured corruptions of the STRN image (Ok/Err only, 1 GiB address-space limit) "
         "are validated by the same trace specification.",
    note="crash = SIGKILL at libc call boundaries; power loss decided on the model only; arbitrary-bytes totality is sampled")
CHECKS["C17"] = dict(cat="model_checking", engine="DebugControl", ref="§5 C17",
    tech="TLA+ DebugControl spec: all interleavings + liveness model-checked with TLC; two-thread runs of the real DebugControl/Runtime trace-validated by TLC from the runtime's own mutex-ordered trace lines",
    text="TLC explores every interleaving of adapter commands (pause/continue/step-in/over/out per thread, set breakpoints) with the "
         "cycle thread's hook steps (enter / wait / wake) for small programs and checks OneStopPerPause, StopHasLocation, StepDepth, "
         "StepInNext, Transparent and, under weak fairness of the cycle thread, NoWedge. Hundreds of real two-thread runs (scripted hook "
         "lists and a real ST program with nested calls, a loop, two tasks and a background program run by Runtime::execute_cycle) are "
         "recorded through the runtime's ST_DEBUG_TRACE lines, which are emitted under the DebugState mutex, and TLC must find a behaviour of "
         "the specification that explains every event; the final variables must equal an undebugged run's.",
    note="OS-chosen schedules plus seeded delays/bursts, not exhaustive on the code; unlogged choices (breakpoint set, set_current_thread time) inferred by TLC; DAP adapter layer not covered")
CHECKS["C13"] = dict(cat="model_checking", engine="HirDb", ref="§5 C13",
    tech="TLA+ HirDb spec (triple bookkeeping of the analysis database, model-checked with TLC) + TLC-exported and random edit histories run on the real trust_hir::Database next to brand-new databases, traces validated by TLC",
    text="TLC checks InputsInSyncAtQuery, AnswerEqualsFresh, RepeatQueryStable, NoPanic and MemoSound on every history of set/remove/re-add/query "
         "up to the bound over cross-referencing contents, and three seeded slips of the bookkeeping must violate AnswerEqualsFresh; every history "
         "up to length 3 (quick) / 4 (thorough) exported by TLC breadth-first, TLC -simulate scripts and seeded random histories over 1..5 files "
         "(cross-file functions and types, duplicate declarations with different types, same-length twin contents, broken, empty and randomly "
         "damaged texts) run on one long-lived Database; at every query the diagnostics / analyze / file_symbols / type_of answers are compared "
         "(==) with two brand-new databases loaded in ascending and descending order and with the query's repetition, and the resolved/unresolved "
         "status and call types of the scripted names are validated against the specification's answer function by TLC; panics and aborts are recorded as events.",
    note="trusts salsa's dependency tracking relative to its inputs, TLC and the harness projection; a disagreement of the abstract analysis with BOTH databases is counted, not reported; arbitrary contents are small (< 1 KiB)")
CHECKS["C20"] = dict(cat="model_checking", engine="ResourceThreads", ref="§5 C20",
    tech="TLA+ ResourceThreads spec: all interleavings + liveness with TLC (split-lock variant must fail); real resource threads under a seeded controller validated by TLC as an interleaving of atomic cycles",
    text="TLC explores every interleaving of the resource loop steps (stop check, command drain, paused sleep, lock, sync-into, execute, "
         "sync-from, sleep on the manual clock with its sticky interrupt, fault exit) of 2 resources with a controller (pause, resume, stop, "
         "clock advance) and checks NoLostUpdate, PairedEqual, PausedMeansNoExec, StopSavesOnce, FaultIsolation and Stop ~> exited; the variant "
         "that releases the lock between sync-into and sync-from must violate NoLostUpdate. 150+ real multi-threaded runs (2..4 "
         "ResourceRunner::spawn_with_shared threads, shared ManualClock, start gate, free-running and clock-paced) record every cycle from inside "
         "execute_cycle and every controller action/observation (state polls, Snapshot command replies, join results, retain-save counts); TLC "
         "must find an interleaving of atomic cycles that explains both streams.",
    note="OS schedules, not exhaustive on the code; liveness on the code is bounded waiting (20-30 s) under repeated clock advances")
_ST_NOTE = ("StCore covers BOOL/SINT/INT/DINT/USINT/UINT/BYTE/WORD, arrays, IF/CASE/FOR/WHILE/EXIT (TLC integers are 32-bit); wider types "
            "are judged by the outcome contract only; mismatches in programs containing a non-converting assignment are attributed to the listed finding")
CHECKS["C01"] = dict(cat="model_checking", engine="StCore", ref="§5 C01",
    tech="TLA+ StCore reference semantics (outcome classes by construction) + TLC trace validation of generated programs; wide generator judged by the outcome contract",
    text="The reference semantics has no static-class outcome by construction; the operator x type x boundary matrix (all of it in thorough), "
         "strict- and natural-profile random programs over the typed core run for 3 cycles with inputs and TLC validates outcome class, fault "
         "kind and empty frame stack after every cycle; a second generator over every elementary type (64-bit, REAL, TIME, bit strings, "
         "boundary literals, FOR loops ending at type maxima, unsigned CASE selectors, CONTINUE/REPEAT, a recursive FUNCTION probe) runs in "
         "child processes (panic, abort, stack overflow and hang are data) and is judged by the outcome contract.",
    note=_ST_NOTE)
CHECKS["C02"] = dict(cat="model_checking", engine="StCore", ref="§5 C02",
    tech="TLA+ StCore reference semantics (algebraic lemmas checked by TLC) + exact TLC trace validation of every variable after every cycle",
    text="TLC checks the lemmas of the reference (division/modulo identity on the whole SINT square, closure and exactness of checked arithmetic "
         "on all boundary operands, bit identities); the full operator matrix and generated programs (typed literals without redundant "
         "type context, precedence through the real parser, short-circuit, CASE ranges, FOR/WHILE/EXIT, arrays) run on the real interpreter "
         "and after every cycle every variable and array element must equal the reference numerically and the fault must be the reference's.",
    note=_ST_NOTE)
CHECKS["C03"] = dict(cat="model_checking", engine="StCore", ref="§5 C03",
    tech="TLA+ StCore / RuntimeCycle tag invariant + TLC trace validation of the recorded tag of every storage slot",
    text="The recorded projection carries the runtime tag of every variable and array element; TLC requires tag = declared type after every "
         "cycle of the StCore programs, and for bound variables and counters of 9 type shapes after every cycle, I/O latch, warm/cold restart, "
         "power cycle and access-path write of the RuntimeCycle scripts.",
    note=_ST_NOTE)
CHECKS["C05"] = dict(cat="exploration", engine="Determinism", ref="§5 C05",
    tech="TLA+ Determinism trace spec (observations are functions of the program) over recordings from separate OS processes",
    text="Generated many-name programs (shuffled POUs, types, methods, strings) and RuntimeCycle scripts (tasks, I/O, faults, restarts) are "
         "compiled to STBC containers and executed in 3 (quick) / 5 (thorough) separate OS processes with different hash seeds, environment "
         "sizes, working directories and program orders; TLC validates that the container hash and the per-cycle digests (canonical variable "
         "state, faults, runtime events, output image) do not depend on the process.",
    note="differential sampling across processes; the specification contributes the invariant and the RuntimeCycle script space")
NOT_YET = "check not built yet in this round (see DESIGN.md build order); no claim made"


def main():
    checks = []
    for pid in PROPS:
        if pid not in CHECKS:
            continue
        c = CHECKS[pid]
        checks.append({
            "property_id": pid,
            "quick_cmd": f"./check {pid} --tier quick",
            "thorough_cmd": f"./check {pid} --tier thorough",
            "evidence_file": f"/verif/evidence/{pid}.json",
            "replay_cmd_template": f"./check {pid} --replay {{path}}",
            "engine": c["engine"],
            "level_claimed": {"category": c["cat"], "text": c["text"], "design_ref": c["ref"]},
            "level_note": c["note"],
            "technique": c["tech"],
        })
    hooks = subprocess.run(["git", "-C", "/repo", "log", "--format=%H %s", "--grep=^verif-hook:"],
                           capture_output=True, text=True).stdout.split("\n")
    m = {
        "version": 1,
        "setup_cmd": "./setup.sh",
        "hooks": {
            "guard": "--cfg trust_verif",
            "enable": "harness/.cargo/config.toml sets rustflags --cfg trust_verif (with --check-cfg) for every build of the harness and of /repo binaries made by the checks",
            "baseline_off_cmd": "cd /repo && cargo test --workspace --no-fail-fast --offline",
            "source_commits": [h.split(" ")[0] for h in hooks if h.strip()],
            "add_only": True,
        },
        "engines": [
            {"name": "Determinism", "path": "spec/Determinism.tla", "serves_properties": ["C05"], "kind_free_text": "TLA+ trace spec; harness sub-command det-child run in several processes"},
            {"name": "StCore", "path": "spec/StCore.tla", "serves_properties": ["C01", "C02", "C03"], "kind_free_text": "TLA+ reference evaluator + lemma instance + trace refinement; harness sub-commands stcore-gen / stcore-run / stwide"},
            {"name": "HirDb", "path": "spec/HirDb.tla", "serves_properties": ["C13"], "kind_free_text": "TLA+ module + MC instance + trace refinement; harness sub-commands hirdb-gen / hirdb-run"},
            {"name": "ResourceThreads", "path": "spec/ResourceThreads.tla", "serves_properties": ["C20"], "kind_free_text": "TLA+ module + MC (safety + liveness) + stream-merging trace refinement; harness sub-command resource-run"},
            {"name": "DebugControl", "path": "spec/DebugControl.tla", "serves_properties": ["C17"],
             "kind_free_text": "TLA+ module + MC instance (safety + liveness) + nondeterministic trace refinement; harness sub-command debug-run"},
            {"name": "RetainFile", "path": "spec/RetainFile.tla", "serves_properties": ["C10"],
             "kind_free_text": "TLA+ module + MC instance + trace refinement; LD_PRELOAD crash shim; harness sub-commands retain-run / retain-child"},
            {"name": "StdFb", "path": "spec/StdFb.tla", "serves_properties": ["C04"],
             "kind_free_text": "TLA+ module + MC instance + trace refinement; harness sub-commands fb-gen / fb-run"},
            {"name": "RuntimeCycle", "path": "spec/RuntimeCycle.tla", "serves_properties": ["C06", "C07", "C08", "C09"],
             "kind_free_text": "TLA+ module + MC instance + trace refinement; harness sub-commands cycle-gen / cycle-run"},
        ],
        "checks": checks,
        "notes": "All checks: ./check <id> --tier quick|thorough. Specs in spec/, Rust conformance harness in harness/, driver and per-property logic in lib/. See DESIGN.md.",
        "not_applicable": [{"property_id": p, "reason": NOT_YET} for p in PROPS if p not in CHECKS],
    }
    (VERIF / "MANIFEST.json").write_text(json.dumps(m, indent=1) + "\n")


if __name__ == "__main__":
    main()
