#!/usr/bin/env python3
"""Regenerates /verif/MANIFEST.json from the table below (keeps it schema-valid)."""
import json
import subprocess
from pathlib import Path

VERIF = Path(__file__).resolve().parent.parent
PROPS = [json.loads(l)["id"] for l in open(VERIF / "properties.jsonl")]

CHECKS = {
    "C04": dict(cat="model_checking", engine="StdFb", ref="§5 C04",
                tech="TLA+ StdFb spec (history definitions = state machines, model-checked with TLC) + TLC trace validation of recorded FB calls",
                text="TLC proves the StdFb state machines equal the history-based IEC definitions of TON/TOF/TP/R_TRIG/F_TRIG on every call "
                     "history up to the bound, plus ET<=PT, ET monotone, TP non-retriggerable, counter saturation, bistable dominance and "
                     "instance independence; TLC-exported and seeded random call scripts (two interleaved instances, PT/PV incl. 0, negative, "
                     "type bounds, dt=0 bursts, PT changed while timing) run through the public step structs and through an ST program on the "
                     "real runtime, and every call's outputs are validated against the machines by TLC.",
                note="1 tick = 1 ms; ET compared only where the property constrains it; 64-bit counter bounds outside TLC integers are not exercised"),
    "C06": dict(cat="model_checking", engine="RuntimeCycle", ref="§5 C06",
                tech="TLA+ RuntimeCycle spec model-checked with TLC; recorded runs of the real runtime trace-validated against it",
                text="TLC checks the task-model invariants (due set, priority order, at most once, background last, no replay) on "
                     "MCRuntimeCycle exhaustively for small constants; TLC-exported and seeded random (task set x timeline) scripts are "
                     "executed on the real Runtime and every cycle's executed sequence, task events and overrun counters are validated "
                     "against the specification by TLC.",
                note="trusts TLC, the generated ST programs' execution log, RuntimeEvent::TaskStart; tasks with both SINGLE and INTERVAL are accepted under either reading of the period restart"),
    "C07": dict(cat="model_checking", engine="RuntimeCycle", ref="§5 C07",
                tech="TLA+ RuntimeCycle spec (process image) + TLC trace validation of logging-driver recordings",
                text="TLC checks driver call shape, latch stability, publish = encode(final), locality on MCRuntimeCycle; recorded driver "
                     "call logs, full %I/%Q/%M images and bound variable bytes of every cycle of generated binding sets (X/B/W/D/L, "
                     "overlapping inputs, adjacent outputs, two drivers) are validated against the specification.",
                note="trusts the logging IoDriver of the harness; overlapping output bindings are not generated"),
    "C08": dict(cat="fault_enumeration", engine="RuntimeCycle", ref="§5 C08",
                tech="TLA+ RuntimeCycle fault model checked with TLC; fault points enumerated and replayed on the real runtime, traces validated by TLC",
                text="Every fault point of the model (each program statement index incl. nested FUNCTION/FB, driver read/write "
                     "failure, watchdog, simulation fault) x policy x watchdog action x safe-state map is explored by TLC; scripts "
                     "injecting those faults through public means run on the real Runtime and the latch, refused cycles, safe image "
                     "and per-driver delivery are validated event by event.",
                note="faults are injected by division by zero in generated programs, failing scripted drivers, Runtime::watchdog_timeout/simulation_fault"),
}
CHECKS["C09"] = dict(cat="model_checking", engine="RuntimeCycle", ref="§5 C09",
    tech="TLA+ RuntimeCycle restart model checked with TLC; restart/power-cycle histories replayed on the real runtime and trace-validated by TLC; ResourceRestart spec (2 deviations refuted) + restart requests, periodic saves and starts on an older store through the real resource thread loop, log validated by TLC",
    text="TLC checks WarmKeepsExactlyRetained, ColdEqualsFresh, PowerCycleSetEqualsWarmSet, RestartResets on MCRuntimeCycle; generated "
         "programs declaring RETAIN/NON_RETAIN/PERSISTENT/unqualified variables of 9 type shapes in global and program scope run "
         "histories of cycles, faults, %I changes, warm/cold restarts, save+rebuild+load power cycles and VAR_ACCESS writes on the real "
         "runtime; after every event the decoded variable values, bound variables, images, access paths, task state, clock and latch "
         "are validated against the specification, whose restart equals a fresh configuration (so dead bindings show as divergence).",
    note="raw %Q/%I image bytes between restart() and the next cycle are not compared (only what cycles publish); RETAIN FB instances are not generated")
CHECKS["C10"] = dict(cat="fault_enumeration", engine="RetainFile", ref="§5 C10",
    tech="TLA+ RetainFile crash model (TLC) instantiated with the syscall protocol observed from the real store; kill-at-every-crash-point replay validated by TLC",
    text="TLC shows which save protocols are crash-atomic (in-place: no; temp+fsync+rename: yes; without fsync: kill-safe only). The real "
         "FileRetainStore::store runs in a child under an LD_PRELOAD shim that logs its file-system calls; that observed protocol becomes "
         "the model's program, and for every step (and several byte counts inside every write; every byte in thorough) the child is killed "
         "there and FileRetainStore::load must return the old or the new snapshot in full and agree with the model's prediction. Codec "
         "round trips over all retainable value shapes and structured corruptions of the STRN image (Ok/Err only, 1 GiB address-space limit) "
         "are validated by the same trace specification.",
    note="crash = SIGKILL at libc call boundaries; power loss decided on the model only; arbitrary-bytes totality is sampled")
CHECKS["C17"] = dict(cat="model_checking", engine="DebugControl", ref="§5 C17",
    tech="TLA+ DebugControl spec: all interleavings + liveness model-checked with TLC; two-thread runs of the real DebugControl/Runtime trace-validated by TLC from the runtime's own mutex-ordered trace lines; DapStop spec + real DebugAdapter over stdio; EndpointDebug spec (1 deviation refuted) + run-control request lines to a real control endpoint in front of a three-task runtime, log validated by TLC",
    text="TLC explores every interleaving of adapter commands (pause/continue/step-in/over/out per thread, set breakpoints) with the "
         "cycle thread's hook steps (enter / wait / wake) for small programs and checks OneStopPerPause, StopHasLocation, StepDepth, "
         "StepInNext, Transparent and, under weak fairness of the cycle thread, NoWedge. Hundreds of real two-thread runs (scripted hook "
         "lists and a real ST program with nested calls, a loop, two tasks and a background program run by Runtime::execute_cycle) are "
         "recorded through the runtime's ST_DEBUG_TRACE lines, which are emitted under the DebugState mutex, and TLC must find a behaviour of "
         "the specification that explains every event; the final variables must equal an undebugged run's.",
    note="OS-chosen schedules plus seeded delays/bursts, not exhaustive on the code; unlogged choices (breakpoint set, set_current_thread time) inferred by TLC; DAP adapter layer not covered")
CHECKS["C13"] = dict(cat="model_checking", engine="HirDb", ref="§5 C13",
    tech="TLA+ HirDb spec (triple bookkeeping of the analysis database, model-checked with TLC) + TLC-exported and random edit histories run on the real trust_hir::Database next to brand-new databases, traces validated by TLC",
    text="TLC checks InputsInSyncAtQuery, AnswerEqualsFresh, RepeatQueryStable, NoPanic and MemoSound on every history of set/remove/re-add/query "
         "up to the bound over cross-referencing contents, and three seeded slips of the bookkeeping must violate AnswerEqualsFresh; every history "
         "up to length 3 (quick) / 4 (thorough) exported by TLC breadth-first, TLC -simulate scripts and seeded random histories over 1..5 files "
         "(cross-file functions and types, duplicate declarations with different types, same-length twin contents, broken, empty and randomly "
         "damaged texts) run on one long-lived Database; at every query the diagnostics / analyze / file_symbols / type_of answers are compared "
         "(==) with two brand-new databases loaded in ascending and descending order and with the query's repetition, and the resolved/unresolved "
         "status and call types of the scripted names are validated against the specification's answer function by TLC; panics and aborts are recorded as events.",
    note="trusts salsa's dependency tracking relative to its inputs, TLC and the harness projection; a disagreement of the abstract analysis with BOTH databases is counted, not reported; arbitrary contents are small (< 1 KiB)")
CHECKS["C20"] = dict(cat="model_checking", engine="ResourceThreads", ref="§5 C20",
    tech="TLA+ ResourceThreads spec: all interleavings + liveness with TLC (split-lock variant must fail); real resource threads under a seeded controller validated by TLC as an interleaving of atomic cycles; EndpointDebug spec in production mode: pause / resume request lines to a real control endpoint in front of a real resource thread on the wall clock",
    text="TLC explores every interleaving of the resource loop steps (stop check, command drain, paused sleep, lock, sync-into, execute, "
         "sync-from, sleep on the manual clock with its sticky interrupt, fault exit) of 2 resources with a controller (pause, resume, stop, "
         "clock advance) and checks NoLostUpdate, PairedEqual, PausedMeansNoExec, StopSavesOnce, FaultIsolation and Stop ~> exited; the variant "
         "that releases the lock between sync-into and sync-from must violate NoLostUpdate. 150+ real multi-threaded runs (2..4 "
         "ResourceRunner::spawn_with_shared threads, shared ManualClock, start gate, free-running and clock-paced) record every cycle from inside "
         "execute_cycle and every controller action/observation (state polls, Snapshot command replies, join results, retain-save counts); TLC "
         "must find an interleaving of atomic cycles that explains both streams.",
    note="OS schedules, not exhaustive on the code; liveness on the code is bounded waiting (20-30 s) under repeated clock advances")
_ST_NOTE = ("StCore covers BOOL/SINT/INT/DINT/USINT/UINT/BYTE/WORD, arrays, IF/CASE/FOR/WHILE/EXIT (TLC integers are 32-bit); wider types "
            "are judged by the outcome contract only; mismatches in programs containing a non-converting assignment are attributed to the listed finding")
CHECKS["C01"] = dict(cat="model_checking", engine="StCore", ref="§5 C01",
    tech="TLA+ StCore reference semantics (outcome classes by construction) + TLC trace validation of generated programs; wide generator judged by the outcome contract",
    text="The reference semantics has no static-class outcome by construction; the operator x type x boundary matrix (all of it in thorough), "
         "strict- and natural-profile random programs over the typed core run for 3 cycles with inputs and TLC validates outcome class, fault "
         "kind and empty frame stack after every cycle; a second generator over every elementary type (64-bit, REAL, TIME, bit strings, "
         "boundary literals, FOR loops ending at type maxima, unsigned CASE selectors, CONTINUE/REPEAT, a recursive FUNCTION probe) runs in "
         "child processes (panic, abort, stack overflow and hang are data) and is judged by the outcome contract.",
    note=_ST_NOTE)
CHECKS["C02"] = dict(cat="model_checking", engine="StCore", ref="§5 C02",
    tech="TLA+ StCore reference semantics (algebraic lemmas checked by TLC) + exact TLC trace validation of every variable after every cycle; the shipped `trust-runtime conformance` runner (real binary) recorded against the direct run of the same cases",
    text="TLC checks the lemmas of the reference (division/modulo identity on the whole SINT square, closure and exactness of checked arithmetic "
         "on all boundary operands, bit identities); the full operator matrix and generated programs (typed literals without redundant "
         "type context, precedence through the real parser, short-circuit, CASE ranges, FOR/WHILE/EXIT, arrays) run on the real interpreter "
         "and after every cycle every variable and array element must equal the reference numerically and the fault must be the reference's.",
    note=_ST_NOTE)
CHECKS["C03"] = dict(cat="model_checking", engine="StCore", ref="§5 C03",
    tech="TLA+ StCore / RuntimeCycle tag invariant + TLC trace validation of the recorded tag of every storage slot; debugger writes through a real control endpoint and values published over the mesh read back with their tags",
    text="The recorded projection carries the runtime tag of every variable and array element; TLC requires tag = declared type after every "
         "cycle of the StCore programs, and for bound variables and counters of 9 type shapes after every cycle, I/O latch, warm/cold restart, "
         "power cycle and access-path write of the RuntimeCycle scripts.",
    note=_ST_NOTE)
CHECKS["C05"] = dict(cat="exploration", engine="Determinism", ref="§5 C05",
    tech="TLA+ Determinism trace spec (observations are functions of the program) over recordings from separate OS processes",
    text="Generated many-name programs (shuffled POUs, types, methods, strings) and RuntimeCycle scripts (tasks, I/O, faults, restarts) are "
         "compiled to STBC containers and executed in 3 (quick) / 5 (thorough) separate OS processes with different hash seeds, environment "
         "sizes, working directories and program orders; TLC validates that the container hash and the per-cycle digests (canonical variable "
         "state, faults, runtime events, output image) do not depend on the process.",
    note="differential sampling across processes; the specification contributes the invariant and the RuntimeCycle script space")
CHECKS["C12"] = dict(cat="exploration", engine="ParseSink", ref="§5 C12",
    tech="TLA+ ParseSink spec (marker interface -> event stream -> tree sink, model-checked with TLC) + TLC-exported and seeded random "
         "input texts run through the real lexer/parser/tree in child processes, traces validated by TLC against the same contract operators",
    text="TLC explores every event stream the parser's marker interface can produce (nested nodes, forward-parent chains from precede(), "
         "bumps past the end, errors) over every small token list with trivia anywhere, replays it through the sink model and checks "
         "EmittedIsPrefix, NoUnderflow, Lossless, TreeIsIntended, ErrorsInside and TriviaInvariant. TLC also exports the input space: every "
         "sequence of lexical classes up to length 2 (quick) / 3 (thorough) over a 44-class alphabet, single Delete/Duplicate/Swap/Truncate/"
         "Splice mutations of corpus programs, InsertTrivia positions, and simulated 40-atom soups; a seeded generator adds random soups, "
         "mutated corpus programs, random unicode, nesting up to 200 statement/type and 500 expression levels. Every text is lexed and parsed "
         "by trust_syntax in child processes (panics, aborts, stack overflows, hangs recorded as events); TLC validates per text that tokens "
         "tile [0,n), the tree is balanced and its text equals the input, error ranges lie in [0,n], a second parse gives the same result, "
         "and for error-free texts that the tree shape is unchanged after inserting blanks, newlines or block comments between two tokens.",
    note="inputs are sampled (not all UTF-8 strings); nesting bounded at the stated depth on an 8 MiB stack / 4 GiB address space; tree text "
         "compared by length and SHA-256; trusts TLC and the harness projection")
CHECKS["C18"] = dict(cat="model_checking", engine="ControlAuth", ref="§5 C18",
    tech="TLA+ ControlAuth spec (gate pipeline parse -> authenticate -> authorise -> debug gate -> dispatch, model-checked with TLC over every admissible role table) + complete enumeration of the real dispatcher and hostile request lines against a real ControlServer, every exchange trace-validated by TLC; the same request lines through the web server's POST /api/control; Pairing spec (5 deviations refuted) for the token life cycle",
    text="TLC checks on every admissible (required role x mutating x debug-class) table, every endpoint configuration, credential and "
         "well-formedness class that a request is performed only with a sufficient role, unauthenticated requests are inert and carry no data "
         "when a token is configured, mutating kinds need more than viewer, debug-class kinds are refused while debugging is off, the role order "
         "is monotone and malformed lines get an error reply. Every string literal of control.rs / control/handlers/*.rs is probed through "
         "ControlServer on a unix socket under every credential; each acknowledged request type (53) x parameter variants x 9 credentials x 8 "
         "endpoint configurations, plus TLC-exported behaviours and seeded random / malformed lines, is executed with state probes before and "
         "after; the required role is observed per request kind and must be an admissible monotone threshold, and every exchange must be an "
         "outcome the specification allows. Panics, aborts and positively wedged handlers are recorded as events.",
    note="the role table itself is a parameter (only its admissibility is checked); reply wording is used only in the permissive direction; "
         "a handler that was entitled to run and never replies is reported as NOTE (debug.evaluate self-deadlock on the metadata lock), not as a violation; "
         "effect detection is limited to the listed probes")
CHECKS["C11"] = dict(cat="exploration", engine="StbcContainer", ref="§5 C11",
    tech="TLA+ StbcContainer spec (framing rules, encoder layout, life cycle) model-checked with TLC; TLC-exported and seeded structure-aware mutants run on the real encoder/decoder/validator/metadata/apply code in a child process with an address-space limit, traces validated by TLC",
    text="TLC checks on every section table of <=3 (thorough 4) entries over a grid of offsets/lengths and every combination of header defects that the "
         "decision shaped like decode.rs equals the documented framing rules wherever the documentation decides, that accepted tables can be sliced inside "
         "the file, that the encoder's layout is a valid frame that decodes back to the same sections, and the life-cycle invariants (emitted => decodes "
         "and validates, broken framing / impossible array count => not decoded, pre-allocation bounded by the input). Layouts and (program shape x "
         "section x field class x hostile value class) mutations exported by TLC, a systematic sweep over every array count, jump, offset/length and "
         "section-table field, truncations at section boundaries, alias/subrange/array/struct type cycles, random blobs and raw byte edits (CRC "
         "recomputed) are applied to containers the real compiler emits; decode, validate, metadata, apply_bytecode_bytes + warm restart and a real "
         "ResourceCommand::ReloadBytecode on a resource thread run in a child with a 2 GiB address-space limit and an 8 MiB stack; panics, aborts and "
         "hangs are recorded as events and TLC accepts only value/error outcomes and exact round trips for every emitted container.",
    note="totality and the memory bound are sampled (model-generated mutants + rlimit), not proved for all byte strings; several framing corner cases are accepted either way; "
         "round trip is demanded only for compiler-emitted containers; trusts the harness field walker")
CHECKS["C14"] = dict(cat="model_checking", engine="DocSync", ref="§5 C14",
    tech="TLA+ DocSync spec (editor edits by index and reports LSP positions, server applies positions, FIFO channel; model-checked with TLC, column-per-char and column-per-byte servers must violate InSync) + TLC-exported and random edit scripts run on the real trust-lsp binary over stdio JSON-RPC next to a reference server fed the editor's text in one didOpen, traces validated by TLC",
    text="TLC checks InSync, QuiescentAgree and ReportsFaithful with the editor running ahead of the server over a FIFO channel and with multi-change "
         "notifications, full-text changes and columns past the line end, and RoundTrip / PosRoundTrip on every text of up to 6 units over {a, e-acute, CJK, "
         "astral emoji, LF, CRLF}; every (text, single change) pair up to the bound exported breadth-first, TLC -simulate scripts and seeded random ST "
         "documents are fed to a long-lived trust-lsp (didOpen + didChange...); after EVERY notification its formatting, semanticTokens/full, documentSymbol "
         "and pull-diagnostic answers must equal those of a server given the specification's editor text in one didOpen, and a prepareRename answer at an "
         "identifier must carry that identifier's range in the editor's UTF-16 coordinates; server panics are recorded as events.",
    note="lone CR, columns past the end of a CRLF line, columns inside a surrogate pair, lines past the end and inverted ranges are not judged (inconclusive); the reference is the same binary")
CHECKS["C19"] = dict(cat="model_checking", engine="WebIde", ref="§5 C19",
    tech="TLA+ WebIde spec: path confinement of the designed admission check over every path shape and every interleaving of the three-phase optimistic write with roles / expiry / write-disabled mode, model-checked with TLC (racy and parent-only variants must fail); model-enumerated + random paths x operations x session kinds on a sentinel tree, and sequential + multi-threaded call histories of the real WebIdeState, all trace-validated by TLC; a subset of the same scripts through the real web server's IDE routes",
    text="TLC checks that the designed admission check lets no path of <= 3 (thorough: 4) components over 27 component kinds land outside the project or on a "
         "hidden entry for any of 7 operations, and explores every interleaving of open / write at the code's grain (unlocked disk read, locked session + role "
         "check, refresh, version comparison, write) for 3 sessions with stale versions, expiry, viewer role, write-disabled requests and external edits, "
         "checking DiskIsLastSuccess, NoLostUpdate, Chain, VersionsGrow and OnlyLiveEditorsMutate. Every model path shape plus seeded random ones is replayed "
         "through list / tree / search / open / write / create / mkdir / rename / delete on a sentinel tree built from the model's own tree, with a complete "
         "snapshot before and after each call; every effective mutation is repeated as viewer, expired, never-issued session and in write-disabled mode; "
         "sequential scripts and free-running multi-threaded runs are recorded as Begin/End histories and TLC searches an ordering that explains every answer "
         "and the final file content (linearizability against the model).",
    note="concurrent runs use OS schedules (no pause hook); symlinks into hidden directories and hard links are not generated; session expiry is driven by advancing CLOCK_REALTIME of the harness child (clock_gettime interposition, self-tested)")
CHECKS["C16"] = dict(cat="exploration", engine="Rename", ref="§5 C16",
    tech="TLA+ Rename spec (scope forest, lexical + member lookup, phases of a rename request) model-checked with TLC; TLC names typed project skeletons and chooses rename requests (-simulate) next to seeded random projects; every request executed on the real trust_ide::rename::rename with re-analysis, execution and rename-back; traces validated by TLC",
    text="TLC checks on every project with 3 scopes (every tree shape), 3 names, <= 3 declarations and <= 2 lexical/member references that the three-part conflict check "
         "is exactly binding preservation, that an applied request edits exactly the occurrences of the symbol, preserves every binding, is applied only for a valid name, and that rename-back "
         "restores the project (a declaring-scope-only check must be refuted). Multi-file ST projects (globals with VAR_EXTERNAL and CONFIGURATION, functions, function blocks "
         "with methods, programs, structure types with fields, a namespace; colliding / shadowing / case-variant names) are rendered from the model's scenarios; for every (occurrence, new "
         "name in {used elsewhere, fresh, case variant, keyword, invalid}) the real rename is run: edits in bounds, disjoint, one identifier each; diagnostics of the edited project equal modulo "
         "the name; outputs of TestHarness::from_sources on a 3-cycle input trace equal; rename-back restores the bytes; rejected requests are keyed by the model's scenario class.",
    note="a refusal is always accepted; an applied rename is rejected only on observable damage; outputs are compared only where the run-time executes the ORIGINAL project cleanly and like the "
         "reference evaluation of the specification's scoping; USING, nested namespaces, inheritance, properties, enum values, dotted new names are not generated; four root-cause findings are listed as open")
CHECKS["C15"] = dict(cat="exploration", engine="Format", ref="§5 C15",
    tech="TLA+ Format spec (contract operators + character-level lexical model + reference formatter, model-checked with TLC; two named deviation models shown to violate the invariants) + TLC-exported and seeded random documents x configuration vectors x requests run on the real trust-lsp binary and the web IDE format_source, both texts lexed by the real lexer, every trace validated by TLC against the same contract operators",
    text="TLC checks TokensPreserved, Idempotent, EditsConfined, OriginsInOrder, KeptLinesVerbatim and OutsideUntouched on the reference formatter for every text `a b` over 69 "
         "lexical atoms under both spacing styles and every sequence of up to 2 of 21 line templates with and without wrapping, every whole-line range and on-type line, formatted twice; the "
         "deviations blindGlue and RangeFormatByLineIndex must violate them. TLC exports that input space (pair matrix, layout documents, simulated lines x 9-field configuration "
         "vector incl. vendor profile x request); a seeded generator adds corpus, mutated, synthetic programs, soups and CRLF texts. Every script is executed against the real language "
         "server and the web IDE formatter (a dying, failing or silent server is recorded as an event); TLC validates per request that the resulting text has the same non-trivia token "
         "texts (keywords case-insensitively) and the same comments / pragmas as the source, that every edit holds exactly the tokens of the text it replaces, and that formatting the "
         "formatted text changes nothing; rejections are keyed by request, path and mechanism read off the failing case.",
    note="inputs are sampled; BMP characters only and no lone CR; comments compared modulo white space next to line breaks; token kinds reported but not compared; texts with an unterminated "
         "string literal are exercised but not compared; three open findings (range/on-type by line index after wrapping, wrap idempotence, unterminated comment/pragma tokens)")
NOT_YET = "check not built yet in this round (see DESIGN.md build order); no claim made"


def main():
    checks = []
    for pid in PROPS:
        if pid not in CHECKS:
            continue
        c = CHECKS[pid]
        checks.append({
            "property_id": pid,
            "quick_cmd": f"./check {pid} --tier quick",
            "thorough_cmd": f"./check {pid} --tier thorough",
            "evidence_file": f"/verif/evidence/{pid}.json",
            "replay_cmd_template": f"./check {pid} --replay {{path}}",
            "engine": c["engine"],
            "level_claimed": {"category": c["cat"], "text": c["text"], "design_ref": c["ref"]},
            "level_note": c["note"],
            "technique": c["tech"],
        })
    hooks = subprocess.run(["git", "-C", "/repo", "log", "--format=%H %s", "--grep=^verif-hook:"],
                           capture_output=True, text=True).stdout.split("\n")
    m = {
        "version": 1,
        "setup_cmd": "./setup.sh",
        "hooks": {
            "guard": "--cfg trust_verif",
            "enable": "harness/.cargo/config.toml sets rustflags --cfg trust_verif (with --check-cfg) for every build of the harness and of /repo binaries made by the checks",
            "baseline_off_cmd": "cd /repo && cargo test --workspace --no-fail-fast --offline",
            "source_commits": [h.split(" ")[0] for h in hooks if h.strip()],
            "add_only": True,
        },
        "engines": [
            {"name": "Format", "path": "spec/Format.tla", "serves_properties": ["C15"], "kind_free_text": "TLA+ module + MC instances + trace refinement; harness sub-commands format-gen / format-run driving trust-lsp and WebIdeState::format_source"},
            {"name": "Rename", "path": "spec/Rename.tla", "serves_properties": ["C16"], "kind_free_text": "TLA+ module + MC instances + trace refinement; harness sub-commands rename-gen / rename-run"},
            {"name": "StbcContainer", "path": "spec/StbcContainer.tla", "serves_properties": ["C11"], "kind_free_text": "TLA+ module + MC + trace refinement; harness sub-commands stbc-gen / stbc-run"},
            {"name": "DocSync", "path": "spec/DocSync.tla", "serves_properties": ["C14"], "kind_free_text": "TLA+ module + MC instances + trace refinement; Python harness lib/docsync_harness.py driving the trust-lsp binary"},
            {"name": "WebIde", "path": "spec/WebIde.tla", "serves_properties": ["C19"], "kind_free_text": "TLA+ module + MC instances + two trace refinements; harness sub-commands webide-gen / webide-run"},
            {"name": "ParseSink", "path": "spec/ParseSink.tla", "serves_properties": ["C12"], "kind_free_text": "TLA+ module + MC + trace refinement; harness sub-commands parse-gen / parse-run"},
            {"name": "ControlAuth", "path": "spec/ControlAuth.tla", "serves_properties": ["C18"], "kind_free_text": "TLA+ module + MC + trace refinement; harness sub-commands ctrlauth-gen / ctrlauth-run"},
            {"name": "DapStop", "path": "spec/DapStop.tla", "serves_properties": ["C17"], "kind_free_text": "TLA+ module (DebugControl abstraction + StopCoordinator + run-control handlers + wire/client) + MC instances (intended / as coded / 7 deviations that must be refuted) + script exporter + nondeterministic trace refinement with one TLC register per run; harness sub-commands dap-child / dap-run driving the real DebugAdapter::run_stdio over stdio"},
            {"name": "SourceRegistry", "path": "spec/SourceRegistry.tla", "serves_properties": ["C13"], "kind_free_text": "TLA+ module of the key -> FileId map of trust_hir::project::Project + MC (one deviation that must fail) + trace refinement; harness sub-command projreg-run"},
            {"name": "Pairing", "path": "spec/Pairing.tla", "serves_properties": ["C18"], "kind_free_text": "TLA+ module of the pairing-token life cycle + MC instances (five broken variants must fail) + trace refinement; harness sub-commands pairing-gen / pairing-run (real PairingStore on a controllable clock, directly and behind the control endpoint)"},
            {"name": "ResourceFault", "path": "spec/ResourceFault.tla", "serves_properties": ["C08"], "kind_free_text": "TLA+ module of the fault path of the resource thread loop + MC (safety, liveness, one deviation that must fail) + trace refinement; harness sub-command resfault-run (real resource threads)"},
            {"name": "Determinism", "path": "spec/Determinism.tla", "serves_properties": ["C05"], "kind_free_text": "TLA+ trace spec; harness sub-command det-child run in several processes"},
            {"name": "StCore", "path": "spec/StCore.tla", "serves_properties": ["C01", "C02", "C03"], "kind_free_text": "TLA+ reference evaluator + lemma instance + trace refinement; harness sub-commands stcore-gen / stcore-run / stwide"},
            {"name": "HirDb", "path": "spec/HirDb.tla", "serves_properties": ["C13"], "kind_free_text": "TLA+ module + MC instance + trace refinement; harness sub-commands hirdb-gen / hirdb-run"},
            {"name": "ResourceThreads", "path": "spec/ResourceThreads.tla", "serves_properties": ["C20"], "kind_free_text": "TLA+ module + MC (safety + liveness) + stream-merging trace refinement; harness sub-command resource-run"},
            {"name": "DebugControl", "path": "spec/DebugControl.tla", "serves_properties": ["C17"],
             "kind_free_text": "TLA+ module + MC instance (safety + liveness) + nondeterministic trace refinement; harness sub-command debug-run"},
            {"name": "EndpointDebug", "path": "spec/EndpointDebug.tla", "serves_properties": ["C17", "C20"], "kind_free_text": "TLA+ module of the control endpoint's run-control requests in front of a multi-task program + MC (safety, liveness, one deviation that must fail) + trace refinement; harness sub-command dbgep-run (real ControlServer; DebugControl of a three-task runtime / real resource thread on the wall clock)"},
            {"name": "ResourceRestart", "path": "spec/ResourceRestart.tla", "serves_properties": ["C09"], "kind_free_text": "TLA+ module of restart requests, periodic retain saves and power cycles in the resource thread loop + MC (safety, liveness, two deviation configs that must fail) + trace refinement; harness sub-command restartloop-run (real resource threads, both runners)"},
            {"name": "RetainMgr", "path": "spec/RetainMgr.tla", "serves_properties": ["C10"], "kind_free_text": "TLA+ module of RetainManager (dedupe cache in front of a store that may fail) + MC (one deviation that must fail) + trace refinement; harness sub-command retainmgr-run"},
            {"name": "RetainFile", "path": "spec/RetainFile.tla", "serves_properties": ["C10"],
             "kind_free_text": "TLA+ module + MC instance + trace refinement; LD_PRELOAD crash shim; harness sub-commands retain-run / retain-child"},
            {"name": "StdFb", "path": "spec/StdFb.tla", "serves_properties": ["C04"],
             "kind_free_text": "TLA+ module + MC instance + trace refinement; harness sub-commands fb-gen / fb-run"},
            {"name": "RuntimeCycle", "path": "spec/RuntimeCycle.tla", "serves_properties": ["C06", "C07", "C08", "C09"],
             "kind_free_text": "TLA+ module + MC instance + trace refinement; harness sub-commands cycle-gen / cycle-run"},
        ],
        "checks": checks,
        "notes": "All checks: ./check <id> --tier quick|thorough. Specs in spec/, Rust conformance harness in harness/, driver and per-property logic in lib/. See DESIGN.md.",
        "not_applicable": [{"property_id": p, "reason": NOT_YET} for p in PROPS if p not in CHECKS],
    }
    (VERIF / "MANIFEST.json").write_text(json.dumps(m, indent=1) + "\n")


if __name__ == "__main__":
    main()
