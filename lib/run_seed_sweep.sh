#!/bin/bash
# quick tier of every registered check under several seeds (flakiness / false-alarm sweep)
cd "$(dirname "$0")/.."
./setup.sh >/dev/null 2>&1 || { echo "setup failed"; exit 2; }
for s in ${SEEDS:-2 3 4}; do
for c in C01 C02 C03 C04 C05 C06 C07 C08 C09 C10 C11 C12 C13 C14 C15 C16 C17 C18 C19 C20; do
  t=$(date +%s); out=$(VERIF_SEED=$s nice -n 10 ./check $c --tier quick 2>&1 | grep -v 'KNOWN-FINDING\|^NOTE' | tail -2 | cut -c1-220 | tr '\n' ' '); 
  echo "== seed $s $c $(( $(date +%s) - t ))s :: $out"
done; done
