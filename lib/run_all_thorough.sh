#!/bin/bash
# runs every registered thorough check once, sequentially, and prints exit code + wall time
cd "$(dirname "$0")/.."
./setup.sh >/dev/null 2>&1 || { echo "setup failed"; exit 2; }
for c in C05 C10 C04 C06 C07 C08 C09 C17 C20 C01 C02 C03 C13 C12 C11 C18 C19 C14 C16 C15; do
  s=$(date +%s); out=$(nice -n 10 ./check $c --tier thorough 2>&1 | grep -v KNOWN-FINDING | tail -2 | cut -c1-200); rc=$?
  echo "== $c $(( $(date +%s) - s ))s :: $out"
done
