#!/bin/bash
# usage: lib/confirm_seed.sh <seed-dir containing patch.diff + demo> <crate> <demo-file> [demo dest relative to repo]
# Confirms in a scratch worktree (outside /repo and /verif): patched tree compiles, crate tests pass,
# demo fails when patched and passes when clean.  Prints a summary; leaves the worktree clean.
set -u
SEED="$(realpath "$1")"; CRATE="$2"; DEMO="$3"; DEST="${4:-crates/$CRATE/tests/$DEMO}"
WT=/tmp/wt/confirm
mkdir -p /tmp/wt; while ! mkdir /tmp/wt/confirm.lock 2>/dev/null; do sleep 5; done
trap 'rmdir /tmp/wt/confirm.lock' EXIT
export CARGO_TARGET_DIR=/tmp/wt/confirm-target CARGO_NET_OFFLINE=true
if [ ! -d "$WT" ]; then git -C /repo worktree add -q --detach "$WT" HEAD || exit 2; fi
cd "$WT" && git checkout -q --detach "$(git -C /repo rev-parse HEAD)" && git checkout -q -- . && git clean -fdq -e target
T="$(basename "$DEMO" .rs)"
cp "$SEED/$DEMO" "$DEST"
echo "== clean tree: demo"
cargo test -p "$CRATE" --offline -j 8 --test "$T" 2>&1 | grep -E '^test result|FAILED|panicked|error(\[|:)' | head -5
git apply "$SEED/patch.diff" || { echo "PATCH DOES NOT APPLY"; exit 2; }
echo "== patched tree: demo"
cargo test -p "$CRATE" --offline -j 8 --test "$T" 2>&1 | grep -E '^test result|FAILED|panicked|error(\[|:)' | head -5
echo "== patched tree: crate suite"
rm -f "$DEST"
timeout 2400 cargo test -p "$CRATE" --offline -j 8 --no-fail-fast 2>&1 | grep -E '^test result: F|^test .* FAILED|^error' | sort | uniq -c | head -20
echo "== done"
git checkout -q -- . && git clean -fdq -e target; [ -n "${KEEP_TARGET:-}" ] || rm -rf "$CARGO_TARGET_DIR"
