#!/bin/bash
# usage: lib/try_mutant.sh <patch> <check id>...
# Tries a mutant WITHOUT touching /repo: a scratch worktree /tmp/wt/mrepo and a copy of the harness
# /tmp/wt/mh whose path dependencies point at it; out/evidence go to /tmp/wt/mout, /tmp/wt/mevid.
set -u
P="$(realpath "$1")"; shift
M=/tmp/wt
V="${VERIF_ROOT:-/verif}"   # which copy of the machinery to try the mutant with
mkdir -p $M
while ! mkdir $M/mutant.lock 2>/dev/null; do sleep 5; done
trap 'rmdir $M/mutant.lock' EXIT
if [ ! -d $M/mrepo ]; then git -C /repo worktree add -q --detach $M/mrepo HEAD || exit 2; fi
git -C $M/mrepo checkout -q -- . && git -C $M/mrepo checkout -q --detach "$(git -C /repo rev-parse HEAD)"
mkdir -p $M/mh
rsync -a --delete --exclude 'target*' "$V/harness/" $M/mh/
sed -i "s|/repo/crates|$M/mrepo/crates|g" $M/mh/Cargo.toml
git -C $M/mrepo apply "$P" || { echo "patch does not apply: $P"; exit 2; }
export VERIF_HARNESS=$M/mh VERIF_REPO=$M/mrepo VERIF_OUT=$M/mout VERIF_EVID=$M/mevid
for c in "$@"; do
  out=$(cd "$V" && ./check "$c" --tier quick 2>&1); rc=$?
  echo "$out" | tail -3 | cut -c1-300
  echo "  -> $(basename "$P") vs $c: exit $rc"
done
git -C $M/mrepo checkout -q -- .
