#!/bin/sh
# usage: lib/try_mutant.sh <patch> <check id>...   — apply to /repo, run quick checks, revert
p="$(realpath "$1")"; shift
cd /repo || exit 2
git apply "$p" || { echo "patch does not apply: $p"; exit 2; }
for c in "$@"; do
  ( cd /verif && ./check "$c" --tier quick 2>&1 | tail -3 ); echo "  -> $c exit $?"
done
git -C /repo checkout -- . 
