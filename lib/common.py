"""Shared plumbing for the /verif checks: build, TLC runs, trace validation, evidence,
known findings, violation reporting.  Exit codes: 0 held, 1 violation, 2 tool error."""
import hashlib
import json
import os
import re
import shutil
import subprocess
import sys
import time
from pathlib import Path

VERIF = Path(__file__).resolve().parent.parent
SPEC = VERIF / "spec"
# The registered checks always use /verif/harness (path deps on /repo) and /verif/out, /verif/evidence.
# The environment overrides exist only so that mutants can be tried against a scratch copy of the
# repository without touching /repo (lib/try_mutant.sh).
HARNESS = Path(os.environ.get("VERIF_HARNESS", VERIF / "harness"))
OUT = Path(os.environ.get("VERIF_OUT", VERIF / "out"))
EVID = Path(os.environ.get("VERIF_EVID", VERIF / "evidence"))
TPV = HARNESS / "target" / "debug" / "tpv"
REPO = Path(os.environ.get("VERIF_REPO", "/repo"))
TLC_JAR_CP = "/opt/veriftools/tla/tla2tools.jar:/opt/veriftools/tla/CommunityModules-deps.jar"


class ToolError(Exception):
    pass


def seed() -> int:
    try:
        return int(os.environ.get("VERIF_SEED", "1"))
    except ValueError:
        return 1


def log(*a):
    print(*a, flush=True)


def sh(cmd, *, cwd=None, env=None, timeout=None, check=True, capture=True, input=None):
    e = dict(os.environ)
    if env:
        e.update(env)
    try:
        p = subprocess.run(cmd, cwd=cwd, env=e, timeout=timeout, input=input,
                           stdout=subprocess.PIPE if capture else None,
                           stderr=subprocess.STDOUT if capture else None, text=True,
                           errors="replace")
    except subprocess.TimeoutExpired as ex:
        raise ToolError(f"timeout after {timeout}s: {cmd}") from ex
    if check and p.returncode != 0:
        raise ToolError(f"command failed ({p.returncode}): {cmd}\n{(p.stdout or '')[-4000:]}")
    return p


# ----------------------------------------------------------------------------- build
def build_harness():
    """cargo build of the harness (path deps => rebuilt from /repo's working tree)."""
    t = time.time()
    env = {"CARGO_NET_OFFLINE": "true"}
    p = sh(["cargo", "build", "--offline", "--quiet"], cwd=HARNESS, env=env, timeout=3000, check=False)
    if p.returncode != 0:
        raise ToolError("harness build failed:\n" + (p.stdout or "")[-6000:])
    if not TPV.exists():
        raise ToolError("tpv binary missing after build")
    return time.time() - t


def build_repo_bin(pkg: str, bin_name: str) -> Path:
    """Build a binary of /repo itself (trust-lsp, trust-debug) into harness/target-repo."""
    tdir = HARNESS / "target-repo"
    env = {"CARGO_NET_OFFLINE": "true"}
    p = sh(["cargo", "build", "--offline", "--quiet", "--manifest-path", str(REPO / "Cargo.toml"),
            "-p", pkg, "--bin", bin_name, "--target-dir", str(tdir)], cwd=HARNESS, env=env,
           timeout=3000, check=False)
    if p.returncode != 0:
        raise ToolError(f"build of {pkg} failed:\n" + (p.stdout or "")[-6000:])
    b = tdir / "debug" / bin_name
    if not b.exists():
        raise ToolError(f"{b} missing after build")
    return b


def tpv(args, *, timeout=1200, env=None, check=True, input=None):
    return sh([str(TPV)] + [str(a) for a in args], cwd=VERIF, env=env, timeout=timeout, check=check, input=input)


# ----------------------------------------------------------------------------- TLC
STATE_RE = re.compile(r"(\d+) states generated, (\d+) distinct states found, (\d+) states left on queue")
DEPTH_RE = re.compile(r"The depth of the complete state graph search is (\d+)")
COV_RE = re.compile(r"^<(\w+) line \d+, col \d+ to line \d+, col \d+ of module (\w+)(?: \([\d ]+\))?>: (\d+):(\d+)", re.M)


def run_tlc(module: str, cfg: str = None, *, workers=8, env=None, simulate=None, depth=None,
            timeout=900, coverage=False, seed_=None, xmx="6g", xss="1g", dfs=False, extra=None,
            allow_violation=False, tag=None):
    """Run TLC on spec/<module>.tla with spec/<cfg>.cfg.  Returns a dict with the parsed
    counters and stdout.  A specification error (invariant violated, parse error, ...) is
    a ToolError unless allow_violation."""
    cfg = cfg or module
    tag = tag or f"{module}-{cfg}-{os.getpid()}-{int(time.time()*1000)%100000}"
    meta = OUT / "tlc" / tag
    if meta.exists():
        shutil.rmtree(meta, ignore_errors=True)
    meta.mkdir(parents=True, exist_ok=True)
    jopts = f"-Xss{xss} -Xmx{xmx}"
    if dfs:
        jopts += " -Dtlc2.tool.queue.IStateQueue=StateDeque"
    cmd = ["java", "-XX:+UseParallelGC"] + jopts.split() + ["-cp", TLC_JAR_CP, "tlc2.TLC",
           "-workers", str(workers), "-metadir", str(meta), "-cleanup", "-noGenerateSpecTE",
           "-config", f"{cfg}.cfg"]
    if coverage:
        cmd += ["-coverage", "1"]
    if simulate is not None:
        cmd += ["-simulate", f"num={simulate}"]
        if depth:
            cmd += ["-depth", str(depth)]
    if seed_ is not None:
        cmd += ["-seed", str(seed_)]
    if extra:
        cmd += extra
    cmd += [f"{module}.tla"]
    t = time.time()
    p = sh(cmd, cwd=SPEC, env=env, timeout=timeout, check=False)
    wall = time.time() - t
    shutil.rmtree(meta, ignore_errors=True)
    out = p.stdout or ""
    res = {"stdout": out, "wall_s": wall, "rc": p.returncode, "generated": 0, "distinct": 0, "depth": 0}
    m = None
    for m in STATE_RE.finditer(out):
        pass
    if m:
        res["generated"], res["distinct"] = int(m.group(1)), int(m.group(2))
    m = DEPTH_RE.search(out)
    if m:
        res["depth"] = int(m.group(1))
    res["violation"] = ("is violated" in out) or ("Error:" in out) or p.returncode not in (0,)
    if coverage:
        cov = {}
        for m in COV_RE.finditer(out):
            name = m.group(1)
            cov[name] = cov.get(name, 0) + int(m.group(4))
        res["action_coverage"] = cov
    if res["violation"] and not allow_violation:
        raise ToolError(f"TLC reported an error on {module}/{cfg} (rc={p.returncode}):\n{out[-5000:]}")
    return res


def tlc_printed(out: str, marker: str):
    """Extract JSON payloads printed by PrintT(<<marker, ToJson(x)>>) lines."""
    res = []
    pat = re.compile(r'^<<"' + re.escape(marker) + r'", "(.*)">>\s*$')
    for line in out.splitlines():
        m = pat.match(line)
        if m:
            s = m.group(1).replace('\\"', '"').replace("\\\\", "\\")
            try:
                res.append(json.loads(s))
            except json.JSONDecodeError:
                raise ToolError(f"unparseable TLC payload: {line[:300]}")
    return res


def validate_trace(trace_module: str, trace_path: Path, *, cfg=None, timeout=1800, dfs=False,
                   xmx="6g", extra_env=None, tag=None):
    """Run a trace specification over an ndjson trace.  The module must write its verdict
    with JsonSerialize(IOEnv.OUT, ...) once every line was consumed.  Returns
    (verdict_json, tlc_result).  No verdict file => ToolError (the trace could not be
    consumed: malformed event or harness/spec vocabulary mismatch)."""
    outp = Path(str(trace_path) + ".verdict.json")
    if outp.exists():
        outp.unlink()
    env = {"TRACE": str(trace_path), "OUT": str(outp)}
    if extra_env:
        env.update(extra_env)
    r = run_tlc(trace_module, cfg or trace_module, workers=1, env=env, timeout=timeout, dfs=dfs,
                xmx=xmx, allow_violation=True, tag=tag)
    if not outp.exists():
        raise ToolError(f"trace validation with {trace_module} produced no verdict for {trace_path}:\n"
                        + r["stdout"][-4000:])
    try:
        verdict = json.loads(outp.read_text())
    except json.JSONDecodeError as ex:
        raise ToolError(f"bad verdict file {outp}: {ex}")
    return verdict, r


# ----------------------------------------------------------------------------- traces
def read_ndjson(path):
    rows = []
    with open(path) as f:
        for line in f:
            line = line.strip()
            if line:
                rows.append(json.loads(line))
    return rows


def split_runs(rows):
    """Split a concatenated trace into runs; every run starts with a Reset event."""
    runs, cur = [], None
    for r in rows:
        if r.get("a") == "Reset":
            cur = [r]
            runs.append(cur)
        elif cur is not None:
            cur.append(r)
    return runs


def digest(obj) -> str:
    return hashlib.sha256(json.dumps(obj, sort_keys=True).encode()).hexdigest()[:16]


# ----------------------------------------------------------------------------- findings
def load_findings(prop):
    p = VERIF / "known_findings.json"
    if not p.exists():
        return []
    data = json.loads(p.read_text())
    return [f for f in data.get("findings", []) if f.get("property") == prop and f.get("status") == "open"]


class Report:
    """Collects violations / known findings for one check run and finishes it."""

    def __init__(self, prop, tier, level):
        self.prop, self.tier, self.level = prop, tier, level
        self.t0 = time.time()
        self.violations = []      # (key, replay_path, summary)
        self.known = {}           # finding id -> count
        self.findings = load_findings(prop)
        self.replay_dir = OUT / "replay" / prop
        if self.replay_dir.exists():
            shutil.rmtree(self.replay_dir, ignore_errors=True)
        self.replay_dir.mkdir(parents=True, exist_ok=True)
        self.notes = []

    def classify(self, key: str):
        """Return the matching open finding for a violation key, or None."""
        for f in self.findings:
            if f.get("key") == key or key in f.get("keys", []):
                return f
            # a finding may name a family of keys that share one root cause by prefix / suffix; the
            # prefixes are as specific as the failing call site allows (see known_findings.json)
            if any(key.startswith(p) for p in f.get("key_prefixes", [])) or any(key.endswith(s) for s in f.get("key_suffixes", [])):
                return f
        return None

    def violation(self, key: str, replay_obj, summary: str):
        """Record a violation identified by `key` (the specific failing class)."""
        f = self.classify(key)
        if f is not None:
            self.known[f["id"]] = self.known.get(f["id"], 0) + 1
            return False
        n = len(self.violations) + 1
        path = self.replay_dir / f"{n:04d}.json"
        if n <= 50:
            path.write_text(json.dumps({"property": self.prop, "key": key, "summary": summary,
                                        "replay": replay_obj}, indent=1))
        else:
            path = self.replay_dir / "0050.json"
        self.violations.append((key, path, summary))
        return True

    def finish(self, coverage: dict, assumptions=None):
        wall = time.time() - self.t0
        for f in self.findings:
            if f["id"] in self.known:
                log(f"KNOWN-FINDING: property={self.prop} {f['what']} [{f['id']}; {self.known[f['id']]} occurrence(s) this run]")
        ev = {"property_id": self.prop, "tier": self.tier, "seed": seed(), "level": self.level,
              "coverage": coverage, "assumptions": assumptions or [], "wall_s": round(wall, 2),
              "violations": len(self.violations),
              "known_findings_seen": self.known}
        EVID.mkdir(exist_ok=True)
        # a --replay run judges one stored script: its record goes next to the replay files, the evidence of the
        # last quick / thorough run stays what it is
        target = (OUT / f"replay-evidence-{self.prop}.json") if os.environ.get("VERIF_REPLAY") else (EVID / f"{self.prop}.json")
        target.write_text(json.dumps(ev, indent=1, sort_keys=True) + "\n")
        shown = set()
        for key, path, summary in self.violations:
            if (key, str(path)) in shown:
                continue
            shown.add((key, str(path)))
            if len(shown) > 20:
                break
            log(f"VIOLATION property={self.prop} replay={path}  # {key}: {summary[:300]}")
        if self.violations:
            log(f"{self.prop}: {len(self.violations)} violation(s) in {wall:.0f}s")
            return 1
        log(f"{self.prop}: held on everything explored ({wall:.0f}s)")
        return 0
