"""C08 through the resource thread loop (scheduler.rs): design-level TLC run of ResourceFault (and the
deviation that publishes a watchdog fault without apply_fault must violate SafeBeforeReport), real
resource threads (plain and shared-globals runner) x fault kind (run-time error, watchdog, driver, simulation disturbance) x fault policy x watchdog action x
safe-state maps x 1..3 drivers, and validation of the totally ordered driver/observation log against
ResourceFaultTrace."""
from common import ToolError, read_ndjson, run_tlc, seed, split_runs, tpv, validate_trace


def resfault_stage(rep, tier, work):
    """Runs the stage, reports violations through rep, returns coverage numbers."""
    mc = run_tlc("MCResourceFault", "MCResourceFault", workers=2, coverage=True, timeout=300, tag="mc-c08-resfault")
    cov = mc.get("action_coverage", {})
    for a in ("CycleFault", "Decide", "Deliver", "Publish", "Restart"):
        if cov.get(a, 0) == 0:
            raise ToolError(f"vacuous ResourceFault model run: action {a} never taken ({cov})")
    neg = run_tlc("MCResourceFault", "MCResourceFault_skip", workers=2, timeout=300, allow_violation=True, tag="mc-c08-resfault-neg")
    if "Invariant SafeBeforeReport is violated" not in neg["stdout"]:
        raise ToolError("the deviation MCResourceFault_skip does not violate SafeBeforeReport:\n" + neg["stdout"][-1500:])
    n = 144 if tier == "quick" else 2160          # multiples of the 144 enumerated combinations (72 x policies from files / by config.set)
    tr = work / "resfault.ndjson"
    # in chunks of 144 runs, one process each (the endpoint fixtures of the live-configuration runs leave threads behind)
    with open(tr, "w") as out:
        for off in range(0, n, 144):
            part = work / f"resfault.{off}.ndjson"
            tpv(["resfault-run", "--seed", seed(), "--offset", off, "--runs", min(144, n - off), "--out", part], timeout=3000)
            out.write(part.read_text())
            part.unlink()
    rows = read_ndjson(tr)
    runs = split_runs(rows)
    verdict, _ = validate_trace("ResourceFaultTrace", tr, tag="trace-c08-resfault")
    if verdict["events"] != len(rows) or verdict["runs"] != n:
        raise ToolError("ResourceFaultTrace did not consume every event / run")
    for b in verdict["bad"]:
        r = runs[b["run"] - 1]
        why = "+".join(sorted(b["why"]))
        rep.violation(f"resource-loop:{why}@{b['kind']}/{b['policy']}/{b['wd']}",
                      {"resource_loop": True, "seed": seed(), "run": r[0], "rejected_event": rows[b["line"] - 1], "why": b["why"], "trace": r},
                      f"resource thread ({b['runner']} runner), {b['kind']} fault under policy {b['policy']} / watchdog {b['wd']}: {why}")
    faulted = sum(1 for r in rows if r["a"] == "Obs" and r["state"] == "Faulted")
    return {"resource_loop_runs": n, "resource_loop_events": len(rows), "resource_loop_faults_reported": faulted,
            "resource_loop_restarts": n - faulted, "resource_loop_rejected": len(verdict["bad"]),
            "resource_fault_model_states": mc.get("distinct", 0)}
