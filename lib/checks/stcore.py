"""C01 / C02 / C03 — typed ST core against the StCore reference semantics (TLC trace validation of
every variable's value and tag after every cycle), the operator x type x boundary matrix, and for
C01 the wide generator over every elementary type judged by the outcome contract only."""
import json

from common import (OUT, REPO, Report, ToolError, build_harness, digest, log, read_ndjson, run_tlc, seed, split_runs,
                    tpv, validate_trace)

VALUE_FAULTS = {"DivisionByZero", "ModuloByZero", "Overflow", "IndexOutOfBounds", "NullReference", "ForStepZero",
                "DateTimeRange", "Timeout", "ExecutionTimeout"}
CORE_TAGS = {"BOOL", "SINT", "INT", "DINT", "USINT", "UINT", "BYTE", "WORD"}


def classify(prop, why, script, ev):
    """-> list of (key, summary) this property reports for one rejected cycle."""
    out = []
    drift = set(script.get("drift", []))
    if script.get("profile") == "case":
        # every identifier occurrence in the body is spelled in another case than its declaration
        for w in why:
            kind, _, rest = w.partition(":")
            if kind == "outcome" and prop == "C01":
                out.append(("static-error:case-variant-identifier" if rest == "UndefinedVariable" else f"crash-or-static-error:{rest}", f"outcome {rest} in a program whose identifiers differ in case from their declarations"))
            elif kind in ("value", "fault-kind") and prop == "C02":
                out.append(("value:case-variant-identifier", f"{w} in a program whose identifiers differ in case from their declarations"))
            elif kind == "tag" and prop == "C03":
                out.append(("tag-drift:other-path", f"{rest} holds a value whose tag is not its declared type"))
        return out
    for w in why:
        kind, _, rest = w.partition(":")
        if kind == "outcome" and prop == "C01":
            if rest in ("Panic", "PanicInCompiler", "Abort"):
                out.append((f"crash:{rest}", f"cycle ended in {rest}"))
            elif drift:
                out.append(("static-error-after-tag-drift:assign-no-coerce", f"static-class error {rest} in a program with a non-converting assignment"))
            else:
                out.append((f"static-error:{rest}", f"accepted program failed with static-class error {rest}"))
        elif kind == "frames-left" and prop == "C01":
            if not any(x.startswith("outcome:Panic") for x in why):      # a panic unwinds past the frame pops; reported once
                out.append(("frames-left", "call frames left behind after the cycle"))
        elif kind == "fault-kind" and prop == "C02":
            out.append(("fault-kind:assign-no-coerce" if drift else "fault-kind", f"fault differs from the reference: {rest}"))
        elif kind == "value" and prop == "C02":
            out.append(("value:assign-no-coerce" if drift else "value", f"value of {rest} differs from the reference"))
        elif kind == "tag" and prop == "C03":
            out.append(("tag-drift:assign-no-coerce" if rest in drift else "tag-drift:other-path", f"{rest} holds a value whose tag is not its declared type"))
        elif kind == "unknown-value-kind" and prop == "C03":
            bad = [n for n, v in ev.get("vars", {}).items() if (v["t"] not in CORE_TAGS and v["t"] != "ARRAY")]
            ok = all(n in drift for n in bad)
            out.append(("tag-drift:assign-no-coerce" if ok and bad else "tag-drift:other-path", f"{bad} hold values of a foreign kind"))
    return out


def run(prop, tier, replay):
    work = OUT / prop.lower()
    work.mkdir(parents=True, exist_ok=True)
    rep = Report(prop, tier, "model_checking")
    build_harness()
    s = seed()
    mc = {"distinct": 0, "generated": 0}
    if replay:
        rp = json.loads(open(replay).read())["replay"]
        scripts = [rp["script"]] if "script" in rp else []
        wide_n = 0
        if rp.get("opcase"):
            # one case of the full-width operator matrix, re-run in a child process
            p = tpv(["stwide-child", "--opmatrix", 1, "--from", rp["k"], "--to", rp["k"] + 1], check=False)
            end = [l.split(" ") for l in (p.stdout or "").splitlines() if l.startswith("END ")]
            got = end[0][7:] if end and end[0][2] == "op" else ["Abort", "NONE", "0", "-1", "", "0"]
            res, gt, gv, frames, er, ev = got
            bad = (res in ("Panic", "Abort") or (res != "ok" and res not in VALUE_FAULTS) or frames != "0") if prop == "C01" else \
                  (res not in ("Panic", "Abort") and (res != er or (res == "ok" and (gv != ev or gt != rp["t"]))))
            if bad:
                rep.violation(json.loads(open(replay).read())["key"], rp, f"operator matrix {rp['t']} {rp['op']}({rp['x']}, {rp['y']}): outcome {res} {gt}#{gv}, reference {er} {ev}")
            return rep.finish({"evaluations": 1, "distinct_nontrivial": 1, "replayed": True}, [])
    else:
        mc = run_tlc("MCStCore", "MCStCore", workers=1, timeout=600, tag=f"mc-{prop}")
        n_rand = 700 if tier == "quick" else 12000
        scripts = []
        parts = [("matrix", ["--slice", s % 4, "--of", 4] if tier == "quick" else []), ("strict", ["--runs", n_rand]), ("natural", ["--runs", n_rand]), ("pous", ["--runs", n_rand]), ("case", ["--runs", max(100, n_rand // 5)])]
        for name, extra in parts:
            f = work / f"s_{name}.ndjson"
            tpv(["stcore-gen", "--seed", s, "--profile", name, "--out", f] + extra)
            scripts += read_ndjson(f)
        wide_n = (1200 if tier == "quick" else 30000) if prop == "C01" else 0
    sp = work / "all.scripts.ndjson"
    with open(sp, "w") as f:
        for sc in scripts:
            f.write(json.dumps(sc) + "\n")
    tr = work / "all.trace.ndjson"
    nbad = 0
    rows, runs = [], []
    if scripts:
        p = tpv(["stcore-run", "--scripts", sp, "--out", tr], timeout=3000)
        stats = json.loads(p.stdout.strip().splitlines()[-1])
        if stats["accepted"] < 0.3 * len(scripts):
            raise ToolError(f"only {stats['accepted']} of {len(scripts)} generated programs accepted by the compiler")
        rows = read_ndjson(tr)
        runs = split_runs(rows)
        verdict, _ = validate_trace("StCoreTrace", tr, tag=f"trace-{prop}", timeout=3000)
        if verdict["events"] != len(rows):
            raise ToolError("trace validation did not consume every event")
        for b in verdict["bad"]:
            ev = rows[b["line"] - 1]
            r = runs[b["run"] - 1]
            script = scripts[r[0]["script"]]
            for key, summary in classify(prop, b["why"], script, ev):
                nbad += 1
                rep.violation(key, {"script": script, "cycle_event": ev, "why": b["why"], "reference_outcome": b["expected"]},
                              f"{script['profile']} program #{r[0]['script']}: {summary} (reference outcome {b['expected']})")
    wide_rows, op_rows = [], []
    if wide_n or (prop == "C02" and not replay):
        wf = work / "wide.ndjson"
        p = tpv(["stwide", "--seed", s, "--runs", wide_n, "--out", wf], timeout=3000)
        wstats = json.loads(p.stdout.strip().splitlines()[-1])
        if wstats["accepted"] < 0.3 * wide_n:
            raise ToolError(f"wide generator: only {wstats['accepted']} of {wide_n} programs accepted")
        wall = read_ndjson(wf)
        wide_rows = [r for r in wall if r["a"] == "Outcome"]
        # the full-width operator matrix (8 integer types incl. LINT / ULINT x 11 operator forms x boundary
        # operands); expected outcome computed by the harness in exact arithmetic (TLC integers are 32-bit)
        op_rows = [r for r in wall if r["a"] == "OpCase" and r["res"] != "rejected"]
        if len(op_rows) < 10000:
            raise ToolError(f"operator matrix: only {len(op_rows)} cases ran")
        for r in op_rows:
            what = f"{r['t']} {r['op']}({r['x']}, {r['y']})"
            rp = {"opcase": True, "k": r["k"], "t": r["t"], "op": r["op"], "x": r["x"], "y": r["y"], "outcome": r["res"], "got": r["got"],
                  "expected_outcome": r["expRes"], "expected": r["exp"]}
            if prop == "C01":
                if r["res"] in ("Panic", "Abort"):
                    rep.violation(f"crash:{r['res']}:operator", rp, f"operator matrix {what}: {r['res']}")
                elif r["res"] != "ok" and r["res"] not in VALUE_FAULTS:
                    rep.violation(f"static-error:{r['res']}:operator", rp, f"operator matrix {what}: static-class error {r['res']}")
                elif r["frames"] != 0:
                    rep.violation("frames-left:operator", rp, f"operator matrix {what}: {r['frames']} frame(s) left")
            elif prop == "C02":
                if r["res"] in ("Panic", "Abort"):
                    continue    # C01's
                if r["res"] != r["expRes"]:
                    rep.violation("fault-kind:operator-matrix", rp, f"operator matrix {what}: outcome {r['res']}, reference {r['expRes']}")
                elif r["res"] == "ok" and (r["got"] != r["exp"] or r["gotT"] != r["t"]):
                    rep.violation("value:operator-matrix", rp, f"operator matrix {what} = {r['gotT']}#{r['got']}, reference {r['t']}#{r['exp']}")
        # the abstract outcome contract of C01 (RuntimeCycle level): Ok | value-dependent fault, frames empty, no crash
        for r in wide_rows:
            if r["res"] == "Abort" and r.get("recursive"):
                key = "abort:recursive-function"
            elif r["res"] in ("Panic", "Abort", "PanicInCompiler"):
                key = f"crash:{r['res']}"
            elif r["res"] != "ok" and r["res"] not in VALUE_FAULTS:
                key = f"static-error:{r['res']}"
            elif r["frames"] != 0 and r["res"] != "Abort":
                key = "frames-left"
            else:
                continue
            rep.violation(key, {"wide": True, "k": r["k"], "seed": s, "source": r.get("src", ""), "outcome": r["res"], "frames": r["frames"]},
                          f"wide program #{r['k']}: outcome {r['res']}, frames {r['frames']}")
    std_rows = []
    if prop == "C01" and not replay:
        # standard-library call matrix: every registered function and conversion x boundary values; a tuple is
        # judged only if the compiler accepts the one-statement program that makes the call
        import re
        from stdlib_names import scrape
        funcs = scrape(REPO)
        if len([f for f in funcs if f["from"] == "registry"]) < 60:
            raise ToolError(f"standard library scrape found only {len(funcs)} registered functions")
        ff = work / "stdlib_funcs.ndjson"
        with open(ff, "w") as f:
            for x in funcs:
                f.write(json.dumps(x) + "\n")
        sf = work / "stdlib.ndjson"
        tpv(["stlib-run", "--funcs", ff, "--out", sf, "--budget", 40000 if tier == "quick" else 1500000, "--seed", s], timeout=3000)
        std_rows = [r for r in read_ndjson(sf) if r["a"] == "StdFn"]
        if sum(r["calls"] for r in std_rows) < 1000000 or sum(1 for r in std_rows if r["okClasses"] > 0) < 250:
            raise ToolError("standard library matrix: too few calls / callable functions")
        signed, unsigned = {"SINT", "INT", "DINT", "LINT"}, {"USINT", "UINT", "UDINT", "ULINT"}
        for r in std_rows:
            for c in r["confirmed"]:
                ts = set(c["types"].split(","))
                name = r["name"]
                if c["res"] in ("Panic", "Abort"):
                    key = f"stdlib:{c['res'].lower()}:{name}"
                elif signed & ts and unsigned & ts:
                    key = f"stdlib:static-error:{c['res']}:mixed-sign"
                elif name in ("LEFT", "RIGHT", "MID", "INSERT", "DELETE", "REPLACE", "FIND", "LEN", "CONCAT") and any(re.search(r"[^\x00-\x7f]", l) for l in c["lits"]):
                    key = f"stdlib:static-error:{c['res']}:string-multibyte"
                elif name in ("SHL", "SHR", "ROL", "ROR") and any("#-" in l for l in c["lits"][1:]):
                    key = f"stdlib:static-error:{c['res']}:negative-shift"
                elif "BCD" in name and c["res"] == "TypeMismatch":
                    key = "stdlib:static-error:TypeMismatch:invalid-bcd"
                else:
                    key = f"stdlib:static-error:{c['res']}:{name}({c['types']})"
                rep.violation(key, {"stdlib": True, "function": name, "literals": c["lits"], "source": c["src"], "outcome": c["res"]},
                              f"standard function {name}({', '.join(c['lits'])[:120]}) in an accepted program: {c['res']}")
    feat_rows = []
    if prop == "C02" and not replay:
        # feature programs that carry their own oracle (`selfcheck`): only that verdict is C02's
        fp = work / "features.ndjson"
        tpv(["stfeat", "--seed", s, "--runs", 810 if tier == "quick" else 27000, "--out", fp], timeout=3000)
        for r in read_ndjson(fp):
            if r["a"] == "Feature" and r["accepted"] and r["res"] == "SelfCheckFailed":
                rep.violation(f"feature:selfcheck:{r['family']}", {"feature": True, "family": r["family"], "k": r["k"], "seed": s, "source": r.get("src", "")},
                              f"feature program #{r['k']} ({r['family']}): the value computed through the feature differs from the same value computed without it")
    if prop == "C01" and not replay:
        # feature programs: language features outside the random generators' grammar, outcome contract only
        fp = work / "features.ndjson"
        tpv(["stfeat", "--seed", s, "--runs", 750 if tier == "quick" else 25000, "--out", fp], timeout=3000)
        feat_rows = [r for r in read_ndjson(fp) if r["a"] == "Feature"]
        fams = {r["family"] for r in feat_rows if r["accepted"]}
        if len(fams) < 20:
            raise ToolError(f"feature programs: only {len(fams)} families are accepted by the compiler: {sorted(fams)}")
        for r in feat_rows:
            if not r["accepted"]:
                continue
            if r["res"] in ("Panic", "Abort", "Hang", "PanicInCompiler"):
                key = f"feature:{r['res'].lower()}:{r['family']}"
            elif r["res"] == "SelfCheckFailed":
                continue    # a value question: C02's
            elif r["res"] != "ok" and r["res"] not in VALUE_FAULTS:
                key = f"feature:static-error:{r['res']}:{r['family']}"
            elif r["frames"] != 0:
                key = f"feature:frames-left:{r['family']}"
            else:
                continue
            rep.violation(key, {"feature": True, "family": r["family"], "k": r["k"], "seed": s, "source": r.get("src", ""), "outcome": r["res"], "frames": r["frames"]},
                          f"feature program #{r['k']} ({r['family']}): outcome {r['res']}, frames {r['frames']}")
    rc_runs = rc_events = 0
    if prop == "C03" and not replay:
        from checks.runtimecycle import tag_rejections
        rej, rc_runs, rc_events = tag_rejections(work, 150 if tier == "quick" else 2000)
        for b, ev in rej:
            rep.violation("tag-drift:io-latch-or-restart", {"runtime_cycle_event": ev, "why": b["why"]},
                          f"RuntimeCycle {b['kind']} event: a bound / restarted variable holds a value whose tag is not its declared type")
    dw_rows = []
    if prop == "C03" and not replay:
        # debugger writes through the control endpoint (set / io.write / io.force carry their value as text)
        dwf = work / "dbgwrite.ndjson"
        tpv(["dbgwrite-run", "--out", dwf, "--work", work / "dbgwrite-fx"], timeout=1800)
        dw_rows = read_ndjson(dwf)
        if sum(1 for r in dw_rows if r["a"] == "DbgWrite" and r["accepted"]) < 20:
            raise ToolError("debugger-write stage: fewer than 20 accepted writes")
        for r in dw_rows:
            if r["a"] == "DbgWrite":
                why = []
                if r["tagAfter"] != r["declared"]:
                    why.append("tag")
                if r["cycleErrors"]:
                    why.append("cycle-fault")
                if not r["accepted"] and r["before"] != r["after"]:
                    why.append("refused-but-changed")
                if why:
                    rep.violation(f"dbgwrite:{'+'.join(why)}:{r['declared']}", {"dbgwrite": True, "event": r},
                                  f"control request set {r['target']} := '{r['text']}' (declared {r['declared']}): stored {r['after']}, cycle errors {r['cycleErrors']}")
            elif r["a"] == "DbgIo" and (r["cycleErrors"] or r["nextCycleErrors"]):
                rep.violation(f"dbgwrite:io:cycle-fault:{r['address']}", {"dbgwrite": True, "event": r},
                              f"control request {r['via']} {r['address']} := '{r['text']}': the next cycle fails with {r['cycleErrors'] or r['nextCycleErrors']}")
    conf_rows = []
    if prop == "C02" and not replay:
        # the shipped conformance runner: the real `trust-runtime conformance --update-expected` records generated cases
        # (inputs the program consumes, repeated and skipped steps, clock steps, restarts); each recorded trace must be
        # the one the same case gives when driven directly through TestHarness (the interface StCoreTrace judges)
        from common import build_repo_bin
        rtbin = build_repo_bin("trust-runtime", "trust-runtime")
        n_conf = 60 if tier == "quick" else 900
        for off in range(0, n_conf, 300):
            cf = work / f"confcli.{off}.ndjson"
            tpv(["conf-run", "--bin", rtbin, "--seed", int(seed()) + off, "--runs", min(300, n_conf - off), "--work", work / "confcli-w", "--out", cf], timeout=1800)
            conf_rows += read_ndjson(cf)
        if sum(1 for r in conf_rows if r["recorded"]) < n_conf * 9 // 10:
            raise ToolError("conformance-runner stage: the binary recorded fewer than 90 % of the generated cases:\n" + json.dumps(next((r for r in conf_rows if not r["recorded"]), {}))[:800])
        shown = 0
        for r in conf_rows:
            if not r["same"] and shown < 20:
                shown += 1
                rep.violation("conformance-cli:recorded-trace-differs-from-the-direct-run", {"confcli": True, "case": r["case"], "diff": r["diff"]},
                              f"trust-runtime conformance, case {r['id']}: {'; '.join(r['diff'][:3])}")
    mesh_rows = []
    if prop == "C03" and not replay:
        # values that arrive over the mesh (a peer publishes; [runtime.mesh.subscribe] of a real runtime.toml maps them to globals)
        mwf = work / "meshwrite.ndjson"
        tpv(["meshwrite-run", "--out", mwf], timeout=1800)
        mesh_rows = read_ndjson(mwf)
        if sum(1 for r in mesh_rows if r["started"] and r["running"]) < 30:
            raise ToolError("mesh-write stage: fewer than 30 cases in which the mesh started and the resource kept running")
        if sum(1 for r in mesh_rows if r["xAfter"] not in ("DInt(0)", "Real(0.0)", "Int(0)", "USInt(0)", "Bool(false)", "Word(0)", "LInt(0)")) < 10:
            raise ToolError("mesh-write stage: fewer than 10 published values arrived in a global (nothing judged)")
        for r in mesh_rows:
            for v in ("x", "y"):
                if r[v + "Tag"] != r[v + "Declared"]:
                    rep.violation(f"meshwrite:tag:{r[v + 'Declared']}", {"meshwrite": True, "event": r},
                                  f"mesh publish {json.dumps(r[v + 'Published'])} for the subscribed global {r[v]} (declared {r[v + 'Declared']}, second / third "
                                  f"subscription after one that names an undeclared global): stored {r[v + 'After']}")
    ncyc = sum(1 for r in rows if r["a"] == "Cycle")
    outcomes = {}
    for r in rows:
        if r["a"] == "Cycle":
            outcomes[r["res"]] = outcomes.get(r["res"], 0) + 1
    for r in wide_rows:
        outcomes["wide:" + r["res"]] = outcomes.get("wide:" + r["res"], 0) + 1
    cov = {
        "states": max(mc["distinct"], 1) + len(rows), "transitions": max(mc["generated"], 1) + len(rows),
        "traces_validated_against_impl": len(runs),
        "programs_typed_core": len(runs), "cycles_validated": ncyc, "programs_wide_generator": len(wide_rows), "operator_matrix_cases_full_width": len(op_rows), "debugger_writes_through_control_endpoint": len(dw_rows), "mesh_publishes_to_subscribed_globals": len(mesh_rows), "conformance_runner_cases_recorded_by_the_binary": sum(1 for r in conf_rows if r["recorded"]), "feature_programs_accepted": sum(1 for r in feat_rows if r["accepted"]), "feature_families": len({r["family"] for r in feat_rows if r["accepted"]}), "stdlib_functions_called": sum(1 for r in std_rows if r["okClasses"] > 0), "stdlib_calls": sum(r["calls"] for r in std_rows),
        "profiles": {p: sum(1 for r in runs if scripts[r[0]["script"]]["profile"] == p) for p in ("matrix", "strict", "natural", "pous", "case")},
        "outcomes": outcomes,
        "runtime_cycle_runs_tag_checked": rc_runs, "runtime_cycle_events_tag_checked": rc_events,
        "evaluations": len(runs) + len(wide_rows),
        "distinct_nontrivial": len({digest(scripts[r[0]["script"]]["body"]) for r in runs}) + len(wide_rows),
        "rule": "one evaluation = one generated ST program the compiler accepted, run for up to 3 cycles with inputs in between; typed-core "
                "programs are compared variable by variable (value and tag) with the TLA+ reference after every cycle; wide programs only "
                "against the outcome contract; distinct by program body; every accepted program is non-trivial (at least one statement executed)",
        "samples": [{"source": scripts[0]["src"]} if scripts else {}, rows[1] if len(rows) > 1 else {}],
        "exhaustive": False,
    }
    return rep.finish(cov, assumptions=[
        "StCore covers BOOL, SINT, INT, DINT, USINT, UINT, BYTE, WORD, one-dimensional arrays, structs, IF/CASE/FOR/WHILE/REPEAT/EXIT/CONTINUE/RETURN, FUNCTION calls (named arguments, defaults, VAR_IN_OUT, nested), FUNCTION_BLOCK instances with state; 64-bit, REAL and TIME values in whole programs are only judged by the outcome contract (TLC integers are 32-bit)",
        "the operator x integer type x boundary-operand matrix at full width (incl. LINT, ULINT) is judged against exact arithmetic computed in the harness, not by TLC (32-bit integers)",
        "FOR whose final increment leaves the control variable's type: normal termination or Overflow accepted; two faulting sub-expressions of one indexed assignment: either fault accepted",
        "a mismatch in a program that contains an assignment whose right-hand side is not of the target's declared type is attributed to the listed finding (non-converting assignment); programs without such an assignment are judged exactly"])
