"""C01 / C02 / C03 — typed ST core against the StCore reference semantics (TLC trace validation of
every variable's value and tag after every cycle), the operator x type x boundary matrix, and for
C01 the wide generator over every elementary type judged by the outcome contract only."""
import json

from common import (OUT, Report, ToolError, build_harness, digest, log, read_ndjson, run_tlc, seed, split_runs,
                    tpv, validate_trace)

VALUE_FAULTS = {"DivisionByZero", "ModuloByZero", "Overflow", "IndexOutOfBounds", "NullReference", "ForStepZero",
                "DateTimeRange", "Timeout", "ExecutionTimeout"}
CORE_TAGS = {"BOOL", "SINT", "INT", "DINT", "USINT", "UINT", "BYTE", "WORD"}


def classify(prop, why, script, ev):
    """-> list of (key, summary) this property reports for one rejected cycle."""
    out = []
    drift = set(script.get("drift", []))
    if script.get("profile") == "case":
        # every identifier occurrence in the body is spelled in another case than its declaration
        for w in why:
            kind, _, rest = w.partition(":")
            if kind == "outcome" and prop == "C01":
                out.append(("static-error:case-variant-identifier" if rest == "UndefinedVariable" else f"crash-or-static-error:{rest}", f"outcome {rest} in a program whose identifiers differ in case from their declarations"))
            elif kind in ("value", "fault-kind") and prop == "C02":
                out.append(("value:case-variant-identifier", f"{w} in a program whose identifiers differ in case from their declarations"))
            elif kind == "tag" and prop == "C03":
                out.append(("tag-drift:other-path", f"{rest} holds a value whose tag is not its declared type"))
        return out
    for w in why:
        kind, _, rest = w.partition(":")
        if kind == "outcome" and prop == "C01":
            if rest in ("Panic", "PanicInCompiler", "Abort"):
                out.append((f"crash:{rest}", f"cycle ended in {rest}"))
            elif drift:
                out.append(("static-error-after-tag-drift:assign-no-coerce", f"static-class error {rest} in a program with a non-converting assignment"))
            else:
                out.append((f"static-error:{rest}", f"accepted program failed with static-class error {rest}"))
        elif kind == "frames-left" and prop == "C01":
            if not any(x.startswith("outcome:Panic") for x in why):      # a panic unwinds past the frame pops; reported once
                out.append(("frames-left", "call frames left behind after the cycle"))
        elif kind == "fault-kind" and prop == "C02":
            out.append(("fault-kind:assign-no-coerce" if drift else "fault-kind", f"fault differs from the reference: {rest}"))
        elif kind == "value" and prop == "C02":
            out.append(("value:assign-no-coerce" if drift else "value", f"value of {rest} differs from the reference"))
        elif kind == "tag" and prop == "C03":
            out.append(("tag-drift:assign-no-coerce" if rest in drift else "tag-drift:other-path", f"{rest} holds a value whose tag is not its declared type"))
        elif kind == "unknown-value-kind" and prop == "C03":
            bad = [n for n, v in ev.get("vars", {}).items() if (v["t"] not in CORE_TAGS and v["t"] != "ARRAY")]
            ok = all(n in drift for n in bad)
            out.append(("tag-drift:assign-no-coerce" if ok and bad else "tag-drift:other-path", f"{bad} hold values of a foreign kind"))
    return out


def run(prop, tier, replay):
    work = OUT / prop.lower()
    work.mkdir(parents=True, exist_ok=True)
    rep = Report(prop, tier, "model_checking")
    build_harness()
    s = seed()
    mc = {"distinct": 0, "generated": 0}
    if replay:
        rp = json.loads(open(replay).read())["replay"]
        scripts = [rp["script"]] if "script" in rp else []
        wide_n = 0
    else:
        mc = run_tlc("MCStCore", "MCStCore", workers=1, timeout=600, tag=f"mc-{prop}")
        n_rand = 700 if tier == "quick" else 12000
        scripts = []
        parts = [("matrix", ["--slice", s % 4, "--of", 4] if tier == "quick" else []), ("strict", ["--runs", n_rand]), ("natural", ["--runs", n_rand]), ("pous", ["--runs", n_rand]), ("case", ["--runs", max(100, n_rand // 5)])]
        for name, extra in parts:
            f = work / f"s_{name}.ndjson"
            tpv(["stcore-gen", "--seed", s, "--profile", name, "--out", f] + extra)
            scripts += read_ndjson(f)
        wide_n = (1200 if tier == "quick" else 30000) if prop == "C01" else 0
    sp = work / "all.scripts.ndjson"
    with open(sp, "w") as f:
        for sc in scripts:
            f.write(json.dumps(sc) + "\n")
    tr = work / "all.trace.ndjson"
    nbad = 0
    rows, runs = [], []
    if scripts:
        p = tpv(["stcore-run", "--scripts", sp, "--out", tr], timeout=3000)
        stats = json.loads(p.stdout.strip().splitlines()[-1])
        if stats["accepted"] < 0.3 * len(scripts):
            raise ToolError(f"only {stats['accepted']} of {len(scripts)} generated programs accepted by the compiler")
        rows = read_ndjson(tr)
        runs = split_runs(rows)
        verdict, _ = validate_trace("StCoreTrace", tr, tag=f"trace-{prop}", timeout=3000)
        if verdict["events"] != len(rows):
            raise ToolError("trace validation did not consume every event")
        for b in verdict["bad"]:
            ev = rows[b["line"] - 1]
            r = runs[b["run"] - 1]
            script = scripts[r[0]["script"]]
            for key, summary in classify(prop, b["why"], script, ev):
                nbad += 1
                rep.violation(key, {"script": script, "cycle_event": ev, "why": b["why"], "reference_outcome": b["expected"]},
                              f"{script['profile']} program #{r[0]['script']}: {summary} (reference outcome {b['expected']})")
    wide_rows = []
    if wide_n:
        wf = work / "wide.ndjson"
        p = tpv(["stwide", "--seed", s, "--runs", wide_n, "--out", wf], timeout=3000)
        wstats = json.loads(p.stdout.strip().splitlines()[-1])
        if wstats["accepted"] < 0.3 * wide_n:
            raise ToolError(f"wide generator: only {wstats['accepted']} of {wide_n} programs accepted")
        wide_rows = [r for r in read_ndjson(wf) if r["a"] == "Outcome"]
        # the abstract outcome contract of C01 (RuntimeCycle level): Ok | value-dependent fault, frames empty, no crash
        for r in wide_rows:
            if r["res"] == "Abort" and r.get("recursive"):
                key = "abort:recursive-function"
            elif r["res"] in ("Panic", "Abort", "PanicInCompiler"):
                key = f"crash:{r['res']}"
            elif r["res"] != "ok" and r["res"] not in VALUE_FAULTS:
                key = f"static-error:{r['res']}"
            elif r["frames"] != 0 and r["res"] != "Abort":
                key = "frames-left"
            else:
                continue
            rep.violation(key, {"wide": True, "k": r["k"], "seed": s, "source": r.get("src", ""), "outcome": r["res"], "frames": r["frames"]},
                          f"wide program #{r['k']}: outcome {r['res']}, frames {r['frames']}")
    rc_runs = rc_events = 0
    if prop == "C03" and not replay:
        from checks.runtimecycle import tag_rejections
        rej, rc_runs, rc_events = tag_rejections(work, 150 if tier == "quick" else 2000)
        for b, ev in rej:
            rep.violation("tag-drift:io-latch-or-restart", {"runtime_cycle_event": ev, "why": b["why"]},
                          f"RuntimeCycle {b['kind']} event: a bound / restarted variable holds a value whose tag is not its declared type")
    ncyc = sum(1 for r in rows if r["a"] == "Cycle")
    outcomes = {}
    for r in rows:
        if r["a"] == "Cycle":
            outcomes[r["res"]] = outcomes.get(r["res"], 0) + 1
    for r in wide_rows:
        outcomes["wide:" + r["res"]] = outcomes.get("wide:" + r["res"], 0) + 1
    cov = {
        "states": max(mc["distinct"], 1) + len(rows), "transitions": max(mc["generated"], 1) + len(rows),
        "traces_validated_against_impl": len(runs),
        "programs_typed_core": len(runs), "cycles_validated": ncyc, "programs_wide_generator": len(wide_rows),
        "profiles": {p: sum(1 for r in runs if scripts[r[0]["script"]]["profile"] == p) for p in ("matrix", "strict", "natural", "pous", "case")},
        "outcomes": outcomes,
        "runtime_cycle_runs_tag_checked": rc_runs, "runtime_cycle_events_tag_checked": rc_events,
        "evaluations": len(runs) + len(wide_rows),
        "distinct_nontrivial": len({digest(scripts[r[0]["script"]]["body"]) for r in runs}) + len(wide_rows),
        "rule": "one evaluation = one generated ST program the compiler accepted, run for up to 3 cycles with inputs in between; typed-core "
                "programs are compared variable by variable (value and tag) with the TLA+ reference after every cycle; wide programs only "
                "against the outcome contract; distinct by program body; every accepted program is non-trivial (at least one statement executed)",
        "samples": [{"source": scripts[0]["src"]} if scripts else {}, rows[1] if len(rows) > 1 else {}],
        "exhaustive": False,
    }
    return rep.finish(cov, assumptions=[
        "StCore covers BOOL, SINT, INT, DINT, USINT, UINT, BYTE, WORD, one-dimensional arrays, structs, IF/CASE/FOR/WHILE/REPEAT/EXIT/CONTINUE/RETURN, FUNCTION calls (named arguments, defaults, VAR_IN_OUT, nested), FUNCTION_BLOCK instances with state; 64-bit, REAL and TIME values are only judged by the outcome contract (TLC integers are 32-bit)",
        "FOR whose final increment leaves the control variable's type: normal termination or Overflow accepted; two faulting sub-expressions of one indexed assignment: either fault accepted",
        "a mismatch in a program that contains an assignment whose right-hand side is not of the target's declared type is attributed to the listed finding (non-converting assignment); programs without such an assignment are judged exactly"])
