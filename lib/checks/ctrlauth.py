"""C18 — ControlAuth: design-level TLC run over every admissible role table, enumeration of the
real dispatcher (acknowledged request types x parameter variants x credentials x endpoint
configurations), TLC-exported and seeded random / hostile request lines, all executed against the
real ControlServer on a unix socket and validated exchange by exchange against ControlAuthTrace."""
import json

from common import (OUT, REPO, Report, ToolError, build_harness, digest, log, read_ndjson, run_tlc,
                    seed, split_runs, tlc_printed, tpv, validate_trace)
from checks.pairing import pairing_stage

NEED_ACTIONS = ["DoReceive", "DoParse", "DoAuthenticate", "DoAuthorise", "DoDebugGate", "DoDispatch"]
CRED_ORDER = ["none", "wrong", "w-empty", "w-prefix", "w-ext", "w-case", "w-pprefix", "w-pext", "xe", "re", "pv", "po", "pe", "pa", "admin"]


def generate(tier, work):
    """Scripts from the harness: the complete enumeration + seeded random lines.  Returns
    (scripts, inventory)."""
    n_rand = 400 if tier == "quick" else 8000
    out = work / "scripts_gen.ndjson"
    p = tpv(["ctrlauth-gen", "--enumerate", "--runs", n_rand, "--seed", seed(), "--out", out,
             "--work", work / "gw", "--src", REPO / "crates" / "trust-runtime" / "src"], timeout=900)
    inv = None
    for line in (p.stdout or "").splitlines():
        line = line.strip()
        if line.startswith("{") and '"acknowledged"' in line:
            try:
                inv = json.loads(line)
            except json.JSONDecodeError:
                pass
    if inv is None:
        raise ToolError("ctrlauth-gen printed no inventory:\n" + (p.stdout or "")[-2000:])
    if len(inv["acknowledged"]) < 10:
        raise ToolError(f"only {len(inv['acknowledged'])} request types acknowledged by the dispatcher: {inv}")
    return read_ndjson(out), inv


def tlc_scripts(tier, enum_scripts):
    """Behaviours of the specification (random walks of the bounded model, seeded) turned into
    request scripts: the specification picks configuration, request type and credential order,
    the harness's parameter table supplies the parameters."""
    n_sim = 40 if tier == "quick" else 500
    g = run_tlc("MCControlAuth", "GenControlAuth", workers=1, simulate=n_sim, depth=100, seed_=seed(),
                timeout=900, tag="gen-c18")
    exported = tlc_printed(g["stdout"], "SCRIPT")
    if len(exported) < n_sim // 2:
        raise ToolError(f"TLC exported only {len(exported)} behaviours")
    template = {}
    for s in enum_scripts:
        if s["from"] == "enum" and s["wf"] == "yes" and s["t"] not in template:
            template[s["t"]] = s["line"]
    scripts = []
    for b in exported:
        by_type = {}
        for st in b["steps"]:
            by_type.setdefault(st["t"], [])
            if st["c"] not in by_type[st["t"]]:
                by_type[st["t"]].append(st["c"])
        for t, creds in by_type.items():
            if t not in template:
                continue    # a type of the generator's list that this tree's dispatcher does not have
            creds.sort(key=CRED_ORDER.index)
            scripts.append({"cfg": {"token": b["cfg"]["token"], "debug": b["cfg"]["debug"], "mode": "debug"},
                            "k": f"{t}#tlc", "t": t, "wf": "yes", "line": template[t], "creds": creds, "from": "tlc"})
    return scripts, len(exported)


def run(prop, tier, replay):
    work = OUT / "c18"
    work.mkdir(parents=True, exist_ok=True)
    rep = Report(prop, tier, "model_checking")
    build_harness()
    mc, inv, n_behaviours = None, {}, 0
    if replay and json.loads(open(replay).read())["replay"].get("stage") == "pairing":
        # a violation of the pairing stage: only that stage is replayed
        pcov = pairing_stage(rep, tier, work, replay_script=json.loads(open(replay).read())["replay"]["script"])
        return rep.finish(dict(pcov, evaluations=pcov["pairing_steps_validated"], enumeration_complete=False, exhaustive=False))
    if replay:
        scripts = [json.loads(open(replay).read())["replay"]["script"]]
    else:
        mc = run_tlc("MCControlAuth", "MCControlAuth" if tier == "quick" else "MCControlAuth_thorough", workers=8,
                     coverage=True, timeout=2400, tag="mc-c18")
        cov = mc.get("action_coverage", {})
        for a in NEED_ACTIONS:
            if cov.get(a, 0) == 0:
                raise ToolError(f"vacuous model run: action {a} never taken ({cov})")
        scripts, inv = generate(tier, work)
        extra, n_behaviours = tlc_scripts(tier, scripts)
        scripts += extra
        # the same request lines through the web server's POST /api/control (web.rs: web-level auth, token header
        # injected into the request, same handlers): every line that is no well-formed request, every 3rd of the others
        scripts += [dict(s, http=True, **{"from": s.get("from", "?") + "+http"}) for i, s in enumerate(scripts) if i % 3 == 0 or s.get("wf") == "no"]
    sp = work / "all.scripts.ndjson"
    with open(sp, "w") as f:
        for s in scripts:
            f.write(json.dumps(s) + "\n")
    tr = work / "all.trace.ndjson"
    p = tpv(["ctrlauth-run", "--scripts", sp, "--out", tr, "--work", work / "rw"], timeout=3000)
    rows = read_ndjson(tr)
    runs = split_runs(rows)
    if len(runs) != len(scripts):
        raise ToolError(f"{len(scripts)} scripts but {len(runs)} recorded runs\n{(p.stdout or '')[-2000:]}")
    verdict, _ = validate_trace("ControlAuthTrace", tr, tag="trace-c18")
    if verdict["events"] != len(rows):
        raise ToolError("trace validation did not consume every event")
    reqs = [r for r in rows if r["a"] == "Req"]
    for b in verdict["bad"]:
        ri = b["run"] - 1
        start = sum(len(r) for r in runs[:ri])
        ev = rows[b["line"] - 1]
        why = sorted(b["why"])
        # the key names the failing clause, what the specification allowed instead, and the request type
        key = f"handler-hang:{b['t']}" if why == ["handler-hang"] else "+".join(why) + f"@{b['exp']}:{b['t']}"
        cfg = runs[ri][0]["cfg"]
        rep.violation(key, {"script": scripts[ri], "why": why, "expected": b["exp"], "credential": b["c"],
                            "observed_required_role": b["req"], "observed_mutating": b["mut"],
                            "rejected_event": ev, "trace": runs[ri]},
                      f"run {b['run']} ({'over HTTP /api/control, ' if scripts[ri].get('http') else ''}{b['kind']}, token {'set' if cfg['token'] else 'unset'}, debug {'on' if cfg['debug'] else 'off'}, "
                      f"control mode {cfg.get('mode')}), credential {b['c']}: {', '.join(why)}; the specification allows "
                      f"{b['exp']} here (observed threshold {b['req']}, mutating {b['mut']}); reply: {ev.get('cls')} {ev.get('err', '')[:80]!r}, "
                      f"changed {ev.get('changed')}")
    # handlers that were entitled to run and wedged: outside C18's statement, but never silent
    hangs = {}
    for r in reqs:
        if r.get("hang"):
            hangs.setdefault(r["t"], set()).update(r.get("held", []))
    for t, held in sorted(hangs.items()):
        log(f"NOTE: property={prop} request type {t!r}: the handler never replies and keeps holding {sorted(held)} "
            f"(handler liveness; not a clause of {prop})")
    outcomes = {}
    for r in reqs:
        outcomes[r["cls"]] = outcomes.get(r["cls"], 0) + 1
    by_from = {}
    for s in scripts:
        by_from[s.get("from", "?")] = by_from.get(s.get("from", "?"), 0) + 1
    mutating = sorted({r["t"] for r in reqs if r["changed"]})
    triples = {(digest(run[0]["cfg"]), digest(scripts[i]["line"]), e["c"]) for i, run in enumerate(runs) for e in run[1:]}
    nontrivial = {(digest(run[0]["cfg"]), digest(scripts[i]["line"]), e["c"]) for i, run in enumerate(runs) for e in run[1:]
                  if e["cls"] != "unsupported"}
    cov = {
        "states": (mc or {}).get("distinct", 1) or 1,
        "transitions": (mc or {}).get("generated", 1) or 1,
        "model_depth": (mc or {}).get("depth", 0),
        "model_action_coverage": (mc or {}).get("action_coverage", {}),
        "traces_validated_against_impl": len(runs),
        "requests_validated": len(reqs),
        "scripts_by_origin": by_from,
        "tlc_exported_behaviours_replayed": n_behaviours,
        "candidate_literals_probed": inv.get("candidates", 0),
        "request_types_acknowledged_by_dispatcher": len(inv.get("acknowledged", [])),
        "request_types": inv.get("acknowledged", []),
        "types_with_borrowed_parameters": inv.get("borrowed_params", []),
        "parameter_variants": inv.get("variants", 0),
        "credentials": CRED_ORDER,
        "endpoint_configurations": len({digest(r[0]["cfg"]) for r in runs}),
        "reply_classes": outcomes,
        "request_types_observed_mutating": mutating,
        "state_changing_exchanges": sum(1 for r in reqs if r["changed"]),
        "endpoint_panics_or_aborts": sum(1 for r in reqs if r["panic"]),
        "requests_sent_through_web_api_control": sum(1 for r in reqs if r.get("via") == "http"),
        "handler_hangs": {t: sorted(h) for t, h in hangs.items()},
        "handler_hang_exchanges": verdict["hangs"],
        "rejected_runs": len(verdict["bad"]),
        "evaluations": len(reqs),
        "distinct_nontrivial": len(nontrivial),
        "distinct_exchanges": len(triples),
        "rule": "one evaluation = one request line sent to the real ControlServer under one credential and one endpoint "
                "configuration, with the state probes taken before and after, validated against ControlAuth; distinct = "
                "different (configuration, request line, credential); non-trivial = the endpoint did not answer "
                "'unsupported request' (a type some dispatcher arm knows, or a line that is no request)",
        "samples": [scripts[0], runs[0][1] if len(runs[0]) > 1 else None],
        "enumeration_complete": not replay,
        "exhaustive": False,
    }
    if not replay:
        # second stage: the life cycle that makes a pairing token valid (spec/Pairing.tla)
        cov.update(pairing_stage(rep, tier, work))
    return rep.finish(cov, assumptions=[
        "the required role of a request kind is a parameter of the specification (the repository documents no role table): it is "
        "observed per (configuration, request line) as the least role let through, and must be an admissible, monotone threshold",
        "a request kind counts as mutating when an exchange changes one of the probes: debugger mode / snapshot / breakpoints, "
        "variables and process image after one real runtime cycle, pending restart, settings, auth token, control mode, debug flag, "
        "resource handle and received resource commands, pairing tokens and pending code, project files, HMI descriptor revision, "
        "acknowledged alarms; read-side caches (HMI trend samples, debug variable handles) and the drained stop queue are not state",
        "without a configured auth token the role of an absent / unknown / expired / revoked credential is unspecified (any outcome "
        "that some role explains is accepted); a stored pairing token that claims admin may be honoured or capped at engineer",
        "reply wording ('unauthorized', 'forbidden: requires role X', 'debug disabled') is used only in the permissive direction "
        "(a sufficient role must not be turned away by a gate); every refusal verdict rests on ok / result / state probes",
        "request lines are valid UTF-8; a handler that was entitled to run and never replies (positively wedged on an endpoint lock) "
        "is reported as NOTE, not as a violation; a silence without that evidence is a tool error",
        "a panic of the runtime cycle caused by a legitimately queued write is outside this property (C01)",
        "pairing stage: the store is specified as the code behaves (a code and a token are still good AT the second they expire at; "
        "claim trims the code it is given; ids are pair-<second of the claim> and shared by claims within one second; a file entry "
        "without expiry is re-armed for one second by every restart); the clock never runs backwards; codes are unique within a run "
        "(a run in which two random secrets collide is repeated); the required roles of status / restart / io.unforce / pair.* are "
        "those of required_role_for_control_request; failing file writes are not modelled"])
