"""C09 through the resource thread loop (scheduler.rs): design-level TLC run of ResourceRestart (the
deviation "load the retain store after restart(mode)" must violate WarmKeeps and ColdFresh), real
resource threads (plain and shared-globals runner) with a restart signal x save interval x store /
no store x warm / cold request sequences, and validation of the totally ordered cycle / store /
request log against ResourceRestartTrace."""
from common import ToolError, read_ndjson, run_tlc, seed, split_runs, tpv, validate_trace


def restartloop_stage(rep, tier, work):
    mc = run_tlc("MCResourceRestart", "MCResourceRestart", workers=2, coverage=True, timeout=300, tag="mc-c09-restartloop")
    cov = mc.get("action_coverage", {})
    for a in ("Cycle", "Save", "Request", "Restart", "StopStart", "PowerLoss"):
        if cov.get(a, 0) == 0:
            raise ToolError(f"vacuous ResourceRestart model run: action {a} never taken ({cov})")
    for cfg, inv in (("MCResourceRestart_load", "WarmKeeps"), ("MCResourceRestart_loadcold", "ColdFresh")):
        neg = run_tlc("MCResourceRestart", cfg, workers=2, timeout=300, allow_violation=True, tag="mc-c09-restartloop-neg")
        if f"Invariant {inv} is violated" not in neg["stdout"]:
            raise ToolError(f"the deviation {cfg} does not violate {inv}:\n" + neg["stdout"][-1500:])
    n = 110 if tier == "quick" else 1650
    tr = work / "restartloop.ndjson"
    tpv(["restartloop-run", "--seed", seed(), "--runs", n, "--out", tr], timeout=3000)
    rows = read_ndjson(tr)
    runs = split_runs(rows)
    verdict, _ = validate_trace("ResourceRestartTrace", tr, tag="trace-c09-restartloop")
    if verdict["events"] != len(rows) or verdict["runs"] != n:
        raise ToolError("ResourceRestartTrace did not consume every event / run")
    if verdict["restarts"] < n:
        raise ToolError(f"only {verdict['restarts']} restart requests were taken by the resource loops in {n} runs: nothing judged")
    for b in verdict["bad"]:
        r = runs[b["run"] - 1]
        why = "+".join(sorted(b["why"]))
        rep.violation(f"resource-loop-restart:{why}",
                      {"resource_loop_restart": True, "seed": seed(), "run": r[0], "rejected_event": rows[b["line"] - 1], "why": b["why"], "trace": r},
                      f"resource thread ({b['runner']} runner, save interval {b['interval']} ms), {b['mode']} restart request: {why}")
    return {"restart_loop_runs": n, "restart_loop_events": len(rows), "restart_loop_restarts_taken": verdict["restarts"],
            "restart_loop_rejected": len(verdict["bad"]), "resource_restart_model_states": mc.get("distinct", 0)}
