"""C10 — retain file: crash-atomic save (model of the OBSERVED syscall protocol + kill at every
crash point of the real FileRetainStore::store) and lossless codec / total decoder."""
import json
import shutil

from common import (HARNESS, OUT, Report, ToolError, build_harness, read_ndjson, run_tlc, seed, sh, tpv,
                    validate_trace)

# protocol -> invariants TLC must report as violated (design-level statement of what a save must do)
EXPECT = {"InPlace": {"AtomicKill", "AtomicPower"}, "TempRename": set(), "TempRenameNoSync": {"AtomicPower"}}


def build_shim():
    so = OUT / "crashshim.so"
    src = HARNESS / "shim" / "crashshim.c"
    if not so.exists() or so.stat().st_mtime < src.stat().st_mtime:
        OUT.mkdir(parents=True, exist_ok=True)
        if shutil.which("gcc") is None:
            raise ToolError("gcc not available for the LD_PRELOAD shim")
        sh(["gcc", "-shared", "-fPIC", "-O1", "-o", str(so), str(src), "-ldl"], timeout=120)
    return so


def run(prop, tier, replay):
    work = OUT / "c10"
    work.mkdir(parents=True, exist_ok=True)
    rep = Report(prop, tier, "fault_enumeration")
    build_harness()
    so = build_shim()
    states = trans = 0
    for proto, want in EXPECT.items():
        for old in (0, 5):
            r = run_tlc("MCRetainFile", f"MCRetainFile_{proto}_{old}", workers=1, timeout=300, allow_violation=True,
                        extra=["-continue"], tag=f"mc-c10-{proto}-{old}")
            got = {inv for inv in ("AtomicKill", "AtomicPower", "SaveTakesEffect") if f"Invariant {inv} is violated" in r["stdout"]}
            if got != want:
                raise ToolError(f"design model: protocol {proto} (old={old}) violates {sorted(got)}, expected {sorted(want)}")
            states += r["distinct"]
            trans += r["generated"]
    s = seed()
    if replay:
        rp = json.loads(open(replay).read())["replay"]
        s, pairs, extra = rp["seed"], rp["pairs"], rp["args"]
    else:
        pairs, extra = (12, ["--corrupt", "1500"]) if tier == "quick" else (40, ["--every-byte", "1", "--corrupt", "6000"])
    tr = work / "trace.ndjson"
    tpv(["retain-run", "--seed", s, "--pairs", pairs, "--shim", so, "--out", tr] + extra, timeout=3000)
    rows = read_ndjson(tr)
    verdict, _ = validate_trace("RetainFileTrace", tr, tag="trace-c10")
    if verdict["events"] != len(rows):
        raise ToolError("trace validation did not consume every event")
    protos = []
    cur = None
    for r in rows:
        if r["a"] == "Reset":
            cur = []
            protos.append(cur)
        elif r["a"] == "Sys":
            cur.append(f"{r['op']}({r['x']})" if r["x"] != "fd" else r["op"])
    for b in verdict["bad"]:
        rep.violation(b["class"], {"seed": s, "pairs": pairs, "args": extra, "pair": b["pair"], "kill_at_step": b["at"],
                                   "partial_bytes": b["partial"], "load_result": b["load"], "model_predicted": b["predicted"],
                                   "observed_protocol": protos[b["pair"]] if 0 <= b["pair"] < len(protos) else [],
                                   "event": rows[b["line"] - 1]},
                      f"pair {b['pair']}: {b['class']} (kill at step {b['at']} after {b['partial']} bytes -> load = {b['load']}; model predicted {b['predicted']})")
    ncrash = verdict["crashes"]
    crash_rows = [r for r in rows if r["a"] == "Crash"]
    cov = {
        "evaluations": ncrash + verdict["codecs"] + verdict["corrupts"],
        "distinct_nontrivial": ncrash + verdict["corrupts"],
        "rule": "crash points = every logged system call of the observed save protocol x byte counts {0,1,half,len-1} (every byte in thorough) "
                "for writes, each replayed by killing a child process there; plus codec round trips and structured corruptions; "
                "all are distinct (different pair/step/offset) and non-trivial",
        "samples": [{"observed_protocol": protos[0] if protos else []}, crash_rows[0] if crash_rows else {},
                    next((r for r in rows if r["a"] == "Corrupt"), {})],
        "crash_points_replayed": ncrash,
        "snapshot_pairs": pairs,
        "codec_round_trips": verdict["codecs"],
        "corrupted_images_decoded": verdict["corrupts"],
        "model_mismatches": len(verdict["mismatch"]),
        "observed_protocols": sorted({" ".join(p) for p in protos if p}),
        "states": states, "transitions": trans, "traces_validated_against_impl": pairs,
        "exhaustive": tier == "thorough",
    }
    if verdict["mismatch"]:
        cov["model_mismatch_samples"] = verdict["mismatch"][:5]
    if not replay:
        # RetainManager in front of a store that fails at will: its change detection must never be ahead of the store
        mcm = run_tlc("MCRetainMgr", "MCRetainMgr", workers=2, timeout=300, tag="mc-c10-mgr")
        negm = run_tlc("MCRetainMgr", "MCRetainMgr_cachefirst", workers=2, timeout=300, allow_violation=True, tag="mc-c10-mgr-neg")
        if "Invariant CacheIsDisk is violated" not in negm["stdout"]:
            raise ToolError("the deviation MCRetainMgr_cachefirst does not violate CacheIsDisk:\n" + negm["stdout"][-1500:])
        mtr = work / "retainmgr.ndjson"
        tpv(["retainmgr-run", "--seed", seed(), "--runs", 300 if tier == "quick" else 20000, "--out", mtr], timeout=3000)
        mrows = read_ndjson(mtr)
        mver, _ = validate_trace("RetainMgrTrace", mtr, tag="trace-c10-mgr", timeout=1800)
        if mver["events"] != len(mrows):
            raise ToolError("RetainMgrTrace did not consume every event")
        for b in mver["bad"]:
            why = "+".join(sorted(b["why"]))
            rep.violation(f"retain-manager:{why}", {"retain_manager": True, "seed": seed(), "event": mrows[b["line"] - 1], "why": b["why"]},
                          f"RetainManager history (run {b['run']}): {why} at {json.dumps(mrows[b['line'] - 1])}")
        cov.update({"retain_manager_saves": mver["saves"], "retain_manager_rejected": len(mver["bad"]), "retain_manager_model_states": mcm.get("distinct", 0)})
    return rep.finish(cov, assumptions=[
        "process death is produced by SIGKILL from an LD_PRELOAD shim at libc call boundaries (open/write/fsync/rename/close/unlink/ftruncate); power loss is decided on the model only",
        "decoder totality is sampled (structured corruptions under a 1 GiB address-space limit), not proved"])
