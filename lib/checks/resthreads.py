"""C20 — resource threads: ResourceThreads model (all interleavings, liveness; split-lock variant
must fail) + real resource threads under a seeded random controller, validated by TLC as an
interleaving of atomic cycles and controller observations."""
import json

from common import OUT, Report, ToolError, build_harness, digest, read_ndjson, run_tlc, seed, tpv, validate_trace


def validate(runs, work):
    rejected, states, live = [], 0, list(runs)
    for attempt in range(12):
        if not live:
            break
        tr = work / f"val{attempt}.ndjson"
        with open(tr, "w") as f:
            for r in live:
                f.write(json.dumps(r) + "\n")
        verdict, res = validate_trace("ResourceThreadsTrace", tr, dfs=True, tag=f"trace-c20-{attempt}")
        states += res["distinct"]
        if verdict["runs"] != len(live):
            raise ToolError("run count mismatch")
        if verdict["explained"] >= len(live):
            return live, rejected, states
        k = verdict["explained"]
        rejected.append((live[k], verdict["stuckCyc"], verdict["stuckCtl"]))
        live = live[:k] + live[k + 1:]
    else:
        return [], rejected, states
    return live, rejected, states


def run(prop, tier, replay):
    work = OUT / "c20"
    work.mkdir(parents=True, exist_ok=True)
    rep = Report(prop, tier, "model_checking")
    build_harness()
    mc = {"distinct": 0, "generated": 0}
    if replay:
        runs = [json.loads(open(replay).read())["replay"]["run"]]
    else:
        mc = run_tlc("ResourceThreads", "MCResourceThreads" if tier == "quick" else "MCResourceThreads_thorough",
                     workers=8, timeout=3000, tag="mc-c20")
        bad = run_tlc("ResourceThreads", "MCResourceThreads_split", workers=1, timeout=300, allow_violation=True, tag="mc-c20-split")
        if "Invariant NoLostUpdate is violated" not in bad["stdout"]:
            raise ToolError("vacuity guard: the split-lock variant does not violate NoLostUpdate")
        nruns = 150 if tier == "quick" else 2000
        tr = work / "trace.ndjson"
        tpv(["resource-run", "--seed", seed(), "--runs", nruns, "--out", tr], timeout=3000)
        runs = read_ndjson(tr)
        stuck = [r for r in runs if any(e.get("timeout") is True or e["a"] in ("PauseNotObserved", "SnapshotNotAnswered", "FaultNotObserved", "NoProgressAfterFault") for e in r["ctl"])]
        if len(runs) != nruns and len(stuck) < 3:
            raise ToolError(f"{nruns} runs requested, {len(runs)} recorded")
    accepted, rejected, tstates = validate(runs, work)
    for r, sc, sk in rejected:
        cyc = r["cyc"][sc - 1] if 0 < sc <= len(r["cyc"]) else None
        ctl = r["ctl"][sk - 1] if 0 < sk <= len(r["ctl"]) else None
        if ctl and ctl["a"] in ("PauseNotObserved", "SnapshotNotAnswered", "FaultNotObserved", "NoProgressAfterFault"):
            key = "liveness:" + ctl["a"]
        elif ctl and ctl["a"] == "Join":
            key = "join:" + ("timeout" if ctl["timeout"] else f"state={ctl['state']},saves={ctl['saves']}")
        elif cyc is not None:
            prev = r["cyc"][sc - 2] if sc >= 2 else {"a": 0}
            if cyc["a"] != cyc["b"]:
                key = "cycle:half-updated-pair"
            elif cyc["a"] != prev["a"] + 1:
                key = "cycle:lost-or-duplicated-update"
            else:
                key = "cycle:ran-while-paused-or-after-exit"
        else:
            key = "unexplained"
        rep.violation(key, {"run": r, "stuck_at_cycle": sc, "stuck_at_controller_event": sk, "cycle": cyc, "controller_event": ctl},
                      f"no interleaving of atomic cycles explains the run: stuck at cycle #{sc} {json.dumps(cyc)} / controller event #{sk} {json.dumps(ctl)}")
    ncyc = sum(len(r["cyc"]) for r in runs)
    acts = {}
    for r in runs:
        for e in r["ctl"]:
            acts[e["a"]] = acts.get(e["a"], 0) + 1
    cov = {
        "states": (mc["distinct"] + tstates) or 1, "transitions": mc["generated"] or 1,
        "model_states": mc["distinct"], "trace_validation_states": tstates,
        "traces_validated_against_impl": len(accepted), "runs": len(runs), "cycles_recorded": ncyc,
        "controller_events": acts,
        "evaluations": len(runs),
        "distinct_nontrivial": len({digest(r["ctl"]) + str(len(r["cyc"])) for r in runs if len(r["cyc"]) > 2 and len(r["ctl"]) > 4}),
        "rule": "one evaluation = one multi-threaded run (2..4 resource threads + controller, OS-chosen schedule, seeded commands); "
                "distinct by controller stream + cycle count; non-trivial = more than 2 cycles and more than 4 controller events",
        "samples": [{"res": runs[0]["res"], "ctl": runs[0]["ctl"][:10], "cyc": runs[0]["cyc"][:6]}],
        "exhaustive": False,
    }
    if not replay:
        from checks.dbgep import endpoint_stage
        cov.update(endpoint_stage(rep, tier, work, "production"))
    return rep.finish(cov, assumptions=[
        "cycles are ordered by a sequence taken inside execute_cycle (logging I/O driver), i.e. under the shared-globals lock",
        "OS-chosen schedules perturbed by seeded delays and clock advances; not exhaustive on the code (the model is)",
        "a resource that does not reach Paused/Faulted, answer a snapshot or progress within 20 s counts as a violation; 30 s for join",
        "stop of a still-gated resource: 0 or 1 retain saves accepted"])
