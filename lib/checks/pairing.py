"""C18, second stage — the pairing-token life cycle behind "a valid ... pairing token".

Design level: Pairing (MCPairing: every interleaving of start / claim / validate / list / revoke /
revoke_all / tick / reload / request with tiny constants; instances with a deliberately broken store
must each violate the clause they break; the instance with a legacy file entry documents the one
situation in which a restart changes what validates).
Conformance: hand-written boundary scenarios, TLC-exported behaviours (simulation with the REAL
constants, ticks aimed at the expiry instants) and seeded random scripts, executed on the real
PairingStore with a controllable clock -- directly and inside a real control endpoint (pair.start /
pair.claim / pair.list / pair.revoke request lines; status / restart / io.unforce carrying a pairing
token as `auth`) -- and validated event by event against PairingTrace (result of every operation,
the JSON file, list(), validate_with_role of every secret incl. near misses)."""
import json
import os
import random
import shutil
import time
from concurrent.futures import ThreadPoolExecutor
from pathlib import Path

from common import (OUT, ToolError, log, read_ndjson, run_tlc, seed, tlc_printed, tpv, validate_trace)

NEED_ACTIONS = ["DoStart", "DoClaim", "DoValidate", "DoList", "DoRevoke", "DoRevokeAll", "DoTick", "DoReload", "DoReq"]
# broken store -> clauses of which TLC must report one as violated
BROKEN = {
    "ignore-enabled": {"ValidatesIff", "ReqOnlyWithLiveToken"},
    "revoke-not-saved": {"DiskAgreesUpToPruning", "ReloadKeepsValidity", "ValidatesIff", "NoResurrection", "OnlyClockOrRevocationEnds"},
    "code-reusable": {"CodeYieldsAtMostOneToken", "OnlyClaimIssues", "PendingIsNewestCode"},
    "expired-code-accepted": {"CodeYieldsAtMostOneToken", "OnlyClaimIssues"},
    "no-role-cap": {"IssuedRoleNeverAdmin"},
}
# kinds of steps the conformance run must have contained (otherwise it proves nothing about them)
NEED_TAGS = ["claim:ok", "claim:wrong", "claim:expired", "claim:nopending", "claim:cap", "claim:badrole", "claim:admin-capped",
             "claim:shared-id", "claim:ok@code-expiry", "claim:ok@code-expiry-1", "claim:expired@code-expiry+1",
             "validate:valid", "validate:none", "validate:none-revoked", "validate:valid@token-expiry", "validate:none@token-expiry+1",
             "revoke:hit", "revoke:miss", "revoke:shared-id", "revoke_all:some", "revoke_all:none",
             "reload", "reload:pending-lost", "reload:file-differs-from-memory", "reload:legacy-entry", "prune-without-save",
             "start:replaces-pending", "req:dispatched", "req:forbidden", "req:unauthorized",
             "req:status", "req:restart", "req:io.unforce", "req:pair.start", "req:pair.claim", "req:pair.list", "req:pair.revoke"]
PAIR_OPS = {"Start", "Claim", "List", "Revoke", "RevokeAll"}
CHUNK = {"quick": 500, "thorough": 1500}     # scripts per harness process / trace file


def violated(out):
    return {w for w in ("ValidatesIff", "UnknownNeverValidates", "IssuedRoleNeverAdmin", "CodeYieldsAtMostOneToken", "DiskAgreesUpToPruning",
                        "ReloadKeepsValidity", "EnabledCapRespected", "PendingIsNewestCode", "ReqOnlyWithLiveToken", "ValidateAnswersValid",
                        "WrongCodeChangesNothing", "NoResurrection", "RoleNeverChanges", "OnlyClaimIssues", "OnlyClockOrRevocationEnds")
            if f"Invariant {w} is violated" in out or f"Action property {w} is violated" in out}


def model_check(cfgs):
    """Design-level runs in which every clause must hold.  cfgs = [(config, workers, with action coverage)];
    returns the summed counters."""
    total = {"distinct": 0, "generated": 0, "depth": 0, "action_coverage": {}}
    for cfg, workers, coverage in cfgs:
        mc = run_tlc("MCPairing", cfg, workers=workers, coverage=coverage, timeout=1500, tag=f"mc-pairing-{cfg}")
        if mc["distinct"] == 0:
            raise ToolError(f"model run {cfg} explored nothing:\n{mc['stdout'][-1500:]}")
        if coverage:
            cov = mc.get("action_coverage", {})
            for a in NEED_ACTIONS:
                if cov.get(a, 0) == 0:
                    raise ToolError(f"vacuous model run: action {a} of {cfg} never taken ({cov})")
            total["action_coverage"] = cov
        total["distinct"] += mc["distinct"]
        total["generated"] += mc["generated"]
        total["depth"] = max(total["depth"], mc["depth"])
    return total


def broken_variants():
    res = {}
    for v, want in BROKEN.items():
        r = run_tlc("MCPairing", f"MCPairing_bad_{v}", workers=2, timeout=300, allow_violation=True, tag=f"mc-pairing-{v}")
        got = violated(r["stdout"])
        if not got or not got <= want:
            raise ToolError(f"design model: the broken store '{v}' violates {sorted(got)}, expected one of {sorted(want)}:\n{r['stdout'][-1500:]}")
        res[v] = sorted(got)
    # a legacy file entry (no expiry): the restart re-arms it -- the model says so, and the conformance
    # scripts 'seed-legacy*' show that the code does exactly that
    r = run_tlc("MCPairing", "MCPairing_legacy", workers=2, timeout=300, allow_violation=True, tag="mc-pairing-legacy")
    got = violated(r["stdout"])
    if got != {"ReloadKeepsValidity"}:
        raise ToolError(f"design model: legacy instance violates {sorted(got)}, expected ReloadKeepsValidity:\n{r['stdout'][-1500:]}")
    res["legacy-entry"] = sorted(got)
    return res


def tlc_scripts(tier):
    """Behaviours of the specification (simulation with the real constants) as scripts."""
    n_sim = 100 if tier == "quick" else 4000
    g = run_tlc("MCPairing", "GenPairing", workers=1, simulate=n_sim, depth=20, seed_=seed(), timeout=900, tag="gen-pairing")
    exported, seen = [], set()
    for b in tlc_printed(g["stdout"], "SCRIPT"):
        key = json.dumps(b, sort_keys=True)
        if key not in seen:
            seen.add(key)
            exported.append(b)
    if len(exported) < n_sim // 2:
        raise ToolError(f"TLC exported only {len(exported)} behaviours of Pairing")
    rng = random.Random(seed() * 7919 + 18)
    scripts = []
    for n, b in enumerate(exported):
        has_req = any(s["op"] == "Req" for s in b["steps"])
        endpoint = has_req and rng.random() < 0.8 or rng.random() < 0.15
        pmode = rng.choice(["all", "some", "end"])
        steps = []
        for i, s in enumerate(b["steps"]):
            st = {"op": s["op"], "via": "api", "c": s["c"], "cvar": "exact", "role": s["role"], "k": s["k"], "kvar": "exact",
                  "id": s["id"], "ivar": "exact", "dt": s["dt"], "kind": s["kind"]}
            cred = {"kind": "pair", "k": s["k"], "var": "exact"}
            if s["op"] == "Req":
                if not endpoint:
                    st.update(op="Validate")
                elif s["kind"] == "pair.list":
                    st.update(op="List", via="req", cred=cred)
                elif s["kind"] == "pair.start":
                    st.update(op="Start", via="req", cred=cred)
                else:
                    st.update(via="req", cred=cred)
            elif endpoint and s["op"] in PAIR_OPS and rng.random() < 0.5:
                st.update(via="req", cred={"kind": "admin"})
            st["probe"] = (i + 1 == len(b["steps"])) or pmode == "all" or (pmode == "some" and rng.random() < 0.35)
            steps.append(st)
        seedv = [{"id": t["id"], "role": t["role"], "en": t["enabled"], "exp": t["exp"], "cr": t["created"]} for t in b["seed"]]
        scripts.append({"fx": "endpoint" if endpoint else "store", "t0": b["t0"], "seed": seedv, "steps": steps, "from": "tlc", "name": f"tlc{n}"})
    return scripts, len(exported)


def run_chunk(idx, scripts, work, shm):
    sp = work / f"pairing.{idx}.scripts.ndjson"
    with open(sp, "w") as f:
        for s in scripts:
            f.write(json.dumps(s) + "\n")
    tr = work / f"pairing.{idx}.trace.ndjson"
    p = tpv(["pairing-run", "--scripts", sp, "--out", tr, "--work", shm / f"c{idx}"], timeout=3000)
    rows = read_ndjson(tr)
    nres = sum(1 for r in rows if r["a"] == "Reset")
    if nres != len(scripts) or len(rows) != len(scripts) + sum(len(s["steps"]) for s in scripts):
        raise ToolError(f"pairing chunk {idx}: {len(scripts)} scripts but {nres} recorded runs / {len(rows)} events\n{(p.stdout or '')[-1500:]}")
    verdict, _ = validate_trace("PairingTrace", tr, tag=f"trace-pairing-{idx}", xmx="4g")
    if verdict["events"] != len(rows):
        raise ToolError(f"pairing chunk {idx}: trace validation did not consume every event")
    return idx, rows, verdict


def key_of(ev, why):
    """Narrow key: stage, operation, how it was reached, the differing projections."""
    return f"pairing:{ev.get('op', 'Reset')}@{ev.get('via', 'file')}:" + "+".join(sorted(why))


def pairing_stage(rep, tier, work, replay_script=None):
    """Runs the stage, reports violations through `rep` (keys prefixed 'pairing:') and returns the
    coverage numbers to merge into the evidence of C18."""
    t0 = time.time()
    work = Path(work)
    work.mkdir(parents=True, exist_ok=True)
    shm_root = Path("/dev/shm") if os.access("/dev/shm", os.W_OK) else OUT   # the store fsyncs every save
    shm = shm_root / f"verif-pairing-{os.getpid()}"
    shutil.rmtree(shm, ignore_errors=True)
    mc, variants, n_behaviours = None, {}, 0
    pool = ThreadPoolExecutor(max_workers=4)        # harness + trace validation, chunk by chunk
    pool_mc = ThreadPoolExecutor(max_workers=2)     # the design-level runs, alongside
    try:
        if replay_script is not None:
            scripts = [replay_script]
            fut_mc = fut_bad = None
        else:
            # the small instance is run with action coverage (every action must be taken); the larger ones
            # of the thorough tier without (coverage bookkeeping more than doubles their run time)
            fut_mc = pool_mc.submit(model_check, [("MCPairing", 4, True)] if tier == "quick" else [("MCPairing_thorough", 6, False)])
            fut_bad = pool_mc.submit(lambda: (broken_variants(),
                                              model_check([] if tier == "quick" else [("MCPairing", 4, True), ("MCPairing_thorough2", 4, False)])))
            n_rand = 2500 if tier == "quick" else 40000
            gp = work / "pairing.gen.ndjson"
            tpv(["pairing-gen", "--seed", seed(), "--runs", n_rand, "--out", gp], timeout=600)
            scripts = read_ndjson(gp)
            extra, n_behaviours = tlc_scripts(tier)
            scripts += extra
        # chunks: bounded trace size per TLC run, bounded number of listener threads per harness process
        size = CHUNK[tier]
        chunks = [scripts[i:i + size] for i in range(0, len(scripts), size)]
        futs = [pool.submit(run_chunk, i, c, work, shm) for i, c in enumerate(chunks)]
        results = sorted((f.result() for f in futs), key=lambda r: r[0])
        t_conf = time.time() - t0
        if fut_mc is not None:
            mc = fut_mc.result()
            variants, mc2 = fut_bad.result()
            for k in ("distinct", "generated"):
                mc[k] += mc2[k]
            mc["depth"] = max(mc["depth"], mc2["depth"])
            mc["action_coverage"] = mc["action_coverage"] or mc2["action_coverage"]
        t_all = time.time() - t0
    finally:
        pool.shutdown(wait=True)
        pool_mc.shutdown(wait=True)
        shutil.rmtree(shm, ignore_errors=True)
    stats, nops, nbad = {}, 0, 0
    by_cls, by_op = {}, {}
    for idx, rows, verdict in results:
        base = idx * CHUNK[tier]
        nops += verdict["ops"]
        for t, n in verdict["stats"].items():
            stats[t] = stats.get(t, 0) + n
        for r in rows:
            if r["a"] == "Op":
                by_op[f"{r['op']}@{r['via']}"] = by_op.get(f"{r['op']}@{r['via']}", 0) + 1
                if r["via"] == "req":
                    by_cls[r["cls"]] = by_cls.get(r["cls"], 0) + 1
        # rows of one run
        starts = [i for i, r in enumerate(rows) if r["a"] == "Reset"]
        for b in verdict["bad"]:
            nbad += 1
            ev = rows[b["line"] - 1]
            ri = b["run"] - 1
            run_rows = rows[starts[ri]:(starts[ri + 1] if ri + 1 < len(starts) else len(rows))]
            sc = scripts[base + ri]
            why = sorted(b["why"])
            upto = [r for r in run_rows if r.get("i", -1) <= ev.get("i", -1)]
            rep.violation(key_of(ev, why),
                          {"stage": "pairing", "script": sc, "why": why, "model_expected": b["exp"], "rejected_event": ev, "trace": upto[-12:]},
                          f"pairing script {sc.get('name')} ({sc['fx']}), step {ev.get('i')} {ev.get('op')} via {ev.get('via')} at clock {ev.get('now')}: "
                          f"{', '.join(why)} differ from the model; model expected {json.dumps(b['exp'])[:300]}; observed cls={ev.get('cls')} "
                          f"rcode={ev.get('rcode')} rtok={ev.get('rtok')} rrole={ev.get('rrole')} rok={ev.get('rok')} rn={ev.get('rn')} "
                          f"vals={ev.get('vals')} err={ev.get('err', '')[:60]!r} panic={ev.get('panicMsg', '')[:80]!r}")
    if replay_script is None and nbad == 0:
        missing = [t for t in NEED_TAGS if stats.get(t, 0) == 0]
        if missing:
            raise ToolError(f"vacuous pairing conformance run: no accepted step of kind {missing}")
    by_from = {}
    for s in scripts:
        by_from[s.get("from", "?")] = by_from.get(s.get("from", "?"), 0) + 1
    log(f"C18 pairing stage: {len(scripts)} scripts, {nops} steps validated, {nbad} rejected runs, "
        f"model {(mc or {}).get('distinct', 0)} states ({time.time() - t0:.0f}s; conformance done after {t_conf:.0f}s, model checking after {t_all:.0f}s)")
    return {
        "pairing_model_states": (mc or {}).get("distinct", 0),
        "pairing_model_transitions": (mc or {}).get("generated", 0),
        "pairing_model_depth": (mc or {}).get("depth", 0),
        "pairing_model_action_coverage": {a: (mc or {}).get("action_coverage", {}).get(a, 0) for a in NEED_ACTIONS},
        "pairing_broken_variants_rejected_by_model": variants,
        "pairing_scripts": len(scripts),
        "pairing_scripts_by_origin": by_from,
        "pairing_scripts_on_endpoint": sum(1 for s in scripts if s["fx"] == "endpoint"),
        "pairing_tlc_exported_behaviours_replayed": n_behaviours,
        "pairing_steps_validated": nops,
        "pairing_steps_by_operation": by_op,
        "pairing_request_reply_classes": by_cls,
        "pairing_step_kinds_accepted": stats,
        "pairing_rejected_runs": nbad,
        "pairing_stage_wall_s": round(time.time() - t0, 1),
    }
