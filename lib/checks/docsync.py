"""C14 — DocSync: the language server keeps the same document text as the editor.
Design-level TLC runs of MCDocSync (editor and server interleaved over a FIFO channel; every
edit of every small text; offset<->position round trip on every text of up to 6 units; the
column-per-code-point and column-per-byte slips must violate InSync), script generation (every
(text, single change) pair exported by TLC breadth-first, TLC -simulate export seeded by
VERIF_SEED, seeded random ST documents and edit sequences), execution on the REAL trust-lsp
binary over stdio JSON-RPC next to a reference server that receives the editor's text in one
didOpen, trace validation against DocSyncTrace."""
import json
from concurrent.futures import ThreadPoolExecutor

import docsync_harness as H
from common import (OUT, Report, ToolError, build_repo_bin, digest, log, run_tlc, seed, tlc_printed,
                    validate_trace)
from lspclient import ServerTimeout

NEED_ACTIONS = ["DoType", "DoOpen", "DoEdit", "DoReplace", "DoFlush", "DoServer"]
SLIPS = {"chars": "one column per code point", "bytes": "one column per UTF-8 byte"}
CHUNK_EVENTS = 20000
MAX_CONFIRM = 400
JOBS = 8
BATCH = 8000


def design_level(tier):
    suffix = "" if tier == "quick" else "_thorough"
    mcs = {}
    for name in ("MCDocSync" + suffix, "MCDocSync_edits" + suffix, "MCDocSync_roundtrip"):
        mcs[name] = run_tlc("MCDocSync", name, workers=8, coverage=(name == "MCDocSync" + suffix), timeout=2400,
                            tag=f"mc-c14-{name}")
    cov = mcs["MCDocSync" + suffix].get("action_coverage", {})
    for a in NEED_ACTIONS:
        if cov.get(a, 0) == 0:
            raise ToolError(f"vacuous model run: action {a} never taken ({cov})")
    slips = {}
    for v, what in SLIPS.items():
        r = run_tlc("MCDocSync", f"MCDocSync_{v}", workers=4, timeout=900, allow_violation=True, tag=f"mc-c14-{v}")
        if "Invariant InSync is violated" not in r["stdout"]:
            raise ToolError(f"vacuity guard: a server counting {what} does not violate InSync:\n" + r["stdout"][-2000:])
        slips[what] = "InSync violated (as required)"
    return mcs, cov, slips


def gen_scripts(tier, work):
    n_rand, n_sim = (1500, 400) if tier == "quick" else (24000, 4000)
    exh = []
    # every (text, single change) pair up to the bound; thorough also every pair of consecutive notifications
    for cfg, least in ([("ExhDocSync", 1500)] if tier == "quick" else [("ExhDocSync_thorough", 15000), ("ExhDocSync_seq", 5000)]):
        e = run_tlc("MCDocSync", cfg, workers=1, timeout=2400, tag=f"exh-c14-{cfg}")
        got = tlc_printed(e["stdout"], "SCRIPT")
        if len(got) < least:
            raise ToolError(f"TLC breadth-first export {cfg} gave only {len(got)} scripts")
        exh += got
    g = run_tlc("MCDocSync", "GenDocSync", workers=1, simulate=n_sim, depth=60, seed_=seed(), timeout=2400, tag="gen-c14")
    sim = tlc_printed(g["stdout"], "SCRIPT")
    if len(sim) < n_sim // 2:
        raise ToolError(f"TLC -simulate exported only {len(sim)} scripts")
    scripts, seen = [], set()
    for origin, lst in (("tlc-bfs", exh), ("tlc-simulate", sim)):
        for s in lst:
            h = digest(s)
            if h in seen:
                continue
            seen.add(h)
            try:
                scripts.append(H.embed_tlc(s, len(scripts), origin))
            except RuntimeError as ex:
                raise ToolError(str(ex))
    scripts += H.gen_random(seed(), n_rand, tier)
    return scripts, len(exh), len(sim)


def execute(binary, scripts, work, **kw):
    for attempt in range(3):
        try:
            return H.run_scripts(binary, scripts, work / "sessions", jobs=JOBS, **kw)
        except ServerTimeout as ex:
            log(f"NOTE C14: a server stayed silent ({ex}); attempt {attempt + 1} of 3")
    raise ToolError("the trust-lsp binary stayed silent past its time budget three times (not a verdict)")


def suspicious(ev):
    return any((e["a"] == "Query" and e["incr"] != e["fresh"]) or e["a"] == "Panic" for e in ev)


def validate_chunks(runs, work):
    """Validate the recorded runs with DocSyncTrace, a bounded number of events per TLC pass."""
    chunks, cur, n = [], [], 0
    for i, r in enumerate(runs):
        if cur and n + len(r) > CHUNK_EVENTS:
            chunks.append(cur)
            cur, n = [], 0
        cur.append(i)
        n += len(r)
    if cur:
        chunks.append(cur)

    def one(ci):
        idx = chunks[ci]
        p = work / f"chunk{ci:03d}.trace.ndjson"
        with open(p, "w") as f:
            for i in idx:
                for ev in runs[i]:
                    f.write(json.dumps(ev) + "\n")
        nev = sum(len(runs[i]) for i in idx)
        verdict, _ = validate_trace("DocSyncTrace", p, tag=f"trace-c14-{ci}", xmx="3g", timeout=2400)
        if verdict["events"] != nev or verdict["runs"] != len(idx):
            raise ToolError(f"trace validation did not consume chunk {ci}: {verdict['events']}/{nev} events, "
                            f"{verdict['runs']}/{len(idx)} runs")
        p.unlink()
        vp = work / f"chunk{ci:03d}.trace.ndjson.verdict.json"
        if vp.exists():
            vp.unlink()
        return ci, verdict

    out = {}
    with ThreadPoolExecutor(max_workers=5) as ex:
        for ci, v in ex.map(one, range(len(chunks))):
            out[ci] = v
    bad, tot = [], {"queries": 0, "probes": 0, "unanswered": 0, "inconclusive": 0}
    for ci in sorted(out):
        v, idx = out[ci], chunks[ci]
        for k in tot:
            tot[k] += v[k]
        start, ln = {}, 0
        for k, i in enumerate(idx):
            start[k + 1] = (i, ln)
            ln += len(runs[i])
        for b in v["bad"]:
            i, off = start[b["run"]]
            bad.append(dict(b, run_index=i, pos=b["line"] - off))      # pos: 1-based event position inside the run
    return bad, tot, len(chunks)


def show(text, limit=160):
    return json.dumps(text, ensure_ascii=False)[:limit]


def judge(prop, rep, binary, scripts, work, replay, acc):
    """Execute one batch of scripts, validate the recorded runs, report every rejected run."""
    if replay:
        results = execute(binary, scripts, work, isolate=True, keep_answers=True)
        confirmed, batch_only = set(range(len(scripts))), 0
    else:
        results = execute(binary, scripts, work)
        if len(results) != len(scripts) or any(r is None for r in results):
            raise ToolError("the runner did not return one recorded run per script")
        # a difference seen in the long-lived session is re-examined with brand-new server processes
        # (one for the script, one per reference text); that run is the one that is judged and replayed
        sus = [i for i, (ev, _) in enumerate(results) if suspicious(ev)]
        confirmed, batch_only = set(), 0
        redo = sus[:max(0, MAX_CONFIRM - acc["reexamined"])]
        if redo:
            again = execute(binary, [scripts[i] for i in redo], work, isolate=True, keep_answers=True)
            for i, r in zip(redo, again):
                results[i] = r
                if suspicious(r[0]):
                    confirmed.add(i)
                else:
                    batch_only += 1
        acc["reexamined"] += len(redo)
        acc["batch_only"] += batch_only
    runs = [ev for ev, _ in results]
    bad, tot, nchunks = validate_chunks(runs, work)
    for b in bad:
        why = set(b["why"])
        ri = b["run_index"]
        ev = runs[ri][b["pos"] - 1]
        if why & {"harness-fresh-text", "harness-probe"}:
            raise ToolError(f"harness and specification disagree ({sorted(why)}) in run {ri} at event {b['pos']}: "
                            f"script {json.dumps(scripts[ri])[:1500]}")
        texts = [e["text"] for e in runs[ri][: b["pos"]] if e["a"] == "Fresh"]
        editor = "".join(chr(c) for c in texts[-1]) if texts else scripts[ri]["open"]
        full = [a for a in results[ri][1] if a["after_event"] == b["pos"]]
        if "panic" in why:
            key = f"panic:{ev.get('who')}-server@{ev.get('at', '').split(':')[0]}:{b['class']}"
            summary = (f"the {ev.get('who')} server died at {ev.get('at')} ({ev.get('msg', '')[:200]}); "
                       f"editor text {show(editor)}")
        elif "answer-differs" in why and ev.get("kind") == "closedFileSymbols":
            key = "diverge:closed-file-rewritten-on-disk"
            summary = ("documentSymbol of a file that is not open, after it was rewritten on disk and the server was told "
                       "(workspace/didChangeWatchedFiles), differs from the answer of a server given that text in a didOpen")
        elif "answer-differs" in why and ev.get("kind") == "dependentDiagnostics":
            key = "diverge:diagnostics-of-an-open-document-after-another-file-changed"
            summary = ("pulled diagnostics (asked with previousResultId, `unchanged` read as the previous report) of an open document "
                       "that calls a function of another file, after that file was rewritten on disk, differ from a server given both texts afresh")
        elif "answer-differs" in why:
            key = f"diverge:{b['class']}"
            summary = (f"{b['kind']} answer of the server fed didOpen + {sum(1 for e in runs[ri][: b['pos']] if e['a'] == 'Change')} "
                       f"didChange differs from the server fed the editor's text in one didOpen ({b['class']}); "
                       f"editor text {show(editor)}")
        elif "position-mismatch" in why:
            key = f"position:{b['class']}"
            exp = H.to_pos(editor, ev["i"] - 1), H.to_pos(editor, ev["i"] - 1 + ev["n"])
            summary = (f"prepareRename at the identifier at editor position {list(exp[0])} answered "
                       f"incr={[ev['incr'][k] for k in ('l1', 'c1', 'l2', 'c2')] if ev['incr']['has'] else None} "
                       f"fresh={[ev['fresh'][k] for k in ('l1', 'c1', 'l2', 'c2')] if ev['fresh']['has'] else None}, "
                       f"the identifier is at {[*exp[0], *exp[1]]} in UTF-16 columns ({b['class']}); editor text {show(editor)}")
        else:
            raise ToolError(f"unknown rejection {sorted(why)} in run {ri}")
        rep.violation(key, {"script": scripts[ri], "why": sorted(why), "class": b["class"], "features_of_the_run": b["feats"],
                            "rejected_event": ev, "editor_text": editor, "answers": full,
                            "confirmed_with_brand_new_processes": ri in confirmed,
                            "trace": runs[ri][: b["pos"]]},
                      f"run {acc['runs'] + ri + 1} ({scripts[ri].get('from')}): {summary}")
    for k in ("queries", "probes", "unanswered", "inconclusive"):
        acc[k] += tot[k]
    acc["chunks"] += nchunks
    acc["rejected"] += len(bad)
    acc["confirmed"] += len(confirmed)
    for ri, r in enumerate(runs):
        acc["events"] += len(r)
        for e in r:
            if e["a"] == "Query" and e.get("tokBad", 0) > 0 and acc.setdefault("tok_reported", 0) < 20:
                # a position-carrying answer that cannot refer to the editor's text (judged on the FRESH server's answer
                # for the text it was opened with: no history involved)
                acc["tok_reported"] += 1
                text = next((x["text"] for x in reversed(r[: r.index(e)]) if x["a"] == "Fresh"), None)
                rep.violation("answer:semantic-tokens-not-in-utf16-units", {"tokens": True, "text_code_points": text, "script": scripts[ri] if ri < len(scripts) else None},
                              f"semanticTokens/full for a text opened in one didOpen: {e['tokBad']} token(s) start beyond / overlap / end beyond their line when read in UTF-16 code units")
            if e["a"] == "Probe":
                for who in ("renFresh",):
                    acc["renames"] = acc.get("renames", 0) + (1 if e.get(who, -1) >= 0 else 0)
                    if e.get(who, -1) > 0 and acc.setdefault("ren_reported", 0) < 20:
                        acc["ren_reported"] += 1
                        text = next((x["text"] for x in reversed(r[: r.index(e)]) if x["a"] == "Fresh"), None)
                        rep.violation("answer:rename-edits-not-on-the-symbol", {"rename": True, "server": who, "probe": e, "text_code_points": text,
                                                                               "script": scripts[ri] if ri < len(scripts) else None},
                                      f"textDocument/rename of the marker variable ({'incremental' if who == 'renIncr' else 'fresh'} server): {e[who]} edit(s) are not "
                                      "exactly a spelling of the symbol in the editor's text (UTF-16 columns)")
            if e["a"] == "Query":
                acc["tok_bad"] = acc.get("tok_bad", 0) + (1 if e.get("tokBad", 0) > 0 else 0)
                acc["per_kind"][e["kind"]] = acc["per_kind"].get(e["kind"], 0) + 1
            elif e["a"] in ("Open", "Change"):
                acc["notifications"] += 1
                if e["a"] == "Change":
                    acc["multi"] += len(e["changes"]) > 1
                    acc["fulls"] += sum(1 for c in e["changes"] if c["full"])
            elif e["a"] == "Panic":
                acc["panics"] += 1
    if acc["sample"] is None and runs:
        acc["sample"] = next((e for e in runs[len(runs) // 2] if e["a"] == "Query"), None)
    acc["runs"] += len(runs)


def run(prop, tier, replay):
    work = OUT / "c14"
    work.mkdir(parents=True, exist_ok=True)
    # (read the replay file first: Report() starts a new out/replay/<id>/ directory)
    replay_script = json.loads(open(replay).read())["replay"]["script"] if replay else None
    rep = Report(prop, tier, "model_checking")
    binary = build_repo_bin("trust-lsp", "trust-lsp")
    mcs, cov_actions, slips, n_exh, n_sim = {}, {}, {}, 0, 0
    if replay:
        scripts = [replay_script]
    else:
        mcs, cov_actions, slips = design_level(tier)
        scripts, n_exh, n_sim = gen_scripts(tier, work)
    acc = {"runs": 0, "events": 0, "queries": 0, "probes": 0, "unanswered": 0, "inconclusive": 0, "chunks": 0, "rejected": 0,
           "confirmed": 0, "reexamined": 0, "batch_only": 0, "per_kind": {}, "notifications": 0, "multi": 0, "fulls": 0,
           "panics": 0, "sample": None}
    for at in range(0, len(scripts), BATCH):
        judge(prop, rep, binary, scripts[at:at + BATCH], work, replay, acc)
    if acc["batch_only"]:
        log(f"NOTE {prop}: {acc['batch_only']} script(s) showed a difference inside the long-lived batch session that did not "
            "reproduce with brand-new server processes; the isolated runs are the ones judged (the property speaks about one "
            "document's history)")

    def nontrivial(s):
        wide = any(ord(c) > 127 for c in s["open"]) or any(ord(c) > 127 for st in s["steps"] for ch in st["changes"] for c in ch["text"])
        return wide and any(not ch["full"] for st in s["steps"] for ch in st["changes"])

    first = next(iter(mcs.values()), {})
    cov = {
        "states": sum(m["distinct"] for m in mcs.values()) or 1,
        "transitions": sum(m["generated"] for m in mcs.values()) or 1,
        "model_runs": {k: {"distinct": m["distinct"], "generated": m["generated"], "depth": m["depth"]} for k, m in mcs.items()},
        "model_depth": first.get("depth", 0),
        "model_action_coverage": cov_actions,
        "seeded_slips_rejected_by_model": slips,
        "traces_validated_against_impl": acc["runs"],
        "tlc_bfs_scripts_exported": n_exh,
        "tlc_simulate_scripts_exported": n_sim,
        "tlc_bfs_scripts_replayed": sum(1 for s in scripts if s.get("from") == "tlc-bfs"),
        "tlc_simulate_scripts_replayed": sum(1 for s in scripts if s.get("from") == "tlc-simulate"),
        "random_scripts_replayed": sum(1 for s in scripts if s.get("from") == "random"),
        "notifications_replayed": acc["notifications"],
        "multi_change_notifications": acc["multi"],
        "full_text_changes": acc["fulls"],
        "events_validated": acc["events"],
        "trace_validation_passes": acc["chunks"],
        "answers_compared_incremental_vs_fresh": acc["queries"],
        "answers_compared_per_kind": acc["per_kind"],
        "position_answers_checked_against_utf16_positions": acc["probes"],
        "rename_answers_checked_for_placement": acc.get("renames", 0),
        "position_requests_unanswered": acc["unanswered"],
        "inconclusive_events": acc["inconclusive"],
        "panics_recorded": acc["panics"],
        "suspicious_runs_reexamined_with_brand_new_processes": acc["reexamined"],
        "differences_only_in_long_lived_session": acc["batch_only"],
        "rejected_runs": acc["rejected"],
        "evaluations": acc["queries"] + acc["probes"],
        "distinct_nontrivial": len({digest([s["open"], s["steps"]]) for s in scripts if nontrivial(s)}),
        "rule": "one evaluation = one answer judged by DocSyncTrace: a formatting / semanticTokens / documentSymbol / diagnostic answer of "
                "the incrementally fed server compared with the reference server's (after EVERY notification of a script), or a "
                "prepareRename range compared with the identifier's UTF-16 position in the specification's editor text; distinct = "
                "different script (document + notifications) by hash; non-trivial = the script has a ranged change and a non-ASCII character",
        "samples": [scripts[0], acc["sample"]],
        "exhaustive": False,
    }
    return rep.finish(cov, assumptions=[
        "the editor's text is DEFINED by the LSP 3.17 meaning of the notifications (DocSync.Meaning: UTF-16 columns, a column past the "
        "line end defaults back to the line length, changes of one notification apply in order); the harness' own text model only picks "
        "positions and is rejected by the trace specification (tool error) if it ever disagrees",
        "the reference is the same binary fed the editor's current text in ONE didOpen (the property's own formulation); in the batch "
        "session it is a long-lived process that only ever sees didOpen / didClose / file-deleted, and every difference is re-examined "
        f"with brand-new processes before it is judged (the first {MAX_CONFIRM} of a run)",
        "not judged (property / protocol silent): a lone \\r, a column past the end of a \\r\\n line, a column inside a surrogate pair, "
        "a line past the end, a range whose start lies after its end (generated only in thorough, counted as inconclusive)",
        "prepareRename is only asked at an occurrence of the marker identifier that is certainly an identifier token (stands alone, reached "
        "outside every (* *) comment with only quote-, brace- and slash-free ASCII before it outside comments); no answer is accepted",
        "answers are compared as JSON values minus resultId; semantic-token lengths and other non-position fields are only compared "
        "differentially (both servers run the same binary)",
        "one document per script, removed from both servers afterwards (didClose + workspace/didChangeWatchedFiles Deleted); every script "
        "uses its own program name so documents of a session do not interact",
    ])
