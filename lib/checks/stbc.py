"""C11 — STBC container: MCStbcContainer (framing rules = the decision shaped like decode.rs on every
small section table and header defect; encoder layout round trip; life-cycle invariants) + layouts
and (program shape x field class x hostile value class) mutations exported by TLC and drawn by a
seeded random generator, executed on the real compiler / encoder / decoder / validator / metadata /
apply code in a child process with an address-space limit, validated against StbcContainerTrace."""
import json

from common import (OUT, Report, ToolError, build_harness, digest, log, read_ndjson, run_tlc, seed,
                    split_runs, tlc_printed, tpv, validate_trace)

NEED_ACTIONS = ["DoDecodeLayout", "DoEmit", "DoMutateBody", "DoMutateTable", "DoMutateHeader", "DoTruncate",
                "DoDecode", "DoValidate", "DoMetadata", "DoApply"]
# a rejection for one of these reasons means harness and specification disagree about the
# vocabulary or the order of events: a tool error, never a verdict about the code
TOOL_WHYS = {"ok", "err", "out-of-order", "harness-selfcheck", "incomplete-run", ""}


def gen_scripts(tier, work):
    quick = tier == "quick"
    n_rand, n_frames, n_progs, sweep = (1500, 700, 10, 1) if quick else (30000, 12000, 40, 2)
    n_simf, n_siml = (1500, 700) if quick else (40000, 12000)
    rnd = work / "scripts_random.ndjson"
    tpv(["stbc-gen", "--seed", seed(), "--runs", n_rand, "--frames", n_frames, "--progs", n_progs, "--sweep", sweep,
         "--out", rnd])
    scripts = read_ndjson(rnd)
    exported = []
    gf = run_tlc("MCStbcContainer", "GenStbcFrames", workers=1, simulate=n_simf, depth=3, seed_=seed(), timeout=1800,
                 tag="gen-c11-frames")
    frames = tlc_printed(gf["stdout"], "SCRIPT")
    gl = run_tlc("MCStbcContainer", "GenStbcLife", workers=1, simulate=n_siml, depth=8, seed_=seed(), timeout=1800,
                 tag="gen-c11-life")
    lives = [s for s in tlc_printed(gl["stdout"], "SCRIPT") if "prog" in s]
    if len(frames) < n_simf // 2 or len(lives) < n_siml // 2:
        raise ToolError(f"TLC exported only {len(frames)} layouts / {len(lives)} life scripts")
    seen = set()
    for i, s in enumerate(frames + lives):
        d = digest(s)
        if d in seen:
            continue
        seen.add(d)
        if s["kind"] == "frame":
            s["layout"]["sel"] = i % 4      # which hostile u32 a projected "huge" value stands for
        elif s["mut"].get("kind") == "field" and s["mut"]["sec"] not in ("HEADER", "SECTION_TABLE"):
            s["mut"]["k"] = (i * 7919 + seed()) % 100000   # which field of that class (the model is blind to it)
        exported.append(s)
    # runs of one program shape next to each other: the runner compiles each shape once
    exported.sort(key=lambda s: json.dumps(s.get("prog", {}), sort_keys=True))
    return scripts, exported


def key_of(b):
    if b["kind"] == "frame":
        return f"frame:{b['phase']}:{b['why']}"
    where = b["cls"] + ("@" + b["sec"] if b["sec"] not in ("", "*") else "") + ("." + b["leaf"] if b["leaf"] else "")
    why = b["why"] + ("-" + b["class"] if b["res"] == "abort" and b["class"] not in ("", "alloc") else "")
    return f"{b['phase']}:{why}:{where or 'emitted'}"


def emit_stage(rep, tier, work):
    """"Every container the compiler emits validates", over the programs of the other generators (typed core, POU
    programs, feature programs) and a family of loop / condition shapes at the end of a POU: compile -> decode ->
    validate -> encode = bytes -> apply to a runtime.  A program the front end accepts may be refused by the
    bytecode compiler for a reason of its own, but must never fail in (or slip past) its own validation."""
    from common import seed
    n = 300 if tier == "quick" else 6000
    src = work / "emit_sources.ndjson"
    with open(src, "w") as out:
        for prof in ("strict", "pous", "natural"):
            f = work / f"emit_{prof}.ndjson"
            tpv(["stcore-gen", "--seed", seed(), "--profile", prof, "--runs", n, "--out", f])
            for sc in read_ndjson(f):
                out.write(json.dumps({"from": prof, "src": sc["src"]}) + "\n")
        f = work / "emit_features.ndjson"
        tpv(["stfeat", "--seed", seed(), "--runs", 250 if tier == "quick" else 5000, "--out", f], timeout=3000)
        for r in read_ndjson(f):
            if r.get("accepted") and r.get("src"):
                out.write(json.dumps({"from": "feature:" + r["family"], "src": r["src"]}) + "\n")
    tr = work / "emit.trace.ndjson"
    tpv(["emit-run", "--sources", src, "--shapes", 324 if tier == "quick" else 3240, "--seed", seed(), "--out", tr], timeout=3000)
    rows = [r for r in read_ndjson(tr) if r["a"] == "Emit"]
    acc = [r for r in rows if r["accepted"]]
    if len(acc) < 800:
        raise ToolError(f"emission sweep: only {len(acc)} accepted programs")
    tally = {}
    for r in acc:
        k = r["res"]
        if k == "compile":
            # the bytecode compiler's own refusals are fine; a failure of its self-validation is not
            d = r["detail"].lower()
            # the container format's own error texts (bytecode/format.rs): the compiler built a module that its own
            # validation rejects; anything else is a refusal of the bytecode compiler (unsupported construct, ...)
            own = ("invalid bytecode", "unsupported bytecode version", "invalid section", "section out of bounds", "section overlap",
                   "section alignment", "unexpected end of input", "missing required section", "invalid opcode", "invalid jump target",
                   "invalid pou id", "invalid index ")
            k = "compile:self-validation" if any(t in d for t in own) else "compile:refused"
        tally[k] = tally.get(k, 0) + 1
        if k in ("ok", "compile:refused"):
            continue
        rep.violation(f"emitted-container:{k}:{r['from'].split(':')[0]}", {"emit": True, "from": r["from"], "source": r["src"], "stage": r["res"], "detail": r["detail"]},
                      f"program from {r['from']} accepted by the front end: {r['res']} -- {r['detail'][:160]}")
    return {"emission_sweep_programs": len(acc), "emission_sweep_outcomes": dict(sorted(tally.items()))}


def run(prop, tier, replay):
    work = OUT / "c11"
    work.mkdir(parents=True, exist_ok=True)
    # (read before Report() clears out/replay/<id>, where the file usually lives)
    replayed = json.loads(open(replay).read())["replay"]["script"] if replay else None
    rep = Report(prop, tier, "exploration")
    build_harness()
    mc = None
    if replay:
        scripts, exported = [replayed], []
    else:
        mc = run_tlc("MCStbcContainer", "MCStbcContainer" if tier == "quick" else "MCStbcContainer_thorough", workers=8,
                     coverage=True, timeout=2400, tag="mc-c11")
        cov = mc.get("action_coverage", {})
        for a in NEED_ACTIONS:
            if cov.get(a, 0) == 0:
                raise ToolError(f"vacuous model run: action {a} never taken ({cov})")
        scripts, exported = gen_scripts(tier, work)
    allscripts = scripts + exported
    sp = work / "all.scripts.ndjson"
    with open(sp, "w") as f:
        for s in allscripts:
            f.write(json.dumps(s) + "\n")
    tr = work / "all.trace.ndjson"
    tpv(["stbc-run", "--scripts", sp, "--out", tr], timeout=7200)
    rows = read_ndjson(tr)
    runs = split_runs(rows)
    if len(runs) != len(allscripts) or any(r[0]["i"] != i for i, r in enumerate(runs)):
        raise ToolError(f"{len(allscripts)} scripts but {len(runs)} recorded runs")
    verdict, _ = validate_trace("StbcContainerTrace", tr, tag="trace-c11", timeout=3600)
    if verdict["events"] != len(rows) or not verdict["complete"]:
        raise ToolError("trace validation did not consume every event / the last run is incomplete")
    starts, n = [], 0
    for r in runs:
        starts.append(n)
        n += len(r)
    for b in verdict["bad"]:
        if b["why"] in TOOL_WHYS:
            raise ToolError(f"harness and specification out of step at trace line {b['line']}: {b}")
        ri = b["run"] - 1
        ev = rows[b["line"] - 1]
        mut = next((e for e in runs[ri] if e["a"] == "Mutate"), {})
        what = ", ".join(f"{f.get('path', f.get('off'))}: {f.get('old', '?')} -> {f.get('new')}" for f in mut.get("fields", [])[:3])
        rep.violation(key_of(b), {"script": allscripts[ri], "why": b["why"], "phase": b["phase"],
                                  "trace": runs[ri][: b["line"] - starts[ri]], "rejected_event": ev},
                      f"run {b['run']} ({b['kind']}): {b['phase']} -> {ev.get('res', '')} {ev.get('detail', '')[:120]}"
                      + (f" after {mut.get('kind')} mutation [{what}]" if mut else "") + f"; specification: {b['why']}")
    live = [r for r in runs if r[0]["kind"] != "dropped"]
    tally = {}
    for r in rows:
        if r["a"] in ("Decode", "Validate", "Metadata", "Apply", "RoundTrip"):
            k = f"{r['a']}:{r['res']}"
            tally[k] = tally.get(k, 0) + 1
    muts = [e for e in rows if e["a"] == "Mutate"]
    classes = {}
    for e in muts:
        k = e["cls"] if e["kind"] == "field" else e["kind"]
        classes[k] = classes.get(k, 0) + 1
    count_sites = {f"{e['sec']}.{e['leaf']}" for e in muts if e["kind"] == "field" and e["cls"] == "count" and e["newc"] > e["rem"]}
    cov = {
        "states": (mc or {}).get("distinct", 1) or 1,
        "transitions": (mc or {}).get("generated", 1) or 1,
        "model_depth": (mc or {}).get("depth", 0),
        "model_action_coverage": (mc or {}).get("action_coverage", {}),
        "traces_validated_against_impl": len(live),
        "tlc_exported_scripts_replayed": len(exported),
        "random_and_sweep_scripts_replayed": len(scripts),
        "layout_runs": verdict["frames"],
        "lifecycle_runs": verdict["lives"],
        "unmutated_round_trips": sum(1 for r in rows if r["a"] == "RoundTrip"),
        "hot_reloads_through_a_resource_thread": sum(1 for r in rows if r["a"] == "Apply" and r.get("reload") in ("ok", "err")),
        "program_shapes": len({json.dumps(s["prog"], sort_keys=True) for s in allscripts if "prog" in s}),
        "scripts_dropped_by_compiler": len(runs) - len(live),
        "events_validated": len(rows),
        "outcomes": dict(sorted(tally.items())),
        "mutation_classes": dict(sorted(classes.items())),
        "array_count_sites_given_an_impossible_count": sorted(count_sites),
        "undecided_by_specification": verdict["undecided"],
        "rejected_runs": len(verdict["bad"]),
        "evaluations": len(live),
        "distinct_nontrivial": len({digest(allscripts[i]) for i, r in enumerate(runs) if len(r) > 2}),
        "rule": "one evaluation = one script (a section-table layout, or a compiled program shape plus one mutation of the emitted "
                "container) executed on the real code and validated phase by phase against StbcContainer; distinct by script hash; "
                "non-trivial = at least two events after Reset",
        "samples": [allscripts[0], next((s for s in allscripts if s["kind"] == "life" and s["mut"].get("kind") == "field"), None),
                    next((r for r in rows if r["a"] == "Validate"), None)],
        "exhaustive": False,
    }
    if not replay:
        cov.update(emit_stage(rep, tier, work))
    return rep.finish(cov, assumptions=[
        "totality is sampled through model-generated and seeded structured mutants, truncations, random blobs and the child's 2 GiB "
        "address-space limit / 8 MiB stack; it is not a statement about all byte strings",
        "which of value / error a phase returns is demanded only where the property or docs/specs/10-runtime.md fixes it: emitted "
        "containers decode, validate and round-trip; a documented framing violation or an array count larger than the bytes left in "
        "its section is not decoded; a layout of raw sections that keeps every documented rule is decoded to exactly its sections",
        "not decided (either outcome accepted): header_size other than 24, minor version other than 1, sections placed inside the header "
        "or the section table, an empty section inside another, typed sections with arbitrary bodies",
        "Apply allocates the process image the container declares: an allocation failure in Apply is not judged when the container "
        "itself declares >= 16 MiB of process image",
        "apply_bytecode_bytes succeeding on a container whose full validation failed is not judged (the property only states the converse)",
        "round trip is demanded for compiler-emitted containers and the compiler's modules, not for mutants",
        "a phase that burns >= 30 s CPU without finishing is recorded as a hang (data); a stalled child without CPU use is a tool error"])
