"""C15 — formatting never changes the program and is idempotent (Format).

Design-level TLC runs (MCFormat: the reference formatter on the adjacent-pair matrix and on layout
documents, every range and on-type line, twice; two named deviations that must violate the
invariants), script generation (TLC export: the pair matrix and the layout documents breadth-first,
a seeded simulation of lines x configuration vector x request; plus the seeded random generator of
the harness: corpus programs, mutated programs, synthetic programs, soups, CRLF), execution on the
real trust-lsp binary (formatting / rangeFormatting / onTypeFormatting over JSON-RPC) and on the web
IDE's format_source, both texts lexed by the real lexer, and trace validation against FormatTrace.

The work is done in rounds (one script file, one trace, CHUNKS parallel validations each)."""
import json
import os
import threading
from concurrent.futures import ThreadPoolExecutor

from common import (OUT, Report, ToolError, build_harness, build_repo_bin, digest, log, run_tlc, seed,
                    tlc_printed, tpv, validate_trace)

NEED_ACTIONS = ["MSplitLines", "MEmitLines", "MWrap", "MAlignColons", "MAlignAssign", "MMakeEdits", "MApplyEdits", "MAgain"]
CHUNKS = 8
ROUND = 20000
PREFIX = {"FormatDoc": "full", "FormatRange": "range", "FormatOnType": "ontype"}


def model_check(tier, result):
    """The bounded instance of the design model and the two deviations that must violate it; fills
    result (run in a thread next to the replay)."""
    try:
        cfg = "MCFormat" if tier == "quick" else "MCFormat_thorough"
        mc = run_tlc("MCFormat", cfg, workers=8, coverage=True, timeout=3000, tag=f"mc-c15-{cfg}")
        cov = mc.get("action_coverage", {})
        for a in NEED_ACTIONS:
            if cov.get(a, 0) == 0:
                raise ToolError(f"vacuous model run: action {a} never taken ({cov})")
        refuted = {}
        for dev, inv in (("MCFormat_blindGlue", "EditsConfined"), ("MCFormat_byIndex", "EditsConfined")):
            r = run_tlc("MCFormat", dev, workers=4, timeout=900, allow_violation=True, tag=f"mc-c15-{dev}")
            if "Invariant " not in r["stdout"] or " is violated" not in r["stdout"]:
                raise ToolError(f"the deviation model {dev} does not violate the invariants (they would be vacuous):\n{r['stdout'][-1500:]}")
            refuted[dev] = True
        result["mc"], result["cov"], result["refuted"] = mc, cov, refuted
    except BaseException as ex:  # re-raised by the caller
        result["error"] = ex


def tlc_scripts(tier, work):
    """Abstract scripts exported by TLC: the matrix and the layout documents exhaustively, random
    lines x configuration vector x request by simulation."""
    bfs = run_tlc("MCFormat", "GenFormat_matrix" if tier == "quick" else "GenFormat_matrix3", workers=1, timeout=1800, tag="gen-c15-bfs")
    exported = tlc_printed(bfs["stdout"], "SCRIPT")
    n_sim = 60 if tier == "quick" else 1500
    sim = run_tlc("MCFormat", "GenFormat_sim", workers=1, simulate=n_sim, depth=30, seed_=seed(), timeout=1800, tag="gen-c15-sim")
    seen, simulated = set(), []
    for s in tlc_printed(sim["stdout"], "SCRIPT"):
        k = json.dumps(s, sort_keys=True)
        if k not in seen:
            seen.add(k)
            simulated.append(s)
    if len(exported) < 5000 or len(simulated) < n_sim:
        raise ToolError(f"TLC exported only {len(exported)} + {len(simulated)} scripts")
    p = work / "tlc_scripts.ndjson"
    with open(p, "w") as f:
        for s in exported + simulated:
            f.write(json.dumps(s) + "\n")
    return p, len(exported), len(simulated)


def split_trace(tr, work, k):
    """Cut the concatenated trace into k files at run boundaries (balanced by size)."""
    total = os.path.getsize(tr)
    limit = max(1, total // k + 1)
    chunks, cur, size = [], None, 0
    with open(tr) as f:
        for line in f:
            if line.startswith('{"a":"Reset"'):
                if cur is None or (size >= limit and len(chunks) < k):
                    if cur is not None:
                        cur["f"].close()
                    p = work / f"chunk{len(chunks) + 1}.trace.ndjson"
                    cur = {"path": p, "f": open(p, "w"), "runs": 0, "lines": 0}
                    chunks.append(cur)
                    size = 0
                cur["runs"] += 1
            if cur is None:
                raise ToolError("trace does not start with a Reset event")
            cur["f"].write(line)
            cur["lines"] += 1
            size += len(line)
    if cur is not None:
        cur["f"].close()
    return chunks


def kt(tok):
    return tok


def pairs(doc):
    """The non-trivia tokens of an observed text as (kind, text) pairs (the kind is for reports only)."""
    return list(zip(doc["nk"], doc["nt"]))


def squeeze(t):
    return "".join(t.split()).upper()


def glue_cause(group):
    """Which neighbours lost their separator: named after the token that was joined to its predecessor."""
    kinds = [kt(x)[0] for x in group]
    texts = [kt(x)[1] for x in group]
    # `INT#`, `T#` ...: by its text (for some contexts the lexer calls the same text an identifier)
    tlp = [k == "TypedLiteralPrefix" or (len(t) > 1 and t.endswith("#") and t[:-1].replace("_", "a").isalnum()) for k, t in group]
    if "".join(texts[:2])[:2] in ("(*", "/*", "//") and not any(c.isalnum() for c in "".join(texts[:2])):
        return "operator-chars"          # a comment was opened
    if tlp[0]:
        return "after-typed-literal-prefix"
    if any(tlp[1:]):
        return "before-typed-literal-prefix"
    if "Hash" in kinds:
        return "hash"
    if not any(c.isalnum() or c == "_" for t in texts for c in t):
        return "operator-chars"
    if "Dot" in kinds or "DotDot" in kinds:
        return "dot"
    return "other:" + "+".join(kinds)


def diff_class(before, after, cm_before, cm_after):
    """What happened at the first differing token, read off the two token lists themselves:
    glue = neighbouring tokens lost their separator (the joined text is read as other tokens),
    blanks-inside = white space was put inside a token, lost / extra / changed otherwise."""
    n = min(len(before), len(after))
    i = next((j for j in range(n) if before[j][1] != after[j][1]), n)
    if i >= len(before):
        return "extra:" + kt(after[i])[0]
    bk = kt(before[i])[0]
    bt = [kt(x)[1] for x in before]
    at = [kt(x)[1] for x in after]
    if i < len(after) and squeeze(bt[i]) == squeeze(at[i]):
        return "blanks-inside:" + bk               # white space inside the token changed
    if i + 1 < len(before) and bt[i] and bt[i + 1] and bt[i][-1] + bt[i + 1][0] in ("(*", "/*", "//"):
        return "glue:operator-chars"                   # a comment was opened: the tokens from here on went into it
    # the same characters, grouped into tokens differently
    for total in range(3, 16):
        for j in range(i + 1, min(i + total, len(before)) + 1):
            k = i + total - (j - i)
            if k <= i or k > len(after):
                continue
            x, y = "".join(bt[i:j]), "".join(at[i:k])
            if squeeze(x) != squeeze(y):
                continue
            if j - i == 1:
                return "blanks-inside:" + bk           # one token taken apart
            return "glue:" + glue_cause(before[i:j])    # neighbours lost their separator
    # the tokens from here on went into a comment or into an unterminated one
    new_cm = [c for c in cm_after if c not in cm_before]
    tails = new_cm + ([at[i]] if i < len(after) and kt(after[i])[0] == "Error" else [])
    for j in range(i + 2, min(i + 4, len(before)) + 1):
        g = "".join(bt[i:j])
        if any(squeeze(c).startswith(squeeze(g)) for c in tails):
            return "glue:" + glue_cause(before[i:j])
    if len(after) < len(before) and at[i:] == bt[i + (len(before) - len(after)):]:
        return "lost:" + bk
    if i < len(after):
        return f"changed:{bk}->{kt(after[i])[0]}"
    return "lost:" + bk


def in_var_block(reset, at):
    """Is the token with (1-based) index `at` inside a VAR block of the source?"""
    inside = False
    for k in reset["doc"]["nk"][: max(at - 1, 0)]:
        if k.startswith("KwVar"):
            inside = True
        elif k == "KwEndVar":
            inside = False
    return inside


def effective_style(cfg):
    s = cfg.get("spacingStyle", "unset")
    if s in ("spaced", "compact"):
        return s
    return "compact" if cfg.get("vendor") == "siemens" else "spaced"


def classify(b, reset, ev, script, evs=()):
    """The narrow key of a rejected event: which request, through which path, and what exactly went
    wrong, read off the failing case itself."""
    cfg = (script or {}).get("cfg", {})
    why = set(b["why"])
    pre = PREFIX.get(b["kind"], b["kind"]) + (":web" if b["via"] == "web" else "")
    for w in ("died", "hang", "failed", "panic"):
        if w in why:
            key = f"{w}:{b['kind']}" + (":web" if b["via"] == "web" else "")
            base = reset["doc"]
            if b["kind"] == "FormatDoc" and b["via"] == "lsp":
                # FormatDoc on the source comes first in every script: a later one is on the formatted text
                for k in range(1, len(evs)):
                    if evs[k]["a"] == "ApplyEdits" and evs[k - 1]["a"] == "FormatDoc" and evs[k - 1]["via"] == "lsp" and evs[k - 1]["on"] == "source":
                        base = evs[k]["doc"]
            nt, ln = pairs(base), base["ln"]
            firsts, at = [], 0
            for n, _ in ln:
                if n:
                    firsts.append(nt[at])
                at += n
            if w in ("died", "hang") and cfg.get("endKeywordStyle") == "indented" and any(kt(x)[0].startswith("KwEnd") for x in firsts):
                key += ":indented-end-keyword"
            return key
    if b["dev"] == "RangeFormatByLineIndex":
        return pre + ":line-index-after-wrap"
    if b["dev"] == "RewrapNotStable":
        return "idempotence:wrap"
    mlk = sorted(set(reset.get("mlk", [])))
    if "overlap" in why:
        return pre + ":overlapping-edits"
    if why == {"idempotence"}:
        # the first pass (FormatDoc on the source through the same path) and what it did to the token kinds
        first = None
        for k in range(1, len(evs)):
            if evs[k]["a"] == "ApplyEdits" and evs[k - 1]["a"] == "FormatDoc" and evs[k - 1]["via"] == b["via"] and evs[k - 1]["on"] == "source":
                first = evs[k]
        if "Error" in mlk or "Pragma" in mlk:
            # an unterminated comment / pragma (an error token that runs to the end of the text) or a pragma over several lines
            cause = "unterminated-comment" if "Error" in mlk else "multiline-pragma"
        elif first is not None and first["doc"]["nk"] != reset["doc"]["nk"]:
            cause = "token-kinds-unstable"      # same token texts, but the lexer gives the glued text other kinds
        else:
            cause = "other"
        return "idempotence" + (":web" if b["via"] == "web" else "") + ":" + cause
    if why & {"tokens", "comments"}:
        if "Pragma" in mlk and "comments" in why:
            return pre + ":multiline-pragma"
        d = diff_class(pairs(reset["doc"]), pairs(ev["doc"]), reset["doc"]["cm"], ev["doc"]["cm"]) if "tokens" in why else "comments"
        if d.startswith("glue:"):
            d += "@" + effective_style(cfg)
        at = b.get("at", 0)
        src = pairs(reset["doc"])
        if "tokens" in why and 0 < at <= len(src) and src[at - 1][0] == "Error" and src[at - 1][1].startswith(("(*", "/*", "{")):
            d = "unterminated-comment-token"     # the text of an unterminated comment / pragma (it runs to the end of the text) was changed
        if (d.startswith("blanks-inside:") and in_var_block(reset, at) and 0 < at <= len(src)
                and ":" in src[at - 1][1] and src[at - 1][0] not in ("Assign", "Colon")):
            d = "colon-alignment-inside-token"   # a literal with a `:` in it on a continuation line of a VAR block declaration
        return pre + ":" + d
    if why == {"confinement"}:
        return pre + ":confinement"
    return pre + ":" + "+".join(sorted(why))


def shorten(ev, n=40):
    """A recorded event for the replay file: long token lists cut (the script reproduces them)."""
    def cut(v):
        if isinstance(v, list) and len(v) > n:
            return v[:n] + [f"... {len(v) - n} more"]
        if isinstance(v, dict):
            return {k: cut(x) for k, x in v.items()}
        return v
    return {k: cut(v) for k, v in ev.items()}


class Totals:
    def __init__(self):
        self.counts, self.by_src, self.summary = {}, {}, {"runs": 0, "events": 0, "died": 0, "hangs": 0, "requests": 0}
        self.nontrivial, self.nbad, self.keys, self.first, self.sample = set(), 0, {}, {}, None


def one_round(rep, work, sp, lsp, tot, name, single=False):
    """Execute the scripts of file sp on the real code, validate the trace, report rejected runs."""
    scripts = {}
    with open(sp) as f:
        for line in f:
            if line.strip():
                s = json.loads(line)
                scripts[s["id"]] = s
    if tot.sample is None and scripts:
        tot.sample = next(iter(scripts.values()))
    tr = work / "round.trace.ndjson"
    p = tpv(["format-run", "--scripts", sp, "--out", tr, "--lsp", lsp, "--work", work / "run", "--jobs", 8], timeout=5400)
    try:
        summary = json.loads([x for x in (p.stdout or "").splitlines() if x.startswith("{")][-1])
    except (IndexError, json.JSONDecodeError):
        raise ToolError(f"format-run printed no summary:\n{(p.stdout or '')[-2000:]}")
    if summary["runs"] != len(scripts):
        raise ToolError(f"{len(scripts)} scripts but {summary['runs']} recorded runs")
    for k in tot.summary:
        tot.summary[k] += summary[k]
    chunks = split_trace(tr, work, 1 if single else CHUNKS)
    with ThreadPoolExecutor(max_workers=CHUNKS) as ex:
        futs = [ex.submit(validate_trace, "FormatTrace", c["path"], tag=f"trace-c15-{i}", xmx="5g", timeout=3000)
                for i, c in enumerate(chunks)]
        verdicts = [f.result()[0] for f in futs]
    for c, v in zip(chunks, verdicts):
        if v["events"] != c["lines"] or v["runs"] != c["runs"]:
            raise ToolError(f"trace validation did not consume every event of {c['path']}")
        for k, n in v["counts"].items():
            tot.counts[k] = tot.counts.get(k, 0) + n
        lines = open(c["path"]).read().splitlines()
        for x in lines:
            if x.startswith('{"a":"Reset"'):
                r = json.loads(x)
                if len(r["doc"]["nt"]) >= 3:
                    tot.nontrivial.add(r["doc"]["dg"] + digest(scripts.get(r["id"], {}).get("cfg")))
        for b in v["bad"]:
            tot.nbad += 1
            why = sorted(b["why"])
            if any(w.startswith("trace:") for w in why):
                raise ToolError(f"recorded trace does not follow the run grammar at line {b['line']} of {c['path']}: {why}")
            first = b["line"] - 1
            while not lines[first].startswith('{"a":"Reset"'):
                first -= 1
            evs = [json.loads(x) for x in lines[first: b["line"]]]
            reset, ev = evs[0], evs[-1]
            sc = scripts.get(b["id"])
            key = classify(b, reset, ev, sc, evs)
            tot.keys[key] = tot.keys.get(key, 0) + 1
            text = (sc or {}).get("text", "")
            cfg = {k: x for k, x in (sc or {}).get("cfg", {}).items() if x != "unset"}
            at = b.get("at", 0)
            detail = ""
            if at and "doc" in ev:
                detail = f" tokens before {reset['doc']['nt'][max(0, at - 2): at + 2]} after {ev['doc']['nt'][max(0, at - 2): at + 2]}"
            elif ev["a"] in ("Died", "Hang", "Failed", "Panic"):
                detail = " " + str(ev.get("status", ev.get("msg", "")))
            if key not in tot.first:
                tot.first[key] = {"script_id": b["id"], "source": (sc or {}).get("src", "?"), "request": b["kind"], "via": b["via"], "on": b["on"] or "source",
                                  "why": why, "cfg": cfg, "text": text[:300],
                                  "tokens_before": reset["doc"]["nt"][max(0, at - 2): at + 3] if at else [],
                                  "tokens_after": ev["doc"]["nt"][max(0, at - 2): at + 3] if at and "doc" in ev else [],
                                  "detail": detail.strip()[:200] if not at else ""}
            rep.violation(key, {"script": sc, "why": why, "deviation": b["dev"], "round": name, "request": b["kind"], "via": b["via"],
                                "on": b["on"], "first_differing_token": at, "rejected_event": shorten(ev),
                                "trace": [shorten(e, 12) for e in evs[:-1]]},
                          f"{name} script {b['id']} ({(sc or {}).get('src', '?')}): {b['kind']} via {b['via']} on {b['on'] or 'source'} rejected: "
                          f"{', '.join(why)}{detail} cfg={json.dumps(cfg, sort_keys=True)} text={text[:160]!r}")
        c["path"].unlink()
        v_path = str(c["path"]) + ".verdict.json"
        if os.path.exists(v_path):
            os.unlink(v_path)
    for s in scripts.values():
        tot.by_src[s["src"]] = tot.by_src.get(s["src"], 0) + 1
    return summary


def run(prop, tier, replay):
    work = OUT / "c15"
    work.mkdir(parents=True, exist_ok=True)
    for old in work.glob("chunk*.trace.ndjson*"):
        old.unlink()
    # (read before Report() empties the replay directory the file may live in)
    replay_script = json.loads(open(replay).read())["replay"]["script"] if replay else None
    rep = Report(prop, tier, "exploration")
    build_harness()
    lsp = build_repo_bin("trust-lsp", "trust-lsp")
    mc, tot = {}, Totals()
    n_exported = n_simulated = 0
    if replay:
        sc = replay_script
        sp = work / "replay.scripts.ndjson"
        sp.write_text(json.dumps(sc) + "\n")
        one_round(rep, work, sp, lsp, tot, "replay", single=True)
    else:
        th = threading.Thread(target=model_check, args=(tier, mc))
        th.start()
        try:
            tl, n_exported, n_simulated = tlc_scripts(tier, work)
            n_random = 1200 if tier == "quick" else 40000
            allp = work / "all.scripts.ndjson"
            tpv(["format-gen", "--seed", seed(), "--runs", n_random, "--tlc", tl, "--out", allp], timeout=1800)
            with open(allp) as f:
                lines = [x for x in f if x.strip()]
            if len(lines) < n_exported // 2 + n_random // 2:
                raise ToolError(f"format-gen wrote only {len(lines)} scripts")
            for rnd, at in enumerate(range(0, len(lines), ROUND), 1):
                sp = work / "scripts.ndjson"
                with open(sp, "w") as f:
                    f.writelines(lines[at: at + ROUND])
                s = one_round(rep, work, sp, lsp, tot, f"round {rnd}")
                if tier != "quick":
                    log(f"C15 round {rnd}: {s['runs']} runs, {len(rep.violations)} violation(s) so far")
        finally:
            th.join()
        if "error" in mc:
            raise mc["error"]
    m = mc.get("mc", {})
    counts = tot.counts
    sample = tot.sample or {}
    cov = {
        "states": m.get("distinct", 1) or 1,
        "transitions": m.get("generated", 1) or 1,
        "model_depth": m.get("depth", 0),
        "model_action_coverage": mc.get("cov", {}),
        "deviation_models_refuted": sorted(mc.get("refuted", {})),
        "traces_validated_against_impl": tot.summary["runs"],
        "tlc_exported_scripts_replayed": n_exported + n_simulated,
        "tlc_exhaustive_scripts": n_exported,
        "tlc_simulated_scripts": n_simulated,
        "scripts_per_source": dict(sorted(tot.by_src.items())),
        "events_validated": tot.summary["events"],
        "requests_to_language_server": tot.summary["requests"],
        "requests_judged": counts.get("applied", 0) - counts.get("inconclusive", 0),
        "requests_inconclusive_unterminated_string": counts.get("inconclusive", 0),
        "range_requests": counts.get("ranges", 0),
        "on_type_requests": counts.get("ontype", 0),
        "web_ide_requests": counts.get("web", 0),
        "idempotence_checks": counts.get("idempotence", 0),
        "edits_judged": counts.get("edits", 0),
        "edits_cutting_a_token_not_judged_locally": counts.get("editsCut", 0),
        "tokens_compared": counts.get("tokens", 0),
        "server_deaths": tot.summary["died"], "server_hangs": tot.summary["hangs"],
        "rejected_events": tot.nbad,
        "rejected_events_per_key": dict(sorted(tot.keys.items())),
        "first_rejection_per_key": dict(sorted(tot.first.items())),
        "evaluations": counts.get("applied", 0) - counts.get("inconclusive", 0),
        "distinct_nontrivial": len(tot.nontrivial),
        "rule": "one evaluation = one request (formatting, rangeFormatting, onTypeFormatting, web IDE format_source; on the source or on "
                "the already formatted text) answered by the real code, its edits applied, both texts lexed by the real lexer and judged "
                "by FormatTrace; distinct = different (text, configuration) pairs by digest; non-trivial = at least 3 non-trivia tokens",
        "samples": [{"script": {k: (v if k != "text" else v[:200]) for k, v in sample.items()}}],
        "exhaustive": False,
    }
    return rep.finish(cov, assumptions=[
        "inputs are sampled: every text `a b` over 69 lexical atoms under both spacing styles (thorough: also `a b c` over 24 atoms), every "
        "sequence of up to 2 (thorough: 3) of 21 line templates with every whole-line range and on-type line (a sample of them for documents of more than 4 lines), TLC-simulated "
        "documents x configuration vectors, corpus / mutated / synthetic programs and soups; the claim over all texts is not decided",
        "texts hold no character outside the BMP and no CR that is not part of CR LF (how columns and lines are counted there is C14's subject)",
        "comments and pragmas are compared without the white space next to line breaks inside them and at their end; the same holds for a "
        "token that spans lines (unterminated comment) and for the end of a lexer error token (unterminated string literal)",
        "the order of comments relative to tokens is not compared (only the two sequences)",
        "an edit is judged locally (its new text holds exactly the tokens it replaces) only when neither end lies inside a token; the edit may "
        "cover more lines than the requested range (documented block expansion)",
        "tokens are compared by their text (keywords, as classified by the lexer, ASCII-case-insensitively); the lexer's kind of a token is "
        "reported but not compared (for some texts, e.g. `T#-`, it depends on what follows)",
        "a text with an unterminated string literal is exercised (a crash is still reported) but its token lists are not compared: where the "
        "lexer's error token ends there depends on the blanks and `$` that follow it (counted as inconclusive)",
        "a language server that stops answering is restarted and the script run once more alone before Hang is recorded",
    ])
