"""C12 — parsing is total and lossless (ParseSink).

Design-level TLC runs (MCParseSink: the sink discipline on every event stream the marker interface
can produce, forward-parent chains, trivia attachment, InsertTrivia), script generation (TLC export:
every class sequence up to a bound, single corpus mutations and insertions, a seeded simulation of
long soups / mutation lists; plus the seeded random generator of the harness), execution on the real
lexer / parser / tree in child processes, and trace validation against ParseSinkTrace.

The work is done in rounds (one script file, one trace, CHUNKS parallel validations each) so that
disk and memory stay bounded in the thorough tier."""
import json
import os
import threading
from concurrent.futures import ThreadPoolExecutor

from common import (OUT, Report, ToolError, build_harness, log, run_tlc, seed, tlc_printed, tpv,
                    validate_trace)

NEED_ACTIONS = ["DoPStart", "DoPStartNode", "DoPBump", "DoPComplete", "DoPFinishNode", "DoPPrecede", "DoPError", "DoPEnd",
                "DoStartNode", "DoToken", "DoFinishNode", "DoHole", "DoSinkEnd", "DoInsertTrivia"]
CHUNKS = 8
ROUND_RANDOM = 16000        # seeded random scripts per round
QUICK_RANDOM = 24000        # ... in the single round of the quick tier
ROUND_TLC = 30000           # TLC-exported scripts per round


def model_check(tier, result):
    """Both bounded instances of the design model; fills result (run in a thread next to the replay)."""
    try:
        mcs = []
        cfgs = ("MCParseSink", "MCParseSink_chains") if tier == "quick" else ("MCParseSink_thorough", "MCParseSink_chains_thorough")
        for cfg in cfgs:
            mcs.append(run_tlc("MCParseSink", cfg, workers=8, coverage=True, timeout=3000, tag=f"mc-c12-{cfg}"))
        cov = {}
        for m in mcs:
            for a, c in m.get("action_coverage", {}).items():
                cov[a] = cov.get(a, 0) + c
        for a in NEED_ACTIONS:
            if cov.get(a, 0) == 0:
                raise ToolError(f"vacuous model run: action {a} never taken ({cov})")
        result["mcs"], result["cov"] = mcs, cov
    except BaseException as ex:  # re-raised by the caller
        result["error"] = ex


def tlc_scripts(tier):
    """Abstract scripts exported by TLC: exhaustive for small bounds, simulated beyond."""
    bfs = run_tlc("MCParseSink", "GenParseSink_bfs" if tier == "quick" else "GenParseSink_bfs3", workers=1,
                  timeout=1800, tag="gen-c12-bfs")
    exported = tlc_printed(bfs["stdout"], "SCRIPT")
    n_sim = 1500 if tier == "quick" else 40000
    sim = run_tlc("MCParseSink", "GenParseSink_sim", workers=1, simulate=max(50, n_sim // 8), depth=45, seed_=seed(),
                  timeout=1800, tag="gen-c12-sim")
    seen, simulated = set(), []
    for s in tlc_printed(sim["stdout"], "SCRIPT"):
        k = json.dumps(s, sort_keys=True)
        if k not in seen:
            seen.add(k)
            simulated.append(s)
        if len(simulated) >= n_sim:
            break
    if len(exported) < 1000 or len(simulated) < n_sim // 2:
        raise ToolError(f"TLC exported only {len(exported)} + {len(simulated)} scripts")
    return exported, simulated


def split_trace(tr, work, k):
    """Cut the concatenated trace into k files at run boundaries (balanced by size).  Returns a list of
    {path, runs: [(first_line_in_chunk, script_id, text_digest)], lines}."""
    total = os.path.getsize(tr)
    limit = max(1, total // k + 1)
    chunks, cur, size = [], None, 0
    with open(tr) as f:
        for line in f:
            if '"a":"Reset"' in line:
                if cur is None or (size >= limit and len(chunks) < k):
                    if cur is not None:
                        cur["f"].close()
                    p = work / f"chunk{len(chunks) + 1}.trace.ndjson"
                    cur = {"path": p, "f": open(p, "w"), "runs": [], "lines": 0}
                    chunks.append(cur)
                    size = 0
                r = json.loads(line)
                cur["runs"].append((cur["lines"] + 1, r["id"], r["dg"]))
            if cur is None:
                raise ToolError("trace does not start with a Reset event")
            cur["f"].write(line)
            cur["lines"] += 1
            size += len(line)
    if cur is not None:
        cur["f"].close()
    return chunks


def shorten(ev, n=60):
    """A recorded event for the replay file: long arrays cut (the script reproduces them)."""
    out = {}
    for k, v in ev.items():
        if isinstance(v, list) and len(v) > n:
            out[k] = v[:n] + [f"... {len(v) - n} more"]
        else:
            out[k] = v
    return out


class Totals:
    def __init__(self):
        self.counts, self.by_src, self.summary = {}, {}, {"runs": 0, "skipped": 0, "aborts": 0, "hangs": 0, "flaky": 0}
        self.nontrivial, self.error_free, self.nbad, self.sample = set(), 0, 0, None


def one_round(rep, work, sp, tot, name, single=False):
    """Execute the scripts of file sp on the real code, validate the trace, report rejected runs."""
    scripts = {}
    with open(sp) as f:
        for line in f:
            if line.strip():
                s = json.loads(line)
                scripts[s["id"]] = s
    if tot.sample is None and scripts:
        tot.sample = next(iter(scripts.values()))
    tr = work / "round.trace.ndjson"
    p = tpv(["parse-run", "--scripts", sp, "--out", tr, "--jobs", 8], timeout=5400)
    try:
        summary = json.loads([x for x in (p.stdout or "").splitlines() if x.startswith("{")][-1])
    except (IndexError, json.JSONDecodeError):
        raise ToolError(f"parse-run printed no summary:\n{(p.stdout or '')[-2000:]}")
    if summary["runs"] + summary["skipped"] != len(scripts):
        raise ToolError(f"{len(scripts)} scripts but {summary['runs']} recorded runs and {summary['skipped']} skipped")
    for k in tot.summary:
        tot.summary[k] += summary[k]
    chunks = split_trace(tr, work, 1 if single else CHUNKS)
    with ThreadPoolExecutor(max_workers=CHUNKS) as ex:
        futs = [ex.submit(validate_trace, "ParseSinkTrace", c["path"], tag=f"trace-c12-{i}", xmx="5g", timeout=3000)
                for i, c in enumerate(chunks)]
        verdicts = [f.result()[0] for f in futs]
    for c, v in zip(chunks, verdicts):
        if v["events"] != c["lines"] or v["runs"] != len(c["runs"]):
            raise ToolError(f"trace validation did not consume every event of {c['path']}")
        for k, n in v["counts"].items():
            tot.counts[k] = tot.counts.get(k, 0) + n
        if v["bad"]:
            lines = open(c["path"]).read().splitlines()
            starts = [r[0] for r in c["runs"]]
            for b in v["bad"]:
                tot.nbad += 1
                evs = [json.loads(x) for x in lines[starts[b["run"] - 1] - 1: b["line"]]]
                ev = evs[-1]
                why = sorted(b["why"])
                if any(w.startswith("trace:") for w in why):
                    raise ToolError(f"recorded trace does not follow the run grammar at line {b['line']} of {c['path']}: {why}")
                key = "+".join(why)
                if ev["a"] == "Panic":
                    key += "@" + os.path.basename(ev.get("loc", "").split(":")[0])
                sc = scripts.get(b["id"])
                text = (sc or {}).get("text", "")
                detail = ev.get("msg", "") if ev["a"] == "Panic" else ev.get("status", "") if ev["a"] == "Abort" else ""
                rep.violation(key, {"script": sc, "why": why, "derived_text": b["derived"], "round": name,
                                    "rejected_event": shorten(ev), "trace": [shorten(e, 12) for e in evs[:-1]]},
                              f"{name} script {b['id']} ({(sc or {}).get('src', '?')}, {len(text.encode())} bytes): {ev['a']} event "
                              f"rejected: {', '.join(why)} {detail} input={text[:120]!r}")
        c["path"].unlink()
        v_path = str(c["path"]) + ".verdict.json"
        if os.path.exists(v_path):
            os.unlink(v_path)
    dg_of = {r[1]: r[2] for c in chunks for r in c["runs"]}
    with open(str(tr) + ".stats") as f:
        for x in f:
            if x.strip():
                s = json.loads(x)
                tot.error_free += 1 if s["ok"] else 0
                if s["nnt"] >= 3 and s["id"] in dg_of:
                    tot.nontrivial.add(dg_of[s["id"]])
    for s in scripts.values():
        tot.by_src[s["src"]] = tot.by_src.get(s["src"], 0) + 1
    return summary


def run(prop, tier, replay):
    work = OUT / "c12"
    work.mkdir(parents=True, exist_ok=True)
    for old in work.glob("chunk*.trace.ndjson*"):
        old.unlink()
    rep = Report(prop, tier, "exploration")
    build_harness()
    mc, tot = {}, Totals()
    n_exported = n_simulated = 0
    if replay:
        sc = json.loads(open(replay).read())["replay"]["script"]
        sp = work / "replay.scripts.ndjson"
        sp.write_text(json.dumps(sc) + "\n")
        one_round(rep, work, sp, tot, "replay", single=True)
    else:
        th = threading.Thread(target=model_check, args=(tier, mc))
        th.start()
        try:
            exported, simulated = tlc_scripts(tier)
            n_exported, n_simulated = len(exported), len(simulated)
            abstract = exported + simulated
            n_random = QUICK_RANDOM if tier == "quick" else 40 * ROUND_RANDOM
            rnd = 0
            while abstract or n_random > 0:
                rnd += 1
                part, abstract = abstract[:ROUND_TLC], abstract[ROUND_TLC:]
                # TLC's scripts first; random scripts join a round as long as it has room
                take = 0 if len(part) > ROUND_TLC // 2 else min(n_random, QUICK_RANDOM if tier == "quick" else ROUND_RANDOM)
                n_random -= take
                tl = work / "tlc_scripts.ndjson"
                with open(tl, "w") as f:
                    for s in part:
                        f.write(json.dumps(s) + "\n")
                sp = work / "scripts.ndjson"
                tpv(["parse-gen", "--seed", seed() * 1000 + rnd, "--runs", take, "--tlc", tl, "--out", sp]
                    + ([] if rnd == 1 else ["--no-corpus"]), timeout=1800)
                s = one_round(rep, work, sp, tot, f"round {rnd}")
                if tier != "quick":
                    log(f"C12 round {rnd}: {s['runs']} runs, {len(rep.violations)} violation(s) so far")
                if s["skipped"]:
                    break       # the code under test dies or hangs on too many inputs; enough evidence
        finally:
            th.join()
        if "error" in mc:
            raise mc["error"]
    mcs = mc.get("mcs", [])
    sample = tot.sample or {}
    counts = tot.counts
    cov = {
        "states": sum(m["distinct"] for m in mcs) or 1,
        "transitions": sum(m["generated"] for m in mcs) or 1,
        "model_depth": max([m["depth"] for m in mcs] or [0]),
        "model_action_coverage": mc.get("cov", {}),
        "traces_validated_against_impl": tot.summary["runs"],
        "tlc_exported_scripts_replayed": n_exported + n_simulated,
        "tlc_exhaustive_scripts": n_exported,
        "tlc_simulated_scripts": n_simulated,
        "scripts_per_source": dict(sorted(tot.by_src.items())),
        "texts_lexed": counts.get("lex", 0),
        "texts_parsed": counts.get("parse", 0),
        "tokens_checked": counts.get("tokens", 0),
        "purity_reparses": counts.get("reparse", 0),
        "purity_same_text_in_later_run": counts.get("again", 0),
        "trivia_insertions": counts.get("insert", 0),
        "trivia_shapes_compared": counts.get("shapes", 0),
        "trivia_insertions_inconclusive": counts.get("inconclusive", 0),
        "error_free_base_texts": tot.error_free,
        "aborts": tot.summary["aborts"], "hangs": tot.summary["hangs"],
        "not_reproducible_child_failures": tot.summary["flaky"], "scripts_skipped": tot.summary["skipped"],
        "rejected_events": tot.nbad,
        "evaluations": counts.get("parse", 0),
        "distinct_nontrivial": len(tot.nontrivial),
        "rule": "one evaluation = one text lexed and parsed by the real code and judged by ParseSinkTrace (base texts and "
                "texts produced by InsertTrivia); distinct = different base texts by digest; non-trivial = at least 3 "
                "non-trivia tokens",
        "samples": [{"script": {k: (v if k != "text" else v[:200]) for k, v in sample.items()}}],
        "exhaustive": False,
    }
    return rep.finish(cov, assumptions=[
        "inputs are sampled (all lexical-class sequences up to length 2 (quick) / 3 (thorough), TLC-simulated and random soups up to 40 "
        "atoms, mutated / truncated / spliced corpus programs, random unicode); totality over all UTF-8 strings is not decided",
        "nesting is exercised up to 200 statement / type levels and 500 expression levels on an 8 MiB stack with a 4 GiB "
        "address-space limit; deeper nesting is outside the stated depth",
        "the tree's text is compared with the input by length and SHA-256 digest; tree leaves are not required to coincide with lexer tokens",
        "InsertTrivia inserts ' ', '   ', LF, CRLF, '(* c *)' or '(**)' strictly between two adjacent tokens of an error-free text; an "
        "insertion after which the non-trivia tokens (kind and text) are no longer the same is counted as inconclusive, not judged",
        "zero-length tokens are accepted (contiguous and non-overlapping is all the property asks)",
        "a child process that dies or makes no progress for 20 s is re-run alone on the script it was working on; only a failure that "
        "repeats there (30 s without progress for one text) is recorded as Abort / Hang",
    ])
