"""C13 — HirDb: incremental analysis equals from-scratch analysis.
Design-level TLC run of MCHirDb (the bookkeeping invariants + three seeded slips that must make
them fail), script generation (every history up to a bound exported by TLC breadth-first, TLC
-simulate export seeded by VERIF_SEED, seeded random histories incl. arbitrary damaged contents),
execution on the real trust_hir::Database next to brand-new databases, trace validation against
HirDbTrace."""
import json
from concurrent.futures import ThreadPoolExecutor

from common import (OUT, Report, ToolError, build_harness, digest, log, read_ndjson, run_tlc, seed,
                    split_runs, tlc_printed, tpv, validate_trace)

KINDS = ["diagnostics", "analyze", "symbols", "types"]
NEED_ACTIONS = ["SetEqualText", "SetExistingInput", "SetNewInput", "RemovePresent", "RemoveAbsent", "DoQuery"]
SLIPS = ["Remove", "Add", "Edit"]
# what the property itself forbids; the two model(..) reasons alone mean that the specification's
# abstract analysis and BOTH databases disagree, which is not a statement about incrementality
PROPERTY_WHY = {"inc!=fresh", "fresh-load-order", "repeat-differs", "panic"}
CHUNK_EVENTS = 45000


def with_sweep(script):
    """Every history ends with the comparison of every query kind on every file."""
    s = dict(script)
    s["steps"] = list(script["steps"]) + [{"a": "Query", "kind": k, "f": f}
                                          for f in range(1, script["nfiles"] + 1) for k in KINDS]
    return s


def design_level(tier):
    mc = run_tlc("MCHirDb", "MCHirDb" if tier == "quick" else "MCHirDb_thorough", workers=8, coverage=True,
                 timeout=3000, tag="mc-c13")
    cov = mc.get("action_coverage", {})
    for a in NEED_ACTIONS:
        if cov.get(a, 0) == 0:
            raise ToolError(f"vacuous model run: action {a} never taken ({cov})")
    slips = {}
    for v in SLIPS:
        r = run_tlc("MCHirDb", f"MCHirDb_bad{v}", workers=4, timeout=900, allow_violation=True, tag=f"mc-c13-bad{v}")
        if "Invariant AnswerEqualsFresh is violated" not in r["stdout"]:
            raise ToolError(f"vacuity guard: the seeded slip Bad{v} does not violate AnswerEqualsFresh:\n" + r["stdout"][-2000:])
        slips[f"Bad{v}"] = "AnswerEqualsFresh violated (as required)"
    return mc, slips


def gen_scripts(tier, work):
    n_rand, n_sim, depth = (3000, 250, 18) if tier == "quick" else (20000, 1500, 18)
    rnd = work / "scripts_random.ndjson"
    tpv(["hirdb-gen", "--seed", seed(), "--runs", n_rand, "--out", rnd])
    random_scripts = read_ndjson(rnd)
    g = run_tlc("MCHirDb", "GenHirDb", workers=1, simulate=n_sim, depth=depth, seed_=seed(), timeout=1800, tag="gen-c13")
    sim = tlc_printed(g["stdout"], "SCRIPT")
    if len(sim) < n_sim:
        raise ToolError(f"TLC -simulate exported only {len(sim)} scripts")
    e = run_tlc("MCHirDb", "ExhHirDb" if tier == "quick" else "ExhHirDb_thorough", workers=1, timeout=1800, tag="exh-c13")
    exh = tlc_printed(e["stdout"], "SCRIPT")
    if len(exh) < (4096 if tier == "quick" else 65536):
        raise ToolError(f"TLC breadth-first export gave only {len(exh)} histories")
    seen, tlc_scripts = set(), []
    for src, lst in (("tlc-bfs", exh), ("tlc-simulate", sim)):
        for s in lst:
            h = digest(s)
            if h in seen:
                continue
            seen.add(h)
            s = with_sweep(s)
            s["from"] = src
            tlc_scripts.append(s)
    return random_scripts, tlc_scripts, len(exh)


def execute(scripts, work, name):
    sp = work / f"{name}.scripts.ndjson"
    with open(sp, "w") as f:
        for s in scripts:
            f.write(json.dumps(s) + "\n")
    tr = work / f"{name}.trace.ndjson"
    tpv(["hirdb-run", "--scripts", sp, "--out", tr, "--jobs", 12], timeout=3000)
    return tr


def validate_chunks(runs, work):
    """Validate the recorded runs with HirDbTrace, a bounded number of events per TLC pass."""
    chunks, cur, n = [], [], 0
    for i, r in enumerate(runs):
        if cur and n + len(r) > CHUNK_EVENTS:
            chunks.append(cur)
            cur, n = [], 0
        cur.append(i)
        n += len(r)
    if cur:
        chunks.append(cur)

    def one(ci):
        idx = chunks[ci]
        p = work / f"chunk{ci:03d}.trace.ndjson"
        with open(p, "w") as f:
            for i in idx:
                for ev in runs[i]:
                    f.write(json.dumps(ev) + "\n")
        nev = sum(len(runs[i]) for i in idx)
        verdict, _ = validate_trace("HirDbTrace", p, tag=f"trace-c13-{ci}", xmx="3g", timeout=2400)
        if verdict["events"] != nev or verdict["runs"] != len(idx):
            raise ToolError(f"trace validation did not consume chunk {ci}: {verdict['events']}/{nev} events, {verdict['runs']}/{len(idx)} runs")
        p.unlink()
        vp = work / f"chunk{ci:03d}.trace.ndjson.verdict.json"
        if vp.exists():
            vp.unlink()
        return ci, verdict

    out = {}
    with ThreadPoolExecutor(max_workers=4) as ex:
        for ci, v in ex.map(one, range(len(chunks))):
            out[ci] = v
    bad, nq, nmodel, nnames = [], 0, 0, 0
    for ci in sorted(out):
        v, idx = out[ci], chunks[ci]
        nq += v["queries"]
        nmodel += v["modelChecked"]
        nnames += v["namesJudged"]
        start = {}
        ln = 0
        for k, i in enumerate(idx):
            start[k + 1] = (i, ln)
            ln += len(runs[i])
        for b in v["bad"]:
            i, off = start[b["run"]]
            bad.append(dict(b, run_index=i, pos=b["line"] - off))     # pos: 1-based event position inside the run
    return bad, nq, nmodel, nnames, len(chunks)


def panic_site(msg):
    """file:line of a recorded panic, relative to the repository (narrow finding key)."""
    loc = msg.rsplit(" @ ", 1)[-1] if " @ " in msg else ""
    for marker in ("/crates/", "crates/"):
        if marker in loc:
            return "crates/" + loc.split(marker, 1)[1]
    return loc or "unknown-site"


def run(prop, tier, replay):
    work = OUT / "c13"
    work.mkdir(parents=True, exist_ok=True)
    rep = Report(prop, tier, "model_checking")
    build_harness()
    mc, slips, n_bfs = None, {}, 0
    if replay:
        random_scripts, tlc_scripts = [json.loads(open(replay).read())["replay"]["script"]], []
    else:
        mc, slips = design_level(tier)
        random_scripts, tlc_scripts, n_bfs = gen_scripts(tier, work)
    scripts = tlc_scripts + random_scripts
    tr = execute(scripts, work, "all")
    rows = read_ndjson(tr)
    runs = split_runs(rows)
    if len(runs) != len(scripts):
        raise ToolError(f"{len(scripts)} scripts but {len(runs)} recorded runs")
    bad, nq, nmodel, nnames, nchunks = validate_chunks(runs, work)
    abstraction_only = 0
    for b in bad:
        why = set(b["why"])
        ri, ev = b["run_index"], runs[b["run_index"]][b["pos"] - 1]
        if "presence" in why:
            raise ToolError(f"harness and specification disagree on which files exist (run {ri}, event {ev})")
        mine = why & PROPERTY_WHY
        if not mine:
            if why == {"model(incremental)", "model(fresh)"}:
                abstraction_only += 1
                continue
            raise ToolError(f"inconsistent recording: {sorted(why)} although the two databases agree (run {ri}, event {ev})")
        if "panic" in mine:
            key = f"panic@{ev.get('op')}:{ev.get('db')}:{panic_site(ev.get('msg', ''))}"
            summary = f"{ev.get('db')} database: {ev.get('op')} on file {ev.get('f')} did not return ({ev.get('msg', '')[:200]}) after {b['edit']}"
        else:
            key = "+".join(sorted(mine)) + f"@{b['kind']}:after-{b['edit']}"
            what = {"inc!=fresh": "the long-lived database's answer differs from a brand-new database's",
                    "fresh-load-order": "two brand-new databases loaded in ascending / descending file order disagree",
                    "repeat-differs": "repeating the query without an edit gave a different answer"}
            summary = (f"{b['kind']}(file {ev.get('f')}) after {b['edit']}: " + "; ".join(what[w] for w in sorted(mine))
                       + ("; the specification's answer function sides with the brand-new database" if "model(fresh)" not in why and "model(incremental)" in why else ""))
        rep.violation(key, {"script": scripts[ri], "why": sorted(why), "rejected_event": ev, "last_edit": b["edit"],
                            "trace": runs[ri][: b["pos"]]}, f"run {ri + 1} ({scripts[ri].get('from')}): {summary}")
    if abstraction_only:
        log(f"NOTE {prop}: in {abstraction_only} run(s) the specification's abstract analysis disagrees with BOTH the long-lived and the "
            "brand-new database (which agree with each other); this says nothing about incrementality and is not reported as a violation")

    def nontrivial(r):
        # at least one effective edit followed by a query on a populated database
        edited = False
        for e in r[1:]:
            if e["a"] in ("Set", "Remove"):
                edited = True
            elif e["a"] == "Query" and edited and e.get("present"):
                return True
        return False

    queries = [e for e in rows if e["a"] == "Query"]
    per_kind = {k: sum(1 for e in queries if e["kind"] == k) for k in KINDS}
    cov = {
        "states": (mc or {}).get("distinct", 1) or 1,
        "transitions": (mc or {}).get("generated", 1) or 1,
        "model_depth": (mc or {}).get("depth", 0),
        "model_action_coverage": (mc or {}).get("action_coverage", {}),
        "seeded_slips_rejected_by_model": slips,
        "traces_validated_against_impl": len(runs),
        "tlc_bfs_histories_replayed": sum(1 for s in scripts if s.get("from") == "tlc-bfs"),
        "tlc_bfs_histories_exported": n_bfs,
        "tlc_simulate_scripts_replayed": sum(1 for s in scripts if s.get("from") == "tlc-simulate"),
        "random_scripts_replayed": len(random_scripts),
        "scripts_with_arbitrary_damaged_contents": sum(1 for s in scripts if any(c.get("opaque") for c in s["cat"])),
        "events_validated": len(rows),
        "trace_validation_passes": nchunks,
        "queries_compared_with_two_fresh_databases": nq,
        "queries_also_matching_the_model_answer": nmodel,
        "name_observations_pinned_down_by_the_model": nnames,
        "queries_per_kind": per_kind,
        "queries_on_absent_files": sum(1 for e in queries if not e.get("present")),
        "panics_recorded": sum(1 for e in rows if e["a"] == "Panic"),
        "model_disagrees_with_both_databases": abstraction_only,
        "rejected_runs": len(bad),
        "evaluations": nq,
        "distinct_nontrivial": len({digest(s) for s, r in zip(scripts, runs) if nontrivial(r)}),
        "rule": "one evaluation = one Query event: the answer of the long-lived database after the scripted history, compared (==) with the "
                "answers of two brand-new databases (ascending / descending load order), with its own repetition, and with the "
                "specification's answer function; distinct = different script (catalogue + history) by hash; non-trivial = the history "
                "has at least one set/remove before a query on an existing file",
        "samples": [scripts[0], (queries[len(queries) // 2] if queries else None)],
        "exhaustive": False,
    }
    if not replay:
        # the path-keyed front (Project / SourceRegistry): key -> id must stay an injection through every history
        mc2 = run_tlc("MCSourceRegistry", "MCSourceRegistry", workers=2, timeout=600, tag="mc-c13-registry")
        neg = run_tlc("MCSourceRegistry", "MCSourceRegistry_reuse", workers=2, timeout=600, allow_violation=True, tag="mc-c13-registry-neg")
        if "Invariant Injective is violated" not in neg["stdout"]:
            raise ToolError("the deviation MCSourceRegistry_reuse does not violate Injective:\n" + neg["stdout"][-1500:])
        ptr = work / "projreg.ndjson"
        tpv(["projreg-run", "--seed", seed(), "--runs", 300 if tier == "quick" else 6000, "--out", ptr], timeout=3000)
        prow = read_ndjson(ptr)
        pver, _ = validate_trace("SourceRegistryTrace", ptr, tag="trace-c13-registry", timeout=1800)
        if pver["events"] != len(prow):
            raise ToolError("SourceRegistryTrace did not consume every event")
        pruns = split_runs(prow)
        for b in pver["bad"]:
            why = "+".join(sorted(b["why"]))
            rep.violation(f"project-registry:{why}", {"project_registry": True, "seed": seed(), "why": b["why"], "trace": pruns[b["run"] - 1][: 40]},
                          f"Project history (run {b['run']}): {why} at {json.dumps(prow[b['line'] - 1])[:200]}")
        cov.update({"project_registry_histories": len(pruns), "project_registry_steps": pver["steps"], "project_registry_rejected": len(pver["bad"]),
                    "source_registry_model_states": mc2.get("distinct", 0)})
    rc = rep.finish(cov, assumptions=[
        "the reference is a brand-new Database loaded with the same (FileId -> text) map under the same FileIds; it is loaded in ascending "
        "and in descending FileId order and both must agree with the long-lived database (each load order is itself a history)",
        "answers are compared with the types' own PartialEq (Vec<Diagnostic>, SymbolTable, FileAnalysis, (offset, expr id, TypeId) at every "
        "third byte offset and at every scripted call); digests in the trace are informative only",
        "model oracle: a referenced name is resolved iff some file of the project declares it (observed through the diagnostic CODES "
        "UndefinedFunction/UndefinedType/UndefinedVariable/CannotResolve at the reference); where several files declare a name with "
        "different types, any of the declared types is accepted; the type reported for a call of an undeclared function and everything "
        "next to an arbitrary (damaged) content is unconstrained by the model and decided by the differential comparison alone",
        "a disagreement between the model's abstract analysis and BOTH databases is counted, not reported (it is not about incrementality)",
        "salsa's own dependency tracking is trusted relative to the inputs it is given (HirDb.tla models memo reuse by value of what was read)",
        "arbitrary contents are small (damaged renderings of the scripted texts, < 1 KiB); deep nesting / huge inputs are the business of C12",
    ])
    # the replay files carry everything needed to reproduce a rejection; large scratch files go
    for p in (tr, work / "all.scripts.ndjson", work / "scripts_random.ndjson"):
        if p.exists() and p.stat().st_size > 64 << 20:
            p.unlink()
    return rc
