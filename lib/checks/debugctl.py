"""C17 — DebugControl: exhaustive interleavings on the model (TLC, incl. liveness under weak
fairness of the cycle thread) + two real threads on the real DebugControl / Runtime, whose own
ST_DEBUG_TRACE lines are validated against the nondeterministic trace specification."""
import json

from checks.dapstop import dap_stage
from common import (OUT, Report, ToolError, build_harness, digest, read_ndjson, run_tlc, seed, split_runs,
                    tpv, validate_trace)


def validate(runs, work, tag):
    """Returns (accepted_runs, rejected [(run, event_index_in_run, event)])."""
    rejected = []
    states = 0
    live = list(runs)
    for attempt in range(12):
        if not live:
            break
        tr = work / f"val{attempt}.ndjson"
        with open(tr, "w") as f:
            for r in live:
                for e in r:
                    f.write(json.dumps(e) + "\n")
        total = sum(len(r) for r in live)
        verdict, res = validate_trace("DebugControlTrace", tr, dfs=True, tag=f"{tag}-{attempt}")
        states += res["distinct"]
        if verdict["events"] != total:
            raise ToolError("trace length mismatch")
        if verdict["consumed"] >= total:
            return live, rejected, states
        # first unconsumed event (1-based consumed+1) -> which run
        k = verdict["consumed"]  # 0-based index of the first unmatched event
        acc = 0
        for i, r in enumerate(live):
            if k < acc + len(r):
                rejected.append((r, k - acc, r[k - acc]))
                live = live[:i] + live[i + 1:]
                break
            acc += len(r)
    else:
        # many runs rejected: report the ones isolated so far; the remainder stays unvalidated
        return [], rejected, states
    return live, rejected, states


def run(prop, tier, replay):
    work = OUT / "c17"
    work.mkdir(parents=True, exist_ok=True)
    rep = Report(prop, tier, "model_checking")
    build_harness()
    mc = {"distinct": 0, "generated": 0}
    if replay and json.loads(open(replay).read())["replay"].get("stage") == "dap":
        # a violation of the DAP adapter stage: re-validate the recorded run only
        dap = dap_stage(rep, tier, work / "dap", replay_run=json.loads(open(replay).read())["replay"]["trace"])
        return rep.finish(dict(dap, states=dap["dap_trace_validation_states"] or 1, transitions=1, evaluations=1, exhaustive=False))
    if replay:
        runs = [json.loads(open(replay).read())["replay"]["trace"]]
    else:
        mc = run_tlc("MCDebugControl", "MCDebugControl" if tier == "quick" else "MCDebugControl_thorough", workers=8,
                     timeout=3000, tag="mc-c17")
        nruns = 400 if tier == "quick" else 4000
        tr = work / "trace.ndjson"
        p = tpv(["debug-run", "--seed", seed(), "--runs", nruns, "--log", work / "runtime-trace.log", "--out", tr], timeout=3000)
        runs = split_runs(read_ndjson(tr))
        if len(runs) != nruns:
            raise ToolError(f"{nruns} runs requested, {len(runs)} recorded")
    accepted, rejected, tstates = validate(runs, work, "trace-c17")
    for r, k, ev in rejected:
        if ev["a"] == "Wedge":
            key = "wedge:cycle-thread-did-not-finish-after-continue"
        elif ev["a"] == "Final":
            key = "final:" + ("state-differs-from-undebugged-run" if not ev.get("same", True) else "statements-skipped-or-repeated")
        else:
            key = f"unexplained:{ev['a']}:" + "+".join(ev.get("stops", []) or [ev.get("kind", "")])
        rep.violation(key, {"trace": r, "first_unmatched_event_index": k, "event": ev},
                      f"{r[0]['mode']} run: event {k} ({ev['a']}) is not a step of DebugControl: {json.dumps(ev)[:200]}")
    # second stage: the DAP adapter layer (StopCoordinator, run-control handlers); keys prefixed "dap:"
    dap = {} if replay else dap_stage(rep, tier, work / "dap")
    allrows = [e for r in runs for e in r]
    stops = sum(len(e.get("stops", [])) for e in allrows)
    waits = sum(1 for e in allrows if e.get("end") == "wait")
    cov = {
        "states": mc["distinct"] + tstates or 1, "transitions": mc["generated"] or 1,
        "model_states": mc["distinct"], "trace_validation_states": tstates,
        "traces_validated_against_impl": len(accepted),
        "runs": len(runs), "runs_runtime_mode": sum(1 for r in runs if r[0]["mode"] == "runtime"),
        "events_validated": sum(len(r) for r in accepted), "stops_observed": stops, "hook_waits_observed": waits,
        "adapter_commands": sum(1 for e in allrows if e["a"] in ("Adapter", "SetBps")),
        "evaluations": len(runs),
        "distinct_nontrivial": len({digest(r) for r in runs if any(e.get("end") == "wait" for e in r)}),
        "rule": "one evaluation = one two-thread run (statement thread vs. controller thread, seeded random commands and delays, "
                "OS-chosen interleaving); distinct by event-sequence hash; non-trivial = the hook waited at least once",
        "samples": [runs[0][:12]],
        "exhaustive": False,
    }
    cov.update(dap)
    from checks.dbgep import endpoint_stage
    cov.update(endpoint_stage(rep, tier, work, "debug"))
    return rep.finish(cov, assumptions=[
        "the runtime's ST_DEBUG_TRACE lines are emitted under the DebugState mutex (linearization points); a line that no longer parses is a tool error",
        "which breakpoint set a SetBreakpoints call installed and when set_current_thread ran are not logged: TLC infers them",
        "StepIn issued while running, Breakpoint stops inside a callee during step-over/out: not constrained (see DESIGN C17)",
        "liveness (NoWedge) is checked on the model; on the code a run counts as wedged only after 30 s of repeated Continue",
        "DAP stage: the adapter's transcript and the runtime's trace lines share one O_APPEND file, whose order is taken as the order of the logged critical sections; "
        "the pause_expected accesses, the pause handler's look at the mode and the generation comparison are not logged: TLC places them",
        "DAP stage: NoLostStop / NoStoppedAfterResume are demanded of clients that resume only what was reported stopped (pause and setBreakpoints at any time); "
        "hostile request sequences are judged on answers, duplicates, the coordinator's decision rule, resumption and exit only",
        "DAP stage: the stop gate leaves no trace and is checked on the model only; a request counts as unanswered / a pause as not honoured after 20 s"])
