"""C04 — standard function blocks: MCStdFb (machines = history definitions, bounds, saturation,
independence) + TLC-exported and seeded random call scripts executed through the public step
structs and through an ST program on the real runtime, validated against StdFbTrace."""
import json

from common import (OUT, Report, ToolError, build_harness, digest, read_ndjson, run_tlc, seed,
                    split_runs, tlc_printed, tpv, validate_trace)


def run(prop, tier, replay):
    work = OUT / "c04"
    work.mkdir(parents=True, exist_ok=True)
    rep = Report(prop, tier, "model_checking")
    build_harness()
    mcs = []
    if replay:
        scripts = [json.loads(open(replay).read())["replay"]["script"]]
    else:
        for cfg in (["MCStdFb_quick", "MCStdFb_indep"] if tier == "quick" else ["MCStdFb_thorough", "MCStdFb_indep"]):
            mcs.append(run_tlc("MCStdFb", cfg, workers=8, timeout=3000, tag=cfg))
        n_rand, n_sim = (1500, 400) if tier == "quick" else (20000, 6000)
        rnd = work / "scripts_random.ndjson"
        tpv(["fb-gen", "--seed", seed(), "--runs", n_rand, "--out", rnd])
        scripts = read_ndjson(rnd)
        g = run_tlc("MCStdFb", "GenStdFb", workers=1, simulate=n_sim, depth=8, seed_=seed(), timeout=1200, tag="gen-c04")
        exported = tlc_printed(g["stdout"], "SCRIPT")
        if len(exported) < n_sim // 2:
            raise ToolError(f"TLC exported only {len(exported)} scripts")
        for e in exported:
            for via in ("struct", "st"):
                scripts.append({"kind": e["kind"], "via": via, "ctype": "INT", "hasLo": True, "lo": -32768,
                                "hasHi": True, "hi": 32767, "steps": e["steps"], "from": "tlc"})
    sp = work / "all.scripts.ndjson"
    with open(sp, "w") as f:
        for s in scripts:
            f.write(json.dumps(s) + "\n")
    tr = work / "all.trace.ndjson"
    tpv(["fb-run", "--scripts", sp, "--out", tr], timeout=1800)
    rows = read_ndjson(tr)
    runs = split_runs(rows)
    if len(runs) != len(scripts):
        raise ToolError(f"{len(scripts)} scripts but {len(runs)} recorded runs")
    verdict, _ = validate_trace("StdFbTrace", tr, tag="trace-c04")
    if verdict["events"] != len(rows):
        raise ToolError("trace validation did not consume every event")
    for b in verdict["bad"]:
        ri = b["run"] - 1
        key = f"{b['kind']}:{b['class']}"
        start = sum(len(r) for r in runs[:ri])
        rep.violation(key, {"script": scripts[ri], "why": b["why"], "trace": runs[ri][: b["line"] - start],
                            "rejected_event": rows[b["line"] - 1]},
                      f"run {b['run']} ({b['kind']} via {b['via']}): outputs {', '.join(b['why'])} differ from the IEC definition ({b['class']})")
    kinds = {}
    for r in runs:
        k = (r[0]["kind"], r[0]["via"])
        kinds[k] = kinds.get(k, 0) + 1
    cov = {
        "states": sum(m["distinct"] for m in mcs) or 1,
        "transitions": sum(m["generated"] for m in mcs) or 1,
        "traces_validated_against_impl": len(runs),
        "calls_validated": verdict["calls"],
        "inconclusive_calls": verdict["inconclusive"],
        "runs_per_kind_and_path": {f"{k[0]}/{k[1]}": v for k, v in sorted(kinds.items())},
        "evaluations": len(runs),
        "distinct_nontrivial": len({digest(s) for s in scripts if len(s["steps"]) >= 3}),
        "rule": "one evaluation = one call script (two interleaved instances of one block kind, up to 14 calls) executed on the real "
                "code and validated call by call; distinct by script hash; non-trivial = at least 3 calls",
        "samples": [scripts[0], runs[0][1] if len(runs[0]) > 1 else None],
        "exhaustive": False,
    }
    return rep.finish(cov, assumptions=[
        "1 tick = 1 ms; PT/dt within 32-bit ms; LINT/ULINT/UDINT upper saturation bounds are outside TLC's integers and not exercised",
        "ET is compared only where the property constrains it (<= PT always; exact while timing)",
        "first call of F_TRIG with CLK = FALSE accepted either way"])
