"""C19 — web IDE file API: WebIde model (path confinement of the designed admission check over every
path shape; every interleaving of the three-phase optimistic write with roles, expiry, write-disabled
mode; the racy / parent-only variants must fail) + conformance of the real WebIdeState:
 (a)/(b) model-enumerated and seeded random path shapes x every file operation x session kinds on a
         sentinel tree built from the model's tree, snapshots before/after, validated by WebIdeTrace;
 (c)     TLC-exported and random sequential request scripts and free-running multi-threaded runs on one
         file, call histories validated by WebIdeHistTrace (linearizability against the model)."""
import json
import re

from common import (OUT, Report, ToolError, build_harness, digest, log, read_ndjson, run_tlc, seed,
                    split_runs, tlc_printed, tpv, validate_trace)

NEED_ACTIONS = ["BeginOpen", "Next", "ReadDisk", "CommitOpen", "CommitWrite", "FinishWrite", "Expire", "ExternalEdit"]
OUTSIDE = {"effect-outside", "read-outside", "admitted-escaping-path"}
HIDDEN = {"effect-hidden", "read-hidden"}


def model_checks(tier):
    th = "" if tier == "quick" else "_thorough"
    res = {}
    res["interleavings"] = run_tlc("MCWebIde", "MCWebIde" + th, workers=8, timeout=3000, tag="mc-c19")
    res["roles"] = run_tlc("MCWebIde", "MCWebIde_roles" + th, workers=8, timeout=3000, coverage=True, tag="mc-c19-roles")
    cov = res["roles"].get("action_coverage", {})
    for a in NEED_ACTIONS:
        if cov.get(a, 0) == 0:
            raise ToolError(f"vacuous model run: action {a} never taken ({cov})")
    racy = run_tlc("MCWebIde", "MCWebIde_racy", workers=1, timeout=600, allow_violation=True, tag="mc-c19-racy")
    if "NoLostUpdate is violated" not in racy["stdout"]:
        raise ToolError("vacuity guard: the racy variant (version compared at the unlocked read) does not violate NoLostUpdate:\n"
                        + racy["stdout"][-1500:])
    paths = run_tlc("MCWebIde", "MCWebIde_paths" + th, workers=1, timeout=3000, tag="mc-c19-paths")
    m = re.search(r'<<"PATHS", (\d+)>>', paths["stdout"])
    if not m:
        raise ToolError("MCWebIde_paths printed no path count")
    res["paths_checked"] = int(m.group(1))
    po = run_tlc("MCWebIde", "MCWebIde_parentonly", workers=1, timeout=600, allow_violation=True, tag="mc-c19-parentonly")
    esc = tlc_printed(po["stdout"], "ESCAPES")
    if not esc or ["open", ["flink.st"]] not in esc[0] or "PathsHold" not in po["stdout"]:
        raise ToolError("vacuity guard: the parent-only admission check does not let open(flink.st) escape in the model:\n"
                        + po["stdout"][-1500:])
    res["parent_only_escapes"] = len(esc[0])
    return res


def generate(tier, work):
    g = run_tlc("MCWebIde", "GenWebIdePaths" if tier == "quick" else "GenWebIdePaths_thorough", workers=1, timeout=1200, tag="gen-c19-paths")
    trees = tlc_printed(g["stdout"], "TREE")
    if len(trees) != 1:
        raise ToolError("the model did not export its tree")
    model_paths = [{"kind": "path", "path": s["path"], "from": "tlc"} for s in tlc_printed(g["stdout"], "SCRIPT")]
    if len(model_paths) < 700:
        raise ToolError(f"TLC exported only {len(model_paths)} path shapes")
    n_paths, n_sim, n_seq, n_conc = (1200, 120, 120, 60) if tier == "quick" else (9000, 1500, 1500, 300)
    rp = work / "random_paths.ndjson"
    tpv(["webide-gen", "--kind", "paths", "--seed", seed(), "--runs", n_paths, "--out", rp])
    path_scripts = [{"kind": "list"}] + model_paths + read_ndjson(rp)
    s = run_tlc("MCWebIde", "GenWebIde", workers=1, simulate=n_sim, depth=100, seed_=seed(), timeout=1200, tag="gen-c19-seq")
    exported = tlc_printed(s["stdout"], "SCRIPT")
    if len(exported) < n_sim // 2:
        raise ToolError(f"TLC exported only {len(exported)} request scripts")
    names = {"a": 1, "b": 2, "v": 3}
    hist_scripts = []
    for e in exported:
        hist_scripts.append({"kind": "seq", "roles": ["editor", "editor", "viewer"], "pad": 0, "from": "tlc",
                             "steps": [{"a": st["a"], "s": names.get(st["s"], 0), "we": st["we"], "stale": st["stale"]} for st in e["steps"]]})
    rs, rc = work / "random_seq.ndjson", work / "random_conc.ndjson"
    tpv(["webide-gen", "--kind", "seq", "--seed", seed(), "--runs", n_seq, "--out", rs])
    tpv(["webide-gen", "--kind", "conc", "--seed", seed(), "--runs", n_conc, "--out", rc])
    hist_scripts += read_ndjson(rs) + read_ndjson(rc)
    return trees[0], path_scripts, hist_scripts, len(model_paths), len(exported)


def execute(tree, scripts, work, name, http=False):
    tp = work / "tree.json"
    tp.write_text(json.dumps(tree))
    sp = work / f"{name}.scripts.ndjson"
    with open(sp, "w") as f:
        for s in scripts:
            f.write(json.dumps(s) + "\n")
    tr = work / f"{name}.trace.ndjson"
    p = tpv(["webide-run", "--tree", tp, "--scripts", sp, "--out", tr, "--work", work / "sb", "--jobs", 8] + (["--http"] if http else []), timeout=3000, check=False)
    if p.returncode != 0:
        raise ToolError(f"webide-run failed ({p.returncode}):\n{(p.stdout or '')[-3000:]}")
    return tr


def path_keys(b):
    """The narrow classes a rejected path / listing event belongs to."""
    why = set(b["why"])
    keys = []
    if "panic" in why:
        keys.append(f"panic:{b['op']}")
    causes = [c for c in b["cause"].split("+") if c] or ["unknown"]
    if why & OUTSIDE:
        keys += [f"escape:{c}:{b['op']}" for c in causes]
    if why & HIDDEN:
        keys += [f"hidden:{c}:{b['op']}" for c in causes]
    if "mutation-without-write-access" in why:
        keys.append(f"nowrite:{b['sk'] if b['sk'] != 'editor' else 'write-disabled'}:{b['op']}")
    return keys or ["unexplained:" + b["op"]]


def validate_chunks(runs, work, size=1500):
    """WebIdeTrace over the recorded path runs, in chunks validated side by side (the `bad` sequence is part
    of the trace specification's state, so one huge trace with many rejections gets slow)."""
    from concurrent.futures import ThreadPoolExecutor
    chunks = [runs[i:i + size] for i in range(0, len(runs), size)]

    def one(ci):
        tr = work / f"paths.val{ci}.ndjson"
        with open(tr, "w") as f:
            for r in chunks[ci]:
                for ev in r:
                    f.write(json.dumps(ev) + "\n")
        try:
            return validate_trace("WebIdeTrace", tr, tag=f"trace-c19-paths-{ci}", timeout=3000, xmx="3g")
        finally:
            tr.unlink(missing_ok=True)
    with ThreadPoolExecutor(max_workers=4) as ex:
        results = list(ex.map(one, range(len(chunks))))
    verdict = {"runs": 0, "calls": 0, "events": 0, "bad": []}
    tl = {"distinct": 0, "generated": 0}
    run0 = line0 = 0
    for (v, r), ch in zip(results, chunks):
        if v["runs"] != len(ch):
            raise ToolError("run count mismatch in path trace validation")
        for b in v["bad"]:
            verdict["bad"].append(dict(b, run=b["run"] + run0, line=b["line"] + line0))
        verdict["runs"] += v["runs"]
        verdict["calls"] += v["calls"]
        verdict["events"] += v["events"]
        tl["distinct"] += r["distinct"]
        tl["generated"] += r["generated"]
        run0 += len(ch)
        line0 += sum(len(x) for x in ch)
    return verdict, tl


def check_paths(rep, tree, scripts, work, http=False):
    tr = execute(tree, scripts, work, "paths-http" if http else "paths", http)
    rows = read_ndjson(tr)
    runs = split_runs(rows)
    if len(runs) != len(scripts):
        raise ToolError(f"{len(scripts)} path scripts but {len(runs)} recorded runs")
    if any(r.get("a") == "ToolError" for r in rows):
        raise ToolError("harness error: " + json.dumps(next(r for r in rows if r.get("a") == "ToolError")))
    verdict, tl = validate_chunks(runs, work)
    if verdict["events"] != len(rows):
        raise ToolError("trace validation did not consume every event")
    per_key = {}
    for b in verdict["bad"]:
        ri = b["run"] - 1
        ev = rows[b["line"] - 1]
        for key in path_keys(b):
            per_key[key] = per_key.get(key, 0) + 1
            if per_key[key] > 4:
                continue
            rep.violation(key, {"kind": "path", "http": http, "script": scripts[ri], "tree": tree, "concrete_path": runs[ri][0].get("str"),
                                "rejected_event": ev, "why": b["why"], "model_landing_zone": b["land"], "model_cause": b["cause"]},
                          f"{'over HTTP: ' if http else ''}{b['op']}({runs[ri][0].get('str')!r}) as {b['sk']}{'' if b['we'] else ' (write-disabled)'} -> "
                          f"{ev.get('kind')}: {', '.join(b['why'])}; changed {json.dumps(ev.get('changed'))} leaked {json.dumps(ev.get('leaked'))}")
    return rows, runs, verdict, tl, per_key


def validate_hist(runs, work):
    """WebIdeHistTrace over the recorded histories, 300 runs at a time: the runs of one file are ONE behaviour of the
    trace specification, and TLC handles behaviours of at most 65 535 states (the thorough tier records more events)."""
    rejected, states = [], 0
    for c0 in range(0, len(runs), 300):
        r, s = validate_hist_chunk(runs[c0:c0 + 300], work)
        rejected += [(c0 + k, stuck) for k, stuck in r]
        states += s
    return rejected, states


def validate_hist_chunk(runs, work):
    rejected, states, live = [], 0, list(range(len(runs)))
    for attempt in range(25):
        if not live:
            break
        tr = work / f"hist.val{attempt}.ndjson"
        with open(tr, "w") as f:
            for k in live:
                f.write(json.dumps(runs[k]) + "\n")
        try:
            verdict, res = validate_trace("WebIdeHistTrace", tr, tag=f"trace-c19-hist-{attempt}", timeout=3000)
        finally:
            tr.unlink(missing_ok=True)
        states += res["distinct"]
        if verdict["runs"] != len(live):
            raise ToolError("run count mismatch in history validation")
        if verdict["explained"] >= len(live):
            return rejected, states
        k = verdict["explained"]
        rejected.append((live[k], verdict["stuck"]))
        live = live[k + 1:]            # the runs before it are explained already
    else:
        # many histories rejected: report the ones isolated so far (the remainder stays unvalidated)
        return rejected, states
    return rejected, states


def hist_key(run, stuck):
    ev = run["ev"]
    e = ev[stuck - 1] if 0 < stuck <= len(ev) else {"a": "?"}
    if e["a"] == "Abort":
        return "abort:history", e
    if e["a"] == "Final":
        return "history:final-content-is-not-the-last-successful-write", e
    if e["a"] == "E":
        b = next((x for x in ev if x.get("a") == "B" and x.get("e") == stuck), {})
        role = run["roles"][b["s"] - 1] if b else "?"
        expired = any(x.get("a") == "Expire" and x.get("s") == e["s"] for x in ev[:stuck])
        if e["kind"] == "panic":
            return f"panic:{b.get('op')}", e
        if b.get("op") == "write" and e["ok"]:
            who = ("write-disabled" if not b["we"] else "expired" if expired else role if role != "editor" else "stale-version-or-lost-update")
            return f"history:write-accepted:{who}", e
        if b.get("op") == "write":
            return f"history:write-{e['kind']}-unexplained", e
        return f"history:open-{e['kind']}-unexplained", e
    return "history:unexplained", e


def check_hist(rep, tree, scripts, work, http=False):
    tr = execute(tree, scripts, work, "hist-http" if http else "hist", http)
    runs = read_ndjson(tr)
    if len(runs) != len(scripts):
        raise ToolError(f"{len(scripts)} history scripts but {len(runs)} recorded runs")
    for r in runs:
        for e in r["ev"]:
            if e.get("a") == "ToolError":
                raise ToolError("harness error: " + json.dumps(e))
    rejected, states = validate_hist(runs, work)
    inconclusive = 0
    for k, stuck in rejected:
        run = runs[k]
        if any(e.get("a") == "E" and e.get("content", 0) >= 9000 for e in run["ev"]):
            inconclusive += 1        # a torn (partial) read was recorded: what other readers saw of it is not observable
            continue
        key, e = hist_key(run, stuck)
        rep.violation(key, {"kind": "hist", "http": http, "script": scripts[k], "tree": tree, "run": run, "stuck_at_event": stuck, "event": e},
                      f"{'over HTTP: ' if http else ''}{run['kind']} history of {len(run['roles'])} sessions: no ordering of the model's steps explains event #{stuck} {json.dumps(e)}")
    return runs, rejected, states, inconclusive


def run(prop, tier, replay):
    work = OUT / "c19"
    work.mkdir(parents=True, exist_ok=True)
    # read the replay file first: Report() clears out/replay/<id>/, where it usually lives
    ro = json.loads(open(replay).read())["replay"] if replay else None
    rep = Report(prop, tier, "model_checking")
    build_harness()
    if replay:
        tree = ro["tree"]
        if ro["kind"] == "hist":
            runs, rejected, states, inconclusive = check_hist(rep, tree, [ro["script"]], work, ro.get("http", False))
            return rep.finish({"states": states or 1, "transitions": 1, "traces_validated_against_impl": len(runs) - len(rejected),
                               "evaluations": 1, "distinct_nontrivial": 1, "rule": "replay of one stored script", "samples": [ro["script"]]})
        rows, runs, verdict, tl, per_key = check_paths(rep, tree, [ro["script"]], work, ro.get("http", False))
        return rep.finish({"states": tl["distinct"] or 1, "transitions": tl["generated"] or 1, "traces_validated_against_impl": len(runs),
                           "evaluations": verdict["calls"], "distinct_nontrivial": 1, "rule": "replay of one stored script",
                           "samples": [ro["script"]], "rejected_by_key": per_key})
    mc = model_checks(tier)
    tree, path_scripts, hist_scripts, n_model_paths, n_model_seq = generate(tier, work)
    rows, pruns, verdict, tl, per_key = check_paths(rep, tree, path_scripts, work)
    hruns, rejected, hstates, inconclusive = check_hist(rep, tree, hist_scripts, work)
    # the same scripts through the real web server (web.rs routes: session header, query / JSON decoding, status
    # codes): the listing script, every 4th path shape of the model, every 8th random one, every 3rd history
    hp = [path_scripts[0]] + path_scripts[1:1 + n_model_paths][::4] + path_scripts[1 + n_model_paths:][::8]
    hh = hist_scripts[::3]
    hrows, hpruns, hverdict, htl, hper_key = check_paths(rep, tree, hp, work, http=True)
    hhruns, hrejected, hhstates, hinconclusive = check_hist(rep, tree, hh, work, http=True)
    http_calls = sum(1 for r in hrows if r["a"] in ("Op", "List", "Panic")) + sum(1 for r in hhruns for e in r["ev"] if e["a"] == "E")
    calls = [r for r in rows if r["a"] in ("Op", "List", "Panic")]
    ops = {}
    for r in calls:
        k = f"{r['op']}/{r['sk']}{'' if r['we'] else '/write-disabled'}"
        ops[k] = ops.get(k, 0) + 1
    hcalls = sum(1 for r in hruns for e in r["ev"] if e["a"] == "E")
    overlapping = sum(1 for r in hruns if r["kind"] == "conc" and overlaps(r))
    conflicts = sum(1 for r in hruns for e in r["ev"] if e["a"] == "E" and e["kind"] == "conflict")
    okw = sum(1 for r in hruns for i, e in enumerate(r["ev"]) if e["a"] == "B" and e["op"] == "write" and r["ev"][e["e"] - 1]["ok"])
    mcs = [mc["interleavings"], mc["roles"]]
    cov = {
        "states": sum(m["distinct"] for m in mcs) + tl["distinct"] + hstates,
        "transitions": sum(m["generated"] for m in mcs) + tl["generated"],
        "model_states_write_interleavings": mc["interleavings"]["distinct"],
        "model_states_roles_expiry_external": mc["roles"]["distinct"],
        "model_action_coverage": mc["roles"].get("action_coverage", {}),
        "model_paths_checked_for_confinement": mc["paths_checked"],
        "model_escapes_of_parent_only_variant": mc["parent_only_escapes"],
        "history_validation_states": hstates,
        "traces_validated_against_impl": len(pruns) + len(hruns) - len(rejected),
        "path_runs": len(pruns), "path_shapes_from_model": n_model_paths, "path_shapes_random": len(pruns) - n_model_paths - 1,
        "calls_on_sentinel_tree": len(calls), "calls_by_operation_and_session": ops,
        "rejected_path_events": len(verdict["bad"]), "rejected_by_key": per_key,
        "history_runs": len(hruns), "history_runs_tlc_exported": n_model_seq,
        "history_runs_concurrent": sum(1 for r in hruns if r["kind"] == "conc"),
        "history_runs_concurrent_with_overlapping_calls": overlapping,
        "history_calls": hcalls, "history_conflicts": conflicts, "history_successful_writes": okw,
        "history_rejected": len(rejected), "history_inconclusive_torn_read": inconclusive,
        "http_path_runs": len(hpruns), "http_history_runs": len(hhruns), "http_calls": http_calls,
        "http_rejected_path_events": len(hverdict["bad"]), "http_history_rejected": len(hrejected), "http_history_inconclusive_torn_read": hinconclusive,
        "evaluations": len(calls) + hcalls + http_calls,
        "distinct_nontrivial": len({digest(r[0]["path"]) for r in pruns if len(r) > 1})
                               + len({digest(r["ev"]) for r in hruns if sum(1 for e in r["ev"] if e["a"] == "E") >= 3}),
        "rule": "one evaluation = one API call on the real WebIdeState (path calls: fresh sentinel tree + fresh state, full snapshot diff; "
                "history calls: Begin/End with result); distinct = different path (component sequence) or different recorded history; "
                "non-trivial = a path run with at least one call / a history with at least 3 calls",
        "samples": [path_scripts[1], {"call": calls[20] if len(calls) > 20 else None}, {"history": hruns[-1]["ev"][:8] if hruns else None}],
        "exhaustive": False,
    }
    return rep.finish(cov, assumptions=[
        "the sentinel tree is the model's tree (exported by TLC): file / directory symlinks pointing out and in, dangling symlinks, hidden "
        "directory and hidden file; a non-hidden symlink INTO a hidden directory and hard links are not generated (the property is silent)",
        "operations judged: list_sources, list_tree, workspace_search, open_source, apply_source, create_entry (file / directory), "
        "rename_entry (as source and as target), delete_entry; refusing a harmless path (e.g. src/../top.st) is accepted",
        "an expired session is a real session whose idle time exceeded capabilities().limits.session_ttl_secs: the harness advances "
        "CLOCK_REALTIME of its own child process (clock_gettime interposition, self-tested at start); 'invalid' is a never-issued token",
        "absolute paths outside the sentinel are never handed to creating operations (create / mkdir / rename target)",
        "write histories: sessions use only versions they learned from their own open / successful write (latest or the one before); "
        "a version taken from a conflict answer or guessed is not generated; delete / rename / create of the written file are not interleaved",
        "concurrent runs are free-running threads (OS schedule, seeded delays), not exhaustive on the code (the model is); a rejected run in "
        "which a torn (partial) read was recorded counts as inconclusive",
        "failures outside the protocol (I/O errors, kind 'other') are accepted anywhere provided nothing changed",
        "the HTTP pass drives trust_runtime::web::start_web_server (auth mode 'local') on a loopback port with HTTP/1.0 requests, one "
        "connection each; the server handles requests one at a time, so concurrent histories are serialised by it; the routes always "
        "pass write_enabled = true, so write-disabled steps are executed (and logged) as write-enabled there"])


def overlaps(run):
    pend = 0
    for e in run["ev"]:
        if e["a"] == "B":
            pend += 1
            if pend > 1:
                return True
        elif e["a"] == "E":
            pend -= 1
    return False
