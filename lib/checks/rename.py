"""C16 — Rename: design-level TLC runs of Rename (phases of a rename request on every small
project; the three-part conflict check is exactly binding preservation), script generation
(TLC names typed skeletons and chooses the requests, -simulate seeded by VERIF_SEED; plus
seeded random projects), execution of every request on the real trust_ide::rename::rename with
re-analysis, execution and rename-back, and trace validation against RenameTrace."""
import json

from common import (OUT, SPEC, Report, ToolError, build_harness, digest, log, read_ndjson, run_tlc,
                    seed, split_runs, tlc_printed, tpv, validate_trace)

NEED_ACTIONS = ["DoRequest", "DoResolveTarget", "DoValidate", "DoConflictCheck", "DoCollect", "DoApply", "DoRenameBack", "DoRefused"]
AFTER = ("diagnostics-changed", "behaviour-changed", "rename-back-mismatch")


def key_of(b):
    """The specific failing class of a rejected request (what a known finding is matched by)."""
    why = sorted(b["why"])
    w0 = why[0]
    if w0 == "capture:new-name-declared-in-declaring-scope":
        return w0 + "@" + b["dkind"]            # the one conflict the conflict check must see
    if ":" in w0 and w0.split(":")[0] in ("capture", "invalid-name-applied"):
        return w0
    cls = w0.split(":")[0]
    if cls in ("panic", "process-died", "panic-on-rename-back", "malformed-edits", "applied-on-unresolved-occurrence"):
        return cls
    # projects (before, or for what is observed afterwards: after the edit) in which the name of a
    # POU / method / type / namespace is used twice form one scenario class of their own
    if b["homonyms"] or (cls in AFTER and b["homAfter"]):
        return cls + "~homonymous-units"
    roles = ",".join(w.split(":", 1)[1] for w in why if ":" in w)
    k = cls + (":" + roles if roles else "") + "@" + b["dkind"]
    if cls in ("other-symbol-renamed", "rename-back-mismatch"):
        k += ":cursor-on-" + b["orole"]
    return k


def model_runs(tier):
    """Design-level model checking; returns the list of TLC results (the first one with coverage)."""
    res = []
    dyn = "MCRename" if tier == "quick" else "MCRename_thorough"
    mc = run_tlc("MCRename", dyn, workers=8, coverage=True, timeout=3000, tag="mc-c16")
    cov = mc.get("action_coverage", {})
    for a in NEED_ACTIONS:
        if cov.get(a, 0) == 0:
            raise ToolError(f"vacuous model run: action {a} never taken ({cov})")
    res.append(mc)
    res.append(run_tlc("MCRename", "MCRename_static" if tier == "quick" else "MCRename_static_thorough",
                       workers=8, timeout=3000, tag="mc-c16-static"))
    # the model must tell the property's conflict check from a check of the declaring scope alone
    neg = run_tlc("MCRename", "MCRename_declscope", workers=2, timeout=600, allow_violation=True, tag="mc-c16-neg")
    if "Invariant DeclScopeSuffices is violated" not in neg["stdout"]:
        raise ToolError("sanity run MCRename_declscope did not refute DeclScopeSuffices:\n" + neg["stdout"][-2000:])
    return res


def gen_scripts(tier, work):
    n_rand, n_sim, n_skel = (420, 320, 60) if tier == "quick" else (9000, 6000, 400)
    rnd = work / "scripts_random.ndjson"
    tpv(["rename-gen", "--seed", seed(), "--runs", n_rand, "--reqs", 10, "--out", rnd])
    scripts = read_ndjson(rnd)
    skp = work / "skeletons.ndjson"
    tpv(["rename-gen", "--seed", seed(), "--skeletons", n_skel, "--out", skp])
    skels = read_ndjson(skp)
    exported = []
    for cfg, n in (("GenRename", n_sim), ("GenRename_homonyms", max(20, n_sim // 8))):
        g = run_tlc("MCRename", cfg, workers=1, simulate=n, depth=90, seed_=seed(), timeout=1800,
                    env={"SKEL": str(skp)}, tag=f"gen-c16-{cfg}")
        got = tlc_printed(g["stdout"], "SCRIPT")
        if len(got) < n // 3:
            raise ToolError(f"TLC exported only {len(got)} of {n} scripts ({cfg})")
        for i, e in enumerate(got):
            exported.append({"sk": skels[e["sk"] - 1], "names": e["names"], "reqs": e["reqs"],
                             "seed": (seed() * 1000003 + len(exported) * 7919 + i) % (2 ** 31), "from": "tlc:" + cfg})
    return scripts, exported


def validate_in_chunks(runs, work, size=700):
    """Trace validation, a few hundred runs per TLC pass (the list of rejected requests is part
    of the trace specification's state, so one pass over a very long trace would slow down);
    line and run numbers of the merged verdict refer to the whole trace."""
    total = {"events": 0, "runs": 0, "bad": [], "odd": [], "stats": {}}
    for c in range(0, len(runs), size):
        part = runs[c:c + size]
        path = work / f"chunk{c // size}.trace.ndjson"
        with open(path, "w") as f:
            for r in part:
                for ev in r:
                    f.write(json.dumps(ev) + "\n")
        v, _ = validate_trace("RenameTrace", path, tag=f"trace-c16-{c // size}", timeout=3000)
        for kind in ("bad", "odd"):
            for b in v[kind]:
                b["line"] += total["events"]
                b["run"] += total["runs"]
                total[kind].append(b)
        for k, n in v["stats"].items():
            total["stats"][k] = total["stats"].get(k, 0) + n
        total["events"] += v["events"]
        total["runs"] += v["runs"]
        path.unlink()
        (work / f"chunk{c // size}.trace.ndjson.verdict.json").unlink(missing_ok=True)
    if total["runs"] != len(runs):
        raise ToolError(f"trace validation saw {total['runs']} runs, expected {len(runs)}")
    (work / "all.verdict.json").write_text(json.dumps(total))
    return total


def run(prop, tier, replay):
    work = OUT / "c16"
    work.mkdir(parents=True, exist_ok=True)
    rep = Report(prop, tier, "exploration")
    build_harness()
    mcs = []
    if replay:
        scripts, exported = [json.loads(open(replay).read())["replay"]["script"]], []
    else:
        mcs = model_runs(tier)
        scripts, exported = gen_scripts(tier, work)
    allscripts = scripts + exported
    sp = work / "all.scripts.ndjson"
    with open(sp, "w") as f:
        for s in allscripts:
            f.write(json.dumps(s) + "\n")
    tr, dt = work / "all.trace.ndjson", work / "all.detail.ndjson"
    tpv(["rename-run", "--scripts", sp, "--out", tr, "--detail", dt], timeout=3000)
    rows = read_ndjson(tr)
    runs = split_runs(rows)
    details = read_ndjson(dt)
    if len(runs) != len(allscripts) or len(details) != len(allscripts):
        raise ToolError(f"{len(allscripts)} scripts but {len(runs)} recorded runs / {len(details)} detail records")
    verdict = validate_in_chunks(runs, work)
    if verdict["events"] != len(rows):
        raise ToolError("trace validation did not consume every event")
    st = verdict["stats"]
    # where does each trace line sit: (run, index of the request in the run)
    where, ln = {}, 0
    for ri, r in enumerate(runs):
        qi = -1
        for ev in r:
            ln += 1
            if ev["a"] == "Rename":
                qi += 1
            where[ln] = (ri, qi)
    keys = {}
    for b in verdict["bad"]:
        ri, qi = where[b["line"]]
        key = key_of(b)
        d = details[ri]
        q = d["requests"][qi] if 0 <= qi < len(d["requests"]) else {}
        if set(b["why"]) == {"behaviour-changed"} and str(q.get("old", "")).lower() == str(q.get("new", "x")).lower():
            # the new name differs from the old one only in case: by IEC the program is unchanged, the edits are
            # right, and a different output is the run-time's case-sensitive name lookup, not rename's doing
            keys["inconclusive:case-variant-behaviour(run-time lookup is case-sensitive)"] = keys.get("inconclusive:case-variant-behaviour(run-time lookup is case-sensitive)", 0) + 1
            continue
        keys[key] = keys.get(key, 0) + 1
        one = dict(allscripts[ri])
        one["reqs"] = [q["request"]] if "request" in q else allscripts[ri]["reqs"]
        shown = {k: v for k, v in q.items() if k not in ("textsAfter", "backTexts", "request")}
        rep.violation(key, {"script": one, "why": sorted(b["why"]), "symbol_kind": b["dkind"], "cursor_on": b["orole"],
                            "homonymous_units": b["homonyms"], "homonymous_units_after_edit": b["homAfter"],
                            "event": b["kind"], "texts": d["texts"], "request": shown,
                            "texts_after": q.get("textsAfter"), "texts_after_rename_back": q.get("backTexts")},
                      f"run {b['run']}: {b['kind']} at a {b['orole']} occurrence of a {b['dkind']}: {', '.join(sorted(b['why']))}"
                      f" (old {q.get('old')!r} -> new {q.get('new')!r}, file {q.get('file')} offset {q.get('offset')})")
    # vacuity guards (tool errors, never verdicts)
    if not replay:
        if st["ready"] < 0.8 * len(runs):
            raise ToolError(f"only {st['ready']} of {len(runs)} generated projects are error-free")
        if st["applied"] == 0 or st["refused"] == 0 or st["appliedAsSpecified"] == 0:
            raise ToolError(f"vacuous run: {st}")
        for cls in ("keyword", "invalid", "name"):
            if not any(r["a"] == "Rename" and r["cls"] == cls for r in rows):
                raise ToolError(f"no request with a new name of class {cls}")
    checks = [r for r in rows if r["a"] == "Check"]
    odd = {}
    for o in verdict["odd"]:
        odd[o["what"]] = odd.get(o["what"], 0) + 1
    nontrivial = {digest([s["sk"], s["names"], q]) for s in allscripts for q in s["reqs"]}
    sample_ev = next((r for r in rows if r["a"] == "Rename" and r["res"] == "applied"), None)
    cov = {
        "states": sum(m["distinct"] for m in mcs) or 1,
        "transitions": sum(m["generated"] for m in mcs) or 1,
        "model_depth": max([m["depth"] for m in mcs] or [0]),
        "model_action_coverage": (mcs[0].get("action_coverage", {}) if mcs else {}),
        "traces_validated_against_impl": len(runs),
        "tlc_exported_scripts_replayed": len(exported),
        "random_scripts_replayed": len(scripts),
        "events_validated": len(rows),
        "projects_error_free": st["ready"],
        "projects_skipped": st["skippedRuns"],
        "projects_running_without_runtime_error": sum(1 for c in checks if c["runs"]),
        "projects_with_behaviour_oracle": sum(1 for c in checks if c["ref"]),
        "requests": st["requests"],
        "requests_applied": st["applied"],
        "requests_refused": st["refused"],
        "requests_refused_though_safe": st["refusedThoughAllowed"],
        "requests_applied_exactly_as_specified": st["appliedAsSpecified"],
        "requests_applied_inconclusive": odd,
        "rename_back_restored": st["backRestored"],
        "rename_back_refused": st["backRefused"],
        "rejected_requests_by_class": dict(sorted(keys.items())),
        "evaluations": st["requests"],
        "distinct_nontrivial": len(nontrivial),
        "rule": "one evaluation = one rename request (occurrence, new name) executed with trust_ide::rename::rename on a rendered "
                "multi-file project and judged by RenameTrace (edits, re-analysis, execution on a 3-cycle input trace, rename back); "
                "distinct by hash of (skeleton, names, request); every request is non-trivial (it names an occurrence of a declared symbol)",
        "samples": [{"script": allscripts[0]}, {"event": sample_ev}],
        "exhaustive": False,
    }
    if tier == "thorough":
        dt.unlink(missing_ok=True)      # (large; everything needed is in the replay files)
    return rep.finish(cov, assumptions=[
        "a refusal is always accepted (the property allows rename to refuse); a run in which nothing is applied is a tool error, not a verdict",
        "a keyword / invalid identifier as new name must not be applied with observable damage; new names containing '.' (namespace moves) are not generated",
        "an applied rename is rejected only on observable damage (malformed edits, diagnostics differ modulo the name, outputs differ, rename-back does not "
        "restore the text); an edit set that differs from the model's, or a rename the model calls unsafe, without observable damage is counted as inconclusive",
        "outputs are compared only for projects whose ORIGINAL runs without run-time error and as the reference evaluation of the specification's scoping says "
        "(the run-time resolves some names case-sensitively and does not execute namespace-qualified calls; such projects are judged on diagnostics and rename-back)",
        "occurrences of one symbol may be spelled in different cases; rename-back is then compared case-insensitively",
        "not generated: USING directives, nested namespaces, inheritance, properties, actions, enum values, function blocks / programs inside namespaces, "
        "recursion, VAR_EXTERNAL in functions and methods",
        "rendered projects that are not error-free (analysis errors or compile failure) are skipped and counted"])
