"""C05 — determinism: the same programs compiled and executed in separate OS processes (different
hash seeds, environment sizes, orders); container hashes and per-cycle observation digests are
validated for process-independence by the Determinism trace specification."""
import json
import os
import subprocess

from common import OUT, TPV, VERIF, Report, ToolError, build_harness, read_ndjson, seed, tpv, validate_trace


def child(idx, s, n, scripts, reverse):
    env = dict(os.environ)
    env["TPV_PAD"] = "x" * (idx * 1777)          # different environment size => different stack/heap layout
    env["RUST_MIN_STACK"] = str(8 * 1024 * 1024 + idx * 4096)
    cmd = [str(TPV), "det-child", "--seed", str(s), "--from", "0", "--to", str(n), "--scripts", str(scripts)]
    if reverse:
        cmd += ["--reverse", "1"]
    cmd += ["--pad"] * idx
    p = subprocess.run(cmd, cwd="/" if idx % 2 else str(VERIF), env=env, capture_output=True, text=True, timeout=3000)
    if p.returncode != 0:
        raise ToolError(f"det-child {idx} failed: {p.stderr[-2000:]}")
    rows = [json.loads(x) for x in p.stdout.splitlines() if x.startswith("{")]
    if len(rows) != n:
        raise ToolError(f"det-child {idx}: {len(rows)} of {n} programs reported")
    return {r["k"]: r for r in rows}


def run(prop, tier, replay):
    work = OUT / "c05"
    work.mkdir(parents=True, exist_ok=True)
    rep = Report(prop, tier, "exploration")
    build_harness()
    s = seed()
    if replay:
        rp = json.loads(open(replay).read())["replay"]
        s, n, nproc = rp["seed"], rp["programs"], rp["processes"]
    else:
        n, nproc = (240, 3) if tier == "quick" else (1500, 5)
    scripts = work / "cycle_scripts.ndjson"
    tpv(["cycle-gen", "--seed", s, "--runs", max(20, n // 2), "--out", scripts])
    from concurrent.futures import ThreadPoolExecutor
    with ThreadPoolExecutor(max_workers=nproc) as ex:
        res = list(ex.map(lambda i: child(i, s, n, scripts, i == nproc - 1), range(nproc)))
    tr = work / "trace.ndjson"
    with open(tr, "w") as f:
        for k in range(n):
            f.write(json.dumps({"a": "Reset", "k": k}) + "\n")
            for pi, r in enumerate(res):
                f.write(json.dumps({"a": "Obs", "k": k, "proc": pi, "bytes": r[k]["bytes"], "digests": r[k]["digests"]}) + "\n")
    rows = read_ndjson(tr)
    verdict, _ = validate_trace("Determinism", tr, tag="trace-c05")
    if verdict["events"] != len(rows):
        raise ToolError("trace validation did not consume every event")
    for b in verdict["bad"]:
        key = "+".join(sorted(w if w == "container-bytes" else "cycle-observation" for w in set(b["why"])))
        rep.violation(key, {"seed": s, "programs": n, "processes": nproc, "program": b["k"], "process": b["proc"], "why": b["why"],
                            "observations": [r[b["k"]] for r in res]},
                      f"program #{b['k']} ({res[0][b['k']]['kind']}): process {b['proc']} differs from process 0 in {b['why']}")
    kinds = {}
    for r in res[0].values():
        kinds[r["kind"]] = kinds.get(r["kind"], 0) + 1
    cov = {
        "evaluations": n * nproc, "distinct_nontrivial": len({r["bytes"] for r in res[0].values() if not r["bytes"].startswith("error")}),
        "rule": "one evaluation = one program compiled to an STBC container and run for several cycles in one OS process; "
                "distinct = distinct container hash; non-trivial = the program compiled",
        "samples": [res[0][0], res[0][1] if n > 1 else {}],
        "programs": n, "processes": nproc, "program_kinds": kinds,
        "cycles_compared": sum(len(r["digests"]) for r in res[0].values()),
        "traces_validated_against_impl": n,
    }
    return rep.finish(cov, assumptions=[
        "process independence is sampled with 3 (quick) / 5 (thorough) processes differing in std RandomState seeds, environment size, cwd, argv and program order",
        "the variable state is compared canonically (by name, instances by content); map insertion order and instance ids are representation"])
