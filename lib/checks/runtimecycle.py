"""C06 / C07 / C08 — RuntimeCycle: design-level TLC run, script generation (TLC export +
seeded random), execution on the real runtime, trace validation against RuntimeCycleTrace."""
import json

from common import (OUT, Report, ToolError, build_harness, digest, log, read_ndjson, run_tlc,
                    seed, split_runs, tlc_printed, tpv, validate_trace)

RESTART_KINDS = ("Restart", "PowerCycle", "SetAccess")
NEED_ACTIONS = {
    "C09": ["DoRestart", "DoPowerCycle", "DoCycle", "DoSimFault"],
    "C06": ["DoAdvance", "DoSetSingle", "DoCycle"],
    "C07": ["DoSetSrc", "DoCycle"],
    "C08": ["DoInject", "DoFailDriver", "DoWatchdog", "DoSimFault", "DoCycle", "DoRefusedCycle"],
}
SCHED = {"executed-sequence", "task-events", "overruns", "program-counters", "fb-instance-state"}


def safe_bits(cfg):
    bits = set()
    for e in cfg["safe"]:
        a = e["addr"]
        n = {"X": 1, "B": 1, "W": 2, "D": 4, "L": 8}[a["size"]]
        if a["size"] == "X":
            bits.add(a["byte"] * 8 + a["bit"])
        else:
            bits.update(range(a["byte"] * 8, (a["byte"] + n) * 8))
    return bits


def owners(b, ev, cfg, restarted):
    """Which property a rejected event belongs to (a rejection is reported by exactly the
    checks whose property statement it contradicts)."""
    why = set(b["why"])
    if b["kind"] in RESTART_KINDS or restarted:
        # the event is a restart / power cycle / access-path write, or the run was restarted
        # before it: the divergence is about what a restart preserves, resets or disconnects
        own = {"C09"}
        if why == {"type-tag"}:
            own = {"C03"}
        return own
    if why & {"retain-variables", "access-path"}:
        return {"C09"}
    if b["kind"] in ("Watchdog", "SimFault"):
        return {"C08"}
    if b["kind"] in ("DirectWrite", "DirectRead"):
        return {"C07"}
    own = set()
    if b["spec"] != "ok" or ev.get("res") != "ok":
        # a cycle that faulted, should have faulted, or was / should have been refused
        rest = why - {"output-image", "memory-image"}
        if rest:
            own.add("C08")
        if "memory-image" in why:
            own.add("C07")
        if "output-image" in why:
            exp, obs = b["expQ"], ev["img"]["Q"]
            diff = {i * 8 + k for i in range(min(len(exp), len(obs))) for k in range(8)
                    if (exp[i] >> k) & 1 != (obs[i] >> k) & 1}
            if len(exp) != len(obs) or diff - safe_bits(cfg):
                own.add("C07")      # program-computed outputs reached the image of a faulted cycle
            if diff & safe_bits(cfg) or not diff:
                own.add("C08")
        return own
    if why & SCHED:
        return {"C06"}
    if "frames-left" in why:
        own.add("C01")
    if "type-tag" in why:
        own.add("C03")
    if why - {"frames-left", "type-tag"}:
        own.add("C07")
    return own


def gen_scripts(prop, tier, work):
    n_rand = 500 if tier == "quick" else 6000
    n_sim = 150 if tier == "quick" else 2500
    rnd = work / "scripts_random.ndjson"
    tpv(["cycle-gen", "--seed", seed(), "--runs", n_rand, "--out", rnd] + (["--restarts", "1"] if prop == "C09" else []))
    scripts = read_ndjson(rnd)
    g = run_tlc("MCRuntimeCycle", "GenRuntimeCycle", workers=1, simulate=n_sim, depth=13, seed_=seed(),
                timeout=900, tag=f"gen-{prop}")
    exported = tlc_printed(g["stdout"], "SCRIPT")
    if len(exported) < n_sim // 2:
        raise ToolError(f"TLC exported only {len(exported)} scripts")
    return scripts, exported


def execute(scripts, work, name):
    sp = work / f"{name}.scripts.ndjson"
    with open(sp, "w") as f:
        for s in scripts:
            f.write(json.dumps(s) + "\n")
    tr = work / f"{name}.trace.ndjson"
    tpv(["cycle-run", "--scripts", sp, "--out", tr], timeout=1800)
    return tr


def run(prop, tier, replay):
    work = OUT / prop.lower()
    work.mkdir(parents=True, exist_ok=True)
    rep = Report(prop, tier, "fault_enumeration" if prop == "C08" else "model_checking")
    build_harness()
    mc = None
    if replay:
        scripts = [json.loads(open(replay).read())["replay"]["script"]]
        exported = []
    else:
        cfgname = f"MCRuntimeCycle_{prop}" if tier == "quick" else "MCRuntimeCycle_all"
        mc = run_tlc("MCRuntimeCycle", cfgname, workers=8, coverage=True, timeout=2400, tag=f"mc-{prop}")
        cov = mc.get("action_coverage", {})
        for a in NEED_ACTIONS[prop]:
            if cov.get(a, 0) == 0:
                raise ToolError(f"vacuous model run: action {a} never taken ({cov})")
        scripts, exported = gen_scripts(prop, tier, work)
    allscripts = scripts + exported
    tr = execute(allscripts, work, "all")
    rows = read_ndjson(tr)
    runs = split_runs(rows)
    if len(runs) != len(allscripts):
        # scripts whose configuration the compiler rejected are dropped by the runner; map by cfg digest
        pass
    verdict, tl = validate_trace("RuntimeCycleTrace", tr, tag=f"trace-{prop}")
    if verdict["events"] != len(rows):
        raise ToolError("trace validation did not consume every event")
    # locate each rejected event
    line_run = {}
    ln = 0
    for ri, r in enumerate(runs):
        for ev in r:
            ln += 1
            line_run[ln] = (ri, ev)
    mine = 0
    for b in verdict["bad"]:
        ri, ev = line_run[b["line"]]
        cfg = runs[ri][0]["cfg"]
        before = runs[ri][: (b["line"] - sum(len(x) for x in runs[:ri])) - 1]
        restarted = any(e["a"] in ("Restart", "PowerCycle") for e in before)
        own = owners(b, ev, cfg, restarted)
        if prop not in own:
            continue
        mine += 1
        key = "+".join(sorted(b["why"])) + f"@{b['kind']}:{b['spec']}"
        if b["kind"] == "PowerCycle" and b["why"] == ["retain-variables"] and before:
            # which variables did not survive?  (narrow key for the known finding)
            prevc = next((e["ctr"] for e in reversed(before) if "ctr" in e), None)
            if prevc is not None:
                lost = [c for c in cfg["counters"] if c["qual"] in ("retain", "persistent")
                        and ev["ctr"][c["name"]] != prevc[c["name"]]]
                wrong = [c for c in cfg["counters"] if c["qual"] not in ("retain", "persistent") and ev["ctr"][c["name"]] != 0]
                if lost and not wrong and all(c["scope"] == "program" for c in lost):
                    key = "powercycle:program-level-retain-lost"
        script = next((s for s in allscripts if digest(s["cfg"]) == digest(cfg)), None)
        rep.violation(key, {"script": script, "rejected_event": ev, "why": b["why"], "spec_result": b["spec"],
                            "spec_output_image": b["expQ"], "trace_line": b["line"],
                            "trace": runs[ri][: (b["line"] - sum(len(x) for x in runs[:ri]))]},
                      f"run {b['run']}: {b['kind']} event rejected ({', '.join(b['why'])}); spec expected result {b['spec']}")
    ncyc = sum(1 for r in rows if r["a"] == "Cycle")
    nfault = sum(1 for r in rows if r["a"] == "Cycle" and r["res"] == "fault")
    nref = sum(1 for r in rows if r["a"] == "Cycle" and r["res"] == "refused")
    nrs = sum(1 for r in rows if r["a"] in ("Restart", "PowerCycle"))
    sample = [r for r in rows if r["a"] == "Cycle"][:2]
    cov = {
        "states": (mc or {}).get("distinct", 1) or 1,
        "transitions": (mc or {}).get("generated", 1) or 1,
        "model_depth": (mc or {}).get("depth", 0),
        "model_action_coverage": (mc or {}).get("action_coverage", {}),
        "traces_validated_against_impl": len(runs),
        "tlc_exported_scripts_replayed": len(exported),
        "random_scripts_replayed": len(scripts),
        "events_validated": len(rows),
        "cycles_validated": ncyc,
        "fault_cycles": nfault,
        "refused_cycles": nref,
        "restarts_and_power_cycles": nrs,
        "rejected_events_total": len(verdict["bad"]),
        "rejected_events_this_property": mine,
        "evaluations": len(runs),
        "distinct_nontrivial": len({digest(r[0]["cfg"]) + digest([e for e in r[1:] if e["a"] != "Cycle"]) for r in runs if len(r) > 2}),
        "rule": "one evaluation = one script (configuration + environment steps) executed on the real runtime and "
                "validated event by event against RuntimeCycle; distinct = different (configuration, step list); "
                "non-trivial = at least two events after Reset",
        "samples": [{"script": allscripts[0]}, {"cycle_event": sample[0] if sample else None}],
        "exhaustive": False,
    }
    return rep.finish(cov, assumptions=[
        "the logging IoDriver and the generated ST programs are the only instrumentation; everything below Runtime/TestHarness is real",
        "design-level invariants are checked on MCRuntimeCycle for the constants in the .cfg file",
        "overlapping output bindings are not generated (which variable wins is unspecified)"])


def tag_rejections(work, n):
    """For C03: run restart-biased RuntimeCycle scripts and return the rejected events whose only complaint is a
    type tag (I/O latch, restart, power cycle, access-path write never change a variable's tag)."""
    rnd = work / "rc_scripts.ndjson"
    tpv(["cycle-gen", "--seed", seed(), "--runs", n, "--out", rnd, "--restarts", "1"])
    scripts = read_ndjson(rnd)
    tr = execute(scripts, work, "rc")
    rows = read_ndjson(tr)
    verdict, _ = validate_trace("RuntimeCycleTrace", tr, tag="trace-c03-rc")
    if verdict["events"] != len(rows):
        raise ToolError("trace validation did not consume every event")
    out = [(b, rows[b["line"] - 1]) for b in verdict["bad"] if "type-tag" in b["why"]]
    return out, len(split_runs(rows)), sum(1 for r in rows if r["a"] in ("Cycle", "Restart", "PowerCycle", "SetAccess"))
