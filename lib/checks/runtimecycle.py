"""C06 / C07 / C08 / C09 — RuntimeCycle: design-level TLC runs, script generation (TLC export +
seeded random), execution on the real runtime, trace validation against RuntimeCycleTrace.

Two families of configurations: "base" (only PROGRAMs are associated with tasks) and "fb"
(FUNCTION_BLOCK instances of the programs are associated with tasks as well, mixed with task and
background programs).  Each family has its own model instances (MCRuntimeCycle_<id>.cfg /
MCRuntimeCycle_<id>fb.cfg), its own TLC script exporter (GenRuntimeCycle.cfg / GenRuntimeCycleFb.cfg)
and its own stream of random scripts (cycle-gen --runs / --fb-runs); the model runs of the two
families proceed concurrently with the script pipeline."""
import json
import time
from concurrent.futures import ThreadPoolExecutor

from common import (OUT, Report, ToolError, build_harness, digest, log, read_ndjson, run_tlc,
                    seed, split_runs, tlc_printed, tpv, validate_trace)

RESTART_KINDS = ("Restart", "PowerCycle", "SetAccess")
NEED_ACTIONS = {
    "C09": ["DoRestart", "DoPowerCycle", "DoCycle", "DoSimFault"],
    "C06": ["DoAdvance", "DoSetSingle", "DoCycle"],
    "C07": ["DoSetSrc", "DoCycle"],
    "C08": ["DoInject", "DoFailDriver", "DoWatchdog", "DoSimFault", "DoCycle", "DoRefusedCycle"],
}
# the model instances over the configurations with FB-task associations must also inject faults
# into the bodies of task-driven FB instances where faults are enabled
NEED_ACTIONS_FB = {"C06": [], "C07": [], "C08": ["DoInjectFb"], "C09": ["DoInjectFb"]}
SCHED = {"executed-sequence", "task-events", "overruns", "program-counters", "fb-instance-state"}


def safe_bits(cfg):
    bits = set()
    for e in cfg["safe"]:
        a = e["addr"]
        n = {"X": 1, "B": 1, "W": 2, "D": 4, "L": 8}[a["size"]]
        if a["size"] == "X":
            bits.add(a["byte"] * 8 + a["bit"])
        else:
            bits.update(range(a["byte"] * 8, (a["byte"] + n) * 8))
    return bits


def owners(b, ev, cfg, restarted):
    """Which property a rejected event belongs to (a rejection is reported by exactly the
    checks whose property statement it contradicts)."""
    why = set(b["why"])
    if b["kind"] in RESTART_KINDS or restarted:
        # the event is a restart / power cycle / access-path write, or the run was restarted
        # before it: the divergence is about what a restart preserves, resets or disconnects
        own = {"C09"}
        if why == {"type-tag"}:
            own = {"C03"}
        return own
    if why & {"retain-variables", "access-path"}:
        return {"C09"}
    if b["kind"] in ("Watchdog", "SimFault"):
        return {"C08"}
    if b["kind"] in ("DirectWrite", "DirectRead"):
        return {"C07"}
    own = set()
    if b["spec"] != "ok" or ev.get("res") != "ok":
        # a cycle that faulted, should have faulted, or was / should have been refused
        rest = why - {"output-image", "memory-image"}
        if rest:
            own.add("C08")
        if "memory-image" in why:
            own.add("C07")
        if "output-image" in why:
            exp, obs = b["expQ"], ev["img"]["Q"]
            diff = {i * 8 + k for i in range(min(len(exp), len(obs))) for k in range(8)
                    if (exp[i] >> k) & 1 != (obs[i] >> k) & 1}
            if len(exp) != len(obs) or diff - safe_bits(cfg):
                own.add("C07")      # program-computed outputs reached the image of a faulted cycle
            if diff & safe_bits(cfg) or not diff:
                own.add("C08")
        return own
    if why & SCHED:
        return {"C06"}
    if "frames-left" in why:
        own.add("C01")
    if "type-tag" in why:
        own.add("C03")
    if why - {"frames-left", "type-tag"}:
        own.add("C07")
    return own


def has_fb(script):
    return bool(script["cfg"].get("fbs"))


def export_scripts(cfgname, n_sim, prop):
    g = run_tlc("MCRuntimeCycle", cfgname, workers=1, simulate=n_sim, depth=13, seed_=seed(),
                timeout=900, tag=f"{cfgname}-{prop}")
    exported = tlc_printed(g["stdout"], "SCRIPT")
    if len(exported) < n_sim // 2:
        raise ToolError(f"TLC exported only {len(exported)} scripts from {cfgname}")
    return exported


def gen_scripts(prop, tier, work):
    """(random scripts, TLC-exported scripts); in both lists the scripts without FB-task associations
    come first (as many as before FB associations were added), followed by the ones with."""
    n_rand = 500 if tier == "quick" else 6000
    n_sim = 150 if tier == "quick" else 2500
    n_rand_fb = 160 if tier == "quick" else 2000
    n_sim_fb = 60 if tier == "quick" else 800
    with ThreadPoolExecutor(max_workers=2) as ex:
        base = ex.submit(export_scripts, "GenRuntimeCycle", n_sim, prop)
        fb = ex.submit(export_scripts, "GenRuntimeCycleFb", n_sim_fb, prop)
        rnd = work / "scripts_random.ndjson"
        tpv(["cycle-gen", "--seed", seed(), "--runs", n_rand, "--fb-runs", n_rand_fb, "--out", rnd]
            + (["--restarts", "1"] if prop == "C09" else []))
        scripts = read_ndjson(rnd)
        exported = base.result() + fb.result()
    if sum(1 for s in scripts if not has_fb(s)) != n_rand or sum(1 for s in scripts if has_fb(s)) != n_rand_fb:
        raise ToolError("cycle-gen did not produce the requested numbers of scripts without / with FB associations")
    if any(has_fb(s) for s in exported[:len(exported) - len(fb.result())]) or not all(has_fb(s) for s in fb.result()):
        raise ToolError("TLC exporters produced configurations of the wrong family")
    return scripts, exported


def model_runs(prop, tier):
    """Design-level model checking: the instance over the configurations without FB associations
    and the one over those with; returns (base result, fb result)."""
    names = (f"MCRuntimeCycle_{prop}", f"MCRuntimeCycle_{prop}fb") if tier == "quick" else ("MCRuntimeCycle_all", "MCRuntimeCycle_allfb")
    with ThreadPoolExecutor(max_workers=2) as ex:
        base = ex.submit(run_tlc, "MCRuntimeCycle", names[0], workers=8, coverage=True, timeout=2400, tag=f"mc-{prop}")
        fb = ex.submit(run_tlc, "MCRuntimeCycle", names[1], workers=4, coverage=True, timeout=2400, tag=f"mcfb-{prop}")
        mc, mcfb = base.result(), fb.result()
    for res, need in ((mc, NEED_ACTIONS[prop]), (mcfb, NEED_ACTIONS[prop] + NEED_ACTIONS_FB[prop])):
        cov = res.get("action_coverage", {})
        for a in need:
            if cov.get(a, 0) == 0:
                raise ToolError(f"vacuous model run: action {a} never taken ({cov})")
    return mc, mcfb


def execute(scripts, work, name):
    sp = work / f"{name}.scripts.ndjson"
    with open(sp, "w") as f:
        for i, s in enumerate(scripts):
            # every other configuration starts from the compiled container (apply_bytecode_bytes), the way a deployed
            # runtime does; the choice is part of the script, so that a stored script replays on the same path
            if "deployed" not in s["cfg"]:
                s["cfg"]["deployed"] = i % 2 == 1
            f.write(json.dumps(s) + "\n")
    tr = work / f"{name}.trace.ndjson"
    tpv(["cycle-run", "--scripts", sp, "--out", tr], timeout=1800)
    return tr


def run(prop, tier, replay):
    work = OUT / prop.lower()
    work.mkdir(parents=True, exist_ok=True)
    rep = Report(prop, tier, "fault_enumeration" if prop == "C08" else "model_checking")
    build_harness()
    mc = mcfb = None
    phase, t0 = {}, time.time()
    pool = ThreadPoolExecutor(max_workers=1)
    models = None
    if replay:
        scripts = [json.loads(open(replay).read())["replay"]["script"]]
        exported = []
    else:
        # the model runs proceed while the scripts are generated, executed and validated
        models = pool.submit(model_runs, prop, tier)
        try:
            scripts, exported = gen_scripts(prop, tier, work)
        except ToolError:
            models.result()     # a broken specification is reported by the model run first
            raise
    phase["generate"], t0 = round(time.time() - t0, 1), time.time()
    allscripts = scripts + exported
    tr = execute(allscripts, work, "all")
    rows = read_ndjson(tr)
    runs = split_runs(rows)
    phase["execute"], t0 = round(time.time() - t0, 1), time.time()
    # (scripts whose configuration the compiler rejected are dropped by the runner; every run names
    # the script it came from: Reset.si)
    verdict, tl = validate_trace("RuntimeCycleTrace", tr, tag=f"trace-{prop}")
    phase["validate"], t0 = round(time.time() - t0, 1), time.time()
    if models is not None:
        mc, mcfb = models.result()
        phase["model_without_fb"], phase["model_with_fb"] = round(mc["wall_s"], 1), round(mcfb["wall_s"], 1)
    pool.shutdown()
    phase["wait_for_models"] = round(time.time() - t0, 1)
    if verdict["events"] != len(rows):
        raise ToolError("trace validation did not consume every event")
    n_fb_runs = sum(1 for r in runs if r[0]["cfg"]["fbs"])
    if not replay and (n_fb_runs == 0 or n_fb_runs == len(runs)):
        raise ToolError("one family of configurations (without / with FB associations) was not executed")
    # locate each rejected event
    line_run = {}
    ln = 0
    for ri, r in enumerate(runs):
        for ev in r:
            ln += 1
            line_run[ln] = (ri, ev)
    mine = 0
    for b in verdict["bad"]:
        ri, ev = line_run[b["line"]]
        cfg = runs[ri][0]["cfg"]
        before = runs[ri][: (b["line"] - sum(len(x) for x in runs[:ri])) - 1]
        restarted = any(e["a"] in ("Restart", "PowerCycle") for e in before)
        own = owners(b, ev, cfg, restarted)
        if prop not in own:
            continue
        mine += 1
        key = "+".join(sorted(b["why"])) + f"@{b['kind']}:{b['spec']}"
        if b["kind"] == "PowerCycle" and b["why"] == ["retain-variables"] and before:
            # which variables did not survive?  (narrow key for the known finding)
            prevc = next((e["ctr"] for e in reversed(before) if "ctr" in e), None)
            if prevc is not None:
                lost = [c for c in cfg["counters"] if c["qual"] in ("retain", "persistent")
                        and ev["ctr"][c["name"]] != prevc[c["name"]]]
                wrong = [c for c in cfg["counters"] if c["qual"] not in ("retain", "persistent") and ev["ctr"][c["name"]] != 0]
                if lost and not wrong and all(c["scope"] == "program" for c in lost):
                    key = "powercycle:program-level-retain-lost"
        script = allscripts[runs[ri][0]["si"]]
        rep.violation(key, {"script": script, "rejected_event": ev, "why": b["why"], "spec_result": b["spec"],
                            "spec_output_image": b["expQ"], "trace_line": b["line"],
                            "trace": runs[ri][: (b["line"] - sum(len(x) for x in runs[:ri]))]},
                      f"run {b['run']}: {b['kind']} event rejected ({', '.join(b['why'])}); spec expected result {b['spec']}")
    ncyc = sum(1 for r in rows if r["a"] == "Cycle")
    nfault = sum(1 for r in rows if r["a"] == "Cycle" and r["res"] == "fault")
    nref = sum(1 for r in rows if r["a"] == "Cycle" and r["res"] == "refused")
    nrs = sum(1 for r in rows if r["a"] in ("Restart", "PowerCycle"))
    fbrows = [ev for r in runs if r[0]["cfg"]["fbs"] for ev in r]
    fbcyc = [ev for ev in fbrows if ev["a"] == "Cycle"]
    sample = [r for r in rows if r["a"] == "Cycle"][:2]
    cov = {
        "states": ((mc or {}).get("distinct", 1) or 1) + (mcfb or {}).get("distinct", 0),
        "transitions": ((mc or {}).get("generated", 1) or 1) + (mcfb or {}).get("generated", 0),
        "model_depth": (mc or {}).get("depth", 0),
        "model_action_coverage": (mc or {}).get("action_coverage", {}),
        "model_without_fb_associations": {k: (mc or {}).get(k, 0) for k in ("distinct", "generated", "depth")},
        "model_with_fb_associations": {"distinct": (mcfb or {}).get("distinct", 0), "generated": (mcfb or {}).get("generated", 0),
                                       "depth": (mcfb or {}).get("depth", 0), "action_coverage": (mcfb or {}).get("action_coverage", {})},
        "phase_wall_s": phase,
        "traces_validated_against_impl": len(runs),
        "tlc_exported_scripts_replayed": len(exported),
        "random_scripts_replayed": len(scripts),
        "runs_without_fb_associations": len(runs) - n_fb_runs,
        "runs_with_fb_associations": n_fb_runs,
        "fb_runs": {"events": len(fbrows), "cycles": len(fbcyc),
                    "cycles_executing_an_fb_instance": sum(1 for ev in fbcyc if any("." in n for n in ev["exec"])),
                    "fb_instance_executions": sum(1 for ev in fbcyc for n in ev["exec"] if "." in n),
                    "healthy_cycles_with_an_fb_instance_not_due": sum(1 for r in runs if r[0]["cfg"]["fbs"] for ev in r if ev["a"] == "Cycle" and ev["res"] == "ok"
                                                                      and sum(1 for n in ev["exec"] if "." in n) < len(r[0]["cfg"]["fbs"])),
                    "faults_inside_an_fb_instance": sum(1 for ev in fbcyc if ev["res"] == "fault" and ev["exec"] and "." in ev["exec"][-1]
                                                        and not ev["err"].startswith("ControlError"))},
        "events_validated": len(rows),
        "cycles_validated": ncyc,
        "fault_cycles": nfault,
        "refused_cycles": nref,
        "restarts_and_power_cycles": nrs,
        "rejected_events_total": len(verdict["bad"]),
        "rejected_events_this_property": mine,
        "evaluations": len(runs),
        "distinct_nontrivial": len({digest(r[0]["cfg"]) + digest([e for e in r[1:] if e["a"] != "Cycle"]) for r in runs if len(r) > 2}),
        "rule": "one evaluation = one script (configuration + environment steps) executed on the real runtime and "
                "validated event by event against RuntimeCycle; distinct = different (configuration, step list); "
                "non-trivial = at least two events after Reset",
        "samples": [{"script": allscripts[0]}, {"cycle_event": sample[0] if sample else None}],
        "exhaustive": False,
    }
    if prop == "C08" and not replay:
        from checks.resfault import resfault_stage
        cov.update(resfault_stage(rep, tier, work))
    if prop == "C09" and not replay:
        from checks.restartloop import restartloop_stage
        cov.update(restartloop_stage(rep, tier, work))
    return rep.finish(cov, assumptions=[
        "the logging IoDriver and the generated ST programs are the only instrumentation; everything below Runtime/TestHarness is real",
        "design-level invariants are checked on MCRuntimeCycle for the constants in the .cfg file",
        "overlapping output bindings are not generated (which variable wins is unspecified)",
        "a task-associated FB instance is never also called explicitly by its program (docs/specs/10-runtime.md 6.2 says it "
        "executes only under its task; the runtime would execute the call as well; the property is silent)",
        "order inside one task activation (programs in declaration order, then FB instances in declaration order) is "
        "what Runtime::execute_task does; IEC 61131-3 and docs/specs do not fix it"])


def tag_rejections(work, n):
    """For C03: run restart-biased RuntimeCycle scripts and return the rejected events whose only complaint is a
    type tag (I/O latch, restart, power cycle, access-path write never change a variable's tag)."""
    rnd = work / "rc_scripts.ndjson"
    tpv(["cycle-gen", "--seed", seed(), "--runs", n, "--out", rnd, "--restarts", "1"])
    scripts = read_ndjson(rnd)
    tr = execute(scripts, work, "rc")
    rows = read_ndjson(tr)
    verdict, _ = validate_trace("RuntimeCycleTrace", tr, tag="trace-c03-rc")
    if verdict["events"] != len(rows):
        raise ToolError("trace validation did not consume every event")
    out = [(b, rows[b["line"] - 1]) for b in verdict["bad"] if "type-tag" in b["why"]]
    return out, len(split_runs(rows)), sum(1 for r in rows if r["a"] in ("Cycle", "Restart", "PowerCycle", "SetAccess"))
