"""C17, DAP adapter layer (stage of debugctl.py): the path from a stop of the runtime to the `stopped`
event on the wire (StopCoordinator: stop channel, stop gate, pause_expected, breakpoint generation) and
the run-control handlers (continue / pause / next / stepIn / stepOut / setBreakpoints / disconnect).

  model      spec/DapStop.tla, MCDapStop*.cfg: every interleaving of client, main thread, cycle thread and
             coordinator for small bounds; the intended design satisfies all properties, the design AS CODED
             satisfies them except the two named findings (must be violated: the check verifies that), four
             further slips must be violated too (the invariants are not vacuous).
  scripts    TLC-sampled client halves of model behaviours (GenDapStop), seeded random disciplined clients
             (resume only what was reported stopped; pause / setBreakpoints at any time), seeded random
             hostile clients (anything at any time, pipelined in one write), and a provocation block for the
             setBreakpoints-vs-breakpoint-stop window.
  run        `tpv dap-run`: the real DebugAdapter::run_stdio in a child process per script (real runtime
             cycling a two-task program with calls and a loop), driven over stdio with DAP framing.
  validate   spec/DapStopTrace.tla (nondeterministic: TLC places the unlogged pause_expected / generation
             accesses; depth-first, high-water mark).  A run rejected strictly and accepted with Lenient=TRUE is
             an instance of the known way a stop is lost; everything else is keyed by the rejected event."""
import json
import random
import threading
from concurrent.futures import ThreadPoolExecutor

from common import (ToolError, digest, log, read_ndjson, run_tlc, seed, split_runs, tlc_printed, tpv,
                    validate_trace)

NEED_ACTIONS = ["MRead", "MPauseCheck", "MSetPE", "MGateEnter", "MAct", "MWrite", "MDone", "CRecv", "CGate", "CPE", "CGen",
                "CDropPE", "CDropGen", "CWrite", "RResume", "RCycleBegin", "RCycleEnd", "Spont", "RStop", "Client", "Recv"]
NEED_ACTIONS_INSPECT = ["MInspect", "MInspectLock"]
# deviation config -> what TLC must report as violated
MUST_VIOLATE = {
    "MCDapStop_ascoded_gendrop": "Invariant NoLostStop is violated",            # finding: stop.rs drops a Breakpoint stop and nothing resumes
    "MCDapStop_ascoded_gate": "Invariant ResponseBeforeLaterStop is violated",  # finding: stop_gate.enter() after continue_run()
    "MCDapStop_ascoded_inspect": "Temporal property EveryRequestAnswered was violated",  # finding: runtime mutex taken while the hook may wait
    "MCDapStop_noGate": "Invariant ResponseBeforeLaterStop is violated",
    "MCDapStop_dupStopped": "Invariant NoDuplicateStopped is violated",
    "MCDapStop_dropInverted": "Invariant NoLostStop is violated",
    "MCDapStop_stepNoResume": "Invariant NoLostStop is violated",
}
CHUNKS = 6
RESUME = ("continue", "next", "stepIn", "stepOut")


def model_check(tier, result):
    """The bounded instances of the design model (run next to the replay): the intended design with and without
    inspection requests, the design as coded minus its named findings, and the deviations that must be refuted."""
    try:
        cfg = "MCDapStop" if tier == "quick" else "MCDapStop_thorough"
        with ThreadPoolExecutor(max_workers=4) as ex:
            f_mc = ex.submit(run_tlc, "MCDapStop", cfg, workers=4 if tier == "quick" else 8, coverage=True, timeout=3000, tag=f"mc-c17dap-{cfg}")
            f_insp = ex.submit(run_tlc, "MCDapStop", "MCDapStop_inspect", workers=2, coverage=True, timeout=1800, tag="mc-c17dap-inspect")
            f_coded = ex.submit(run_tlc, "MCDapStop", "MCDapStop_ascoded", workers=2, timeout=1800, tag="mc-c17dap-ascoded")
            f_dev = {dev: ex.submit(run_tlc, "MCDapStop", dev, workers=1, timeout=900, allow_violation=True, tag=f"mc-c17dap-{dev}")
                     for dev in MUST_VIOLATE}
            mc, insp, coded = f_mc.result(), f_insp.result(), f_coded.result()
            devs = {dev: f.result() for dev, f in f_dev.items()}
        cov = mc.get("action_coverage", {})
        for a in NEED_ACTIONS:
            if cov.get(a, 0) == 0:
                raise ToolError(f"vacuous model run: action {a} never taken ({cov})")
        for a in NEED_ACTIONS_INSPECT:
            if insp.get("action_coverage", {}).get(a, 0) == 0:
                raise ToolError(f"vacuous model run: action {a} never taken ({insp.get('action_coverage')})")
            cov[a] = insp["action_coverage"][a]
        refuted = {}
        for dev, msg in MUST_VIOLATE.items():
            if msg not in devs[dev]["stdout"]:
                raise ToolError(f"the deviation model {dev} does not produce '{msg}' (the property would be vacuous):\n{devs[dev]['stdout'][-1500:]}")
            refuted[dev] = msg.split()[2] if msg.startswith("Temporal") else msg.split()[1]
        result.update(distinct=mc["distinct"] + coded["distinct"] + insp["distinct"], generated=mc["generated"] + coded["generated"] + insp["generated"],
                      model_distinct=mc["distinct"], ascoded_distinct=coded["distinct"], inspect_distinct=insp["distinct"], depth=mc["depth"],
                      action_coverage={a: cov[a] for a in NEED_ACTIONS + NEED_ACTIONS_INSPECT}, refuted=refuted, wall_s=round(mc["wall_s"], 1))
    except Exception as ex:  # re-raised by the caller
        result["error"] = ex


# ----------------------------------------------------------------------------- scripts
def req(cmd, th=1, ids=None, gap=0):
    r = {"op": "req", "cmd": cmd, "th": th, "gap": gap}
    if ids is not None:
        r["ids"] = ids
    return r


def pick_ids(rng):
    k = rng.choice([0, 1, 1, 2, 3])
    return sorted(rng.sample([1, 2, 3, 4], k))


def pace(rng, steps, allow_batch=True):
    """What the client does before its next request: nothing (same write / next write), a short sleep, wait for a
    stop, wait for the responses, or settle."""
    c = rng.randrange(12)
    if c <= 2 and allow_batch:
        return -1      # next request goes into the same write()
    if c <= 4:
        return 0
    if c == 5:
        return rng.choice([20, 100, 400])
    if c == 6:
        steps.append({"op": "sleep", "us": rng.choice([1000, 3000])})
    elif c <= 8:
        steps.append({"op": "wait", "ms": rng.choice([5, 40])})
    elif c == 9:
        steps.append({"op": "sync"})
    else:
        steps.append({"op": "quiesce", "ms": rng.choice([3, 15]), "probe": rng.random() < 0.7})
    return 0


def gen_disciplined(rng, sid):
    steps = []
    gap = 0
    if rng.random() < 0.5:
        steps.append({"op": "wait", "ms": 30})
    for _ in range(rng.randrange(6, 22)):
        th = rng.choice([1, 1, 2, 2, 3])
        s = rng.random()
        stopped = (req("continue", th, gap=gap) if s < .3 else req("next", th, gap=gap) if s < .5 else req("stepIn", th, gap=gap) if s < .65
                   else req("stepOut", th, gap=gap) if s < .75 else req("setBreakpoints", ids=pick_ids(rng), gap=gap) if s < .9
                   else req("pause", th, gap=gap) if s < .95 else req("stackTrace", th, gap=gap))
        r = rng.random()
        running = (req("pause", th, gap=gap) if r < .4 else req("setBreakpoints", ids=pick_ids(rng), gap=gap) if r < .8
                   else req("threads", gap=gap) if r < .9 else {"op": "wait", "ms": 20})
        steps.append({"op": "cond", "stopped": stopped, "running": running})
        gap = pace(rng, steps)
    return {"id": sid, "kind": "disciplined", "entry": rng.random() < .4, "bps0": pick_ids(rng), "steps": steps}


def gen_hostile(rng, sid):
    steps = []
    gap = 0
    bursts = [["pause", "continue"], ["continue", "pause"], ["next", "continue", "pause"], ["pause", "continue", "pause"],
              ["stepIn", "pause"], ["continue", "setBreakpoints"], ["next", "setBreakpoints", "continue"], ["pause", "next"],
              ["continue", "continue"], ["stepOut", "stepIn"], ["pause", "pause"], ["setBreakpoints", "pause", "continue"]]
    for _ in range(rng.randrange(4, 14)):
        if rng.random() < .5:
            b = rng.choice(bursts)
            for i, c in enumerate(b):
                g = gap if i == 0 else rng.choice([-1, -1, -1, 0, 30])
                steps.append(req(c, rng.choice([1, 2]), ids=pick_ids(rng) if c == "setBreakpoints" else None, gap=g))
        else:
            c = rng.choice(["continue", "pause", "next", "stepIn", "stepOut", "setBreakpoints", "pause", "continue"])
            steps.append(req(c, rng.choice([1, 2, 3]), ids=pick_ids(rng) if c == "setBreakpoints" else None, gap=gap))
        gap = pace(rng, steps)
    return {"id": sid, "kind": "hostile", "entry": rng.random() < .4, "bps0": pick_ids(rng), "steps": steps}


def gen_provocation(rng, sid, rounds):
    """Lost stop: the client is stopped at a breakpoint on a hot statement and sends, in ONE write, continue and a
    setBreakpoints that installs the same breakpoint again: the next breakpoint stop races with the new generation."""
    hot = rng.choice([[2], [2], [3], [1, 2]])
    steps = [{"op": "wait", "ms": 300}]
    for _ in range(rounds):
        g = rng.choice([-1, -1, -1, 0, 20, 60])
        steps.append({"op": "cond", "stopped": {"op": "seq", "steps": [req("continue", 1), req("setBreakpoints", ids=hot, gap=g)]}})
        steps.append({"op": "wait", "ms": 30})
        steps.append({"op": "quiesce", "ms": 10, "probe": False})
    return {"id": sid, "kind": "provocation-lost-stop", "entry": False, "bps0": hot, "steps": steps}


def gen_provocation_order(rng, sid, rounds):
    """Order on the wire: the adapter runs on one CPU and every thread but the main thread has a real-time priority, so
    the cycle thread and the coordinator run as soon as the resuming action has woken them - before the main thread
    gets to what follows the action.  The next stop is one statement away (breakpoint in the loop body)."""
    steps = [{"op": "wait", "ms": 300}]
    for i in range(rounds):
        steps.append({"op": "cond", "stopped": req(rng.choice(["continue", "next", "stepIn"]), 1)})
        steps.append({"op": "wait", "ms": 30})
    return {"id": sid, "kind": "provocation-order", "entry": False, "bps0": [2], "steps": steps, "pin": 2 * sid + 1, "sched": "others-first"}


def gen_provocation_inspect(rng, sid):
    """Inspection request behind a continue in the same write, main thread first (one CPU, real-time priority): the
    request finds no snapshot and asks for the runtime mutex in the middle of a cycle whose next statement is a
    breakpoint."""
    steps = [{"op": "wait", "ms": 300},
             {"op": "cond", "stopped": {"op": "seq", "steps": [req("continue", 1), req("stackTrace", 1, gap=-1)]}},
             {"op": "sync"}, {"op": "wait", "ms": 30}]
    return {"id": sid, "kind": "provocation-inspect", "entry": False, "bps0": [2], "steps": steps, "pin": 2 * sid + 1, "sched": "main-first"}


def gen_provocation_stale_pause(rng, sid, rounds, pinned):
    """pause ... continue in ONE write, again and again while the program runs: whenever the cycle thread consumes the
    pending pause before the continue is handled, the Pause stop is in flight while continue clears pause_expected - the
    coordinator has to drop it if it looks afterwards.  pinned: one CPU, cycle thread above main thread above the
    coordinator, and a pipeline of harmless requests between pause and continue, so that the cycle thread's next cycle
    falls between the two and the coordinator cannot look before the pipeline is through (the drop is then forced)."""
    steps = []
    for _ in range(rounds):
        second = "continue" if pinned else rng.choice(["continue", "continue", "continue", "next"])
        steps.append(req("pause", rng.choice([1, 2]), gap=0))
        if pinned:
            steps += [req("threads", gap=-1) for _ in range(60)]
        steps.append(req(second, 1, gap=-1 if pinned else rng.choice([-1, -1, -1, 0, 30, 150])))
        steps.append({"op": "sleep", "us": 3000 if pinned else rng.choice([300, 1000, 2500, 4000])})
        if second != "continue":
            steps.append(req("continue", 1))
    sc = {"id": sid, "kind": "provocation-stale-pause", "entry": False, "bps0": [], "steps": steps}
    if pinned:
        sc.update(pin=2 * sid + 1, sched="runner-main-coord")
    return sc


def from_model(hist, rng, sid):
    init = hist[0]
    steps = []
    for h in hist[1:]:
        if h["op"] == "stopped":
            steps.append({"op": "wait", "ms": 40})
        else:
            ids = None
            if h["cmd"] == "setBreakpoints":
                ids = [] if h["n"] == 0 else [rng.choice([1, 2, 3, 4])]
            steps.append(req(h["cmd"], rng.choice([1, 2]), ids=ids, gap=rng.choice([-1, 0, 0, 100])))
    return {"id": sid, "kind": "model", "entry": init["cmd"] == "entry", "bps0": [rng.choice([1, 2, 3, 4])] if init["n"] else [], "steps": steps}


def make_scripts(tier, work):
    rng = random.Random(seed() * 7919 + 17)
    q = tier == "quick"
    sim = run_tlc("GenDapStop", "GenDapStop", workers=2, simulate=120 if q else 1500, depth=70, seed_=seed(), timeout=600,
                  tag="gen-c17dap")
    hists = {json.dumps(h, sort_keys=True) for h in tlc_printed(sim["stdout"], "SCRIPT")}
    hists = [json.loads(h) for h in sorted(hists)]
    rng.shuffle(hists)
    hists = hists[:60 if q else 900]
    if len(hists) < 20:
        raise ToolError(f"script export produced only {len(hists)} client histories")
    scripts = []
    for _ in range(2 if q else 4):      # first: a wedged run costs the full response timeout
        scripts.append(gen_provocation_inspect(rng, len(scripts)))
    for _ in range(4 if q else 16):
        scripts.append(gen_provocation_order(rng, len(scripts), 12))
    for _ in range(8 if q else 40):
        scripts.append(gen_provocation(rng, len(scripts), 25))
    for i in range(8 if q else 32):
        scripts.append(gen_provocation_stale_pause(rng, len(scripts), 10 if i % 2 else 30, pinned=i % 2 == 1))
    for h in hists:
        scripts.append(from_model(h, rng, len(scripts)))
    for _ in range(170 if q else 2600):
        scripts.append(gen_disciplined(rng, len(scripts)))
    for _ in range(90 if q else 1400):
        scripts.append(gen_hostile(rng, len(scripts)))
    path = work / "scripts.ndjson"
    with open(path, "w") as f:
        for s in scripts:
            f.write(json.dumps(s) + "\n")
    return scripts, path


# ----------------------------------------------------------------------------- validation
def validate_chunk(runs, work, tag, cfg):
    """One TLC pass (every run is an initial state of its own): (accepted runs, [(run, index of the first event no
    behaviour explains)], states)."""
    if not runs:
        return [], [], 0
    tr = work / f"{tag}.ndjson"
    with open(tr, "w") as f:
        for r in runs:
            for e in r:
                f.write(json.dumps(e) + "\n")
    verdict, res = validate_trace("DapStopTrace", tr, cfg=cfg, dfs=True, tag=tag, xmx="2g")
    total = sum(len(r) for r in runs)
    if verdict["events"] != total or verdict["runs"] != len(runs):
        raise ToolError("trace length mismatch")
    tr.unlink()
    accepted, rejected = [], []
    for r, start, reached in zip(runs, verdict["starts"], verdict["reached"]):
        k = reached - start          # Rec[start] is the run's Reset event = r[0]
        if k < 1 or k > len(r):
            raise ToolError(f"run starting at {start}: reached {reached} outside the run")
        if k == len(r):
            accepted.append(r)
        else:
            rejected.append((r, k))
    return accepted, rejected, res["distinct"]


def validate_all(runs, work, tag, cfg):
    chunks = [runs[i::CHUNKS] for i in range(CHUNKS)]
    acc, rej, states = [], [], 0
    with ThreadPoolExecutor(max_workers=CHUNKS) as ex:
        for a, r, s in ex.map(lambda ic: validate_chunk(ic[1], work, f"{tag}-{ic[0]}", cfg), enumerate(chunks)):
            acc += a
            rej += r
            states += s
    return acc, rej, states


def key_of(run, k):
    ev = run[k]
    a = ev["a"]
    if a == "Wedge":
        return f"dap:wedge:{ev.get('what')}" + (f":{ev['cmd']}" if ev.get("cmd") else "")
    if a == "Panic":
        return "dap:panic"
    if a == "Exit":
        return f"dap:exit:code-{ev.get('code')}"
    if a == "Quiesce":
        last = next((e for e in reversed(run[:k]) if e["a"] in ("CEmit", "CDrop")), None)
        if ev["view"] == "running":
            return "dap:lost-stop:" + ("no-decision" if last is None else f"{last['a']}:{last['reason']}:{last.get('why', '')}")
        return "dap:stopped-view-does-not-match-the-stop"
    if a in ("CEmit", "CDrop"):
        return f"dap:decision:{a}:{ev['reason']}" + (f":{ev['why']}" if ev.get("why") else "")
    if a == "Recv":
        return f"dap:wire:{ev['kind']}" + (f":{ev.get('cmd')}" if ev["kind"] == "response" else f":{ev.get('reason', '')}")
    if a in ("Act", "SetBps", "ClearBps"):
        rd = next((e for e in reversed(run[:k]) if e["a"] == "Read"), None)
        return f"dap:handler:{rd['cmd'] if rd else 'none'}:{a}:{ev.get('kind', '')}"
    if a in ("Log", "Read"):
        rd = next((e for e in reversed(run[:k]) if e["a"] == "Read"), None)
        return f"dap:handler:{rd['cmd'] if rd else 'none'}:{a}:{ev.get('kind', ev.get('cmd', ''))}"
    return f"dap:unexplained:{a}" + (f":{ev.get('reason')}" if ev.get("reason") else "")


def dap_stage(rep, tier, work, replay_run=None):
    """Runs the stage, reports violations on `rep`, returns the coverage dict (keys prefixed dap_)."""
    work.mkdir(parents=True, exist_ok=True)
    mcres = {}
    scripts = []
    if replay_run is not None:
        runs = [replay_run]
    else:
        t = threading.Thread(target=model_check, args=(tier, mcres))
        t.start()
        scripts, spath = make_scripts(tier, work)
        tr = work / "trace.ndjson"
        p = tpv(["dap-run", "--scripts", spath, "--work", work / "run", "--out", tr, "--jobs", 6], timeout=3000, check=False)
        if p.returncode != 0:
            t.join()
            raise ToolError(f"dap-run failed ({p.returncode}):\n{(p.stdout or '')[-3000:]}")
        runs = split_runs(read_ndjson(tr))
        if len(runs) != len(scripts):
            t.join()
            raise ToolError(f"{len(scripts)} scripts, {len(runs)} runs recorded")
    accepted, rejected, states = validate_all(runs, work, "trace-c17dap", "DapStopTrace")
    found = {"gendrop": 0, "order": 0, "other": 0}
    if rejected:
        # which of the rejected runs are instances of the two findings that have a switch in the trace specification?
        pending = [r for r, _ in rejected]
        first = {id(r): k for r, k in rejected}
        explained = {}
        for name in ("gendrop", "order", "both"):
            if not pending:
                break
            ok, still, s2 = validate_all(pending, work, f"trace-c17dap-{name}", f"DapStopTrace_{name}")
            states += s2
            for r in ok:
                explained[id(r)] = name
            pending = [r for r, _ in still]
            last = {id(r): k for r, k in still}
        for r, _ in rejected:
            sc = next((s for s in scripts if s["id"] == r[0].get("id")), None)
            why = explained.get(id(r))
            rid = f"DAP run {r[0].get('id')} ({r[0].get('kind')})"
            if why in ("gendrop", "both"):
                found["gendrop"] += 1
                k = first[id(r)] if why == "gendrop" else next((i for i, e in enumerate(r) if e["a"] == "CDrop" and e.get("why") == "generation"), 0)
                drop = next((e for e in reversed(r[:k + 1]) if e["a"] == "CDrop"), {})
                rep.violation("dap:lost-stop:breakpoint-generation-mismatch",
                              {"stage": "dap", "script": sc, "trace": r, "first_unmatched_event_index": k, "event": r[k]},
                              f"{rid}: the runtime waits in a Breakpoint stop (line {drop.get('line')}, generation {drop.get('gen')}) that the StopCoordinator "
                              "dropped for a generation mismatch; no stopped event, nothing resumes, pause is answered 'already paused'")
            if why in ("order", "both"):
                found["order"] += 1
                k = first[id(r)] if why == "order" else 0
                rep.violation("dap:order:stopped-event-before-response-of-the-resume",
                              {"stage": "dap", "script": sc, "trace": r, "first_unmatched_event_index": k, "event": r[k]},
                              f"{rid}: the stopped event of a stop that happened after a continue / step resumed the runtime is on the wire before "
                              "the response of that request (the stop gate is entered after the resuming action)")
            if why is None:
                found["other"] += 1
                k2 = last[id(r)]
                rep.violation(key_of(r, k2), {"stage": "dap", "script": sc, "trace": r, "first_unmatched_event_index": k2, "event": r[k2]},
                              f"{rid}: event {k2} ({r[k2]['a']}) is not a step of DapStop: {json.dumps(r[k2])[:200]}")
    if replay_run is None:
        t.join()
        if "error" in mcres:
            raise mcres["error"]
    allrows = [e for r in runs for e in r]
    cnt = lambda f: sum(1 for e in allrows if f(e))  # noqa: E731
    kinds = {}
    for r in runs:
        kinds[r[0].get("kind")] = kinds.get(r[0].get("kind"), 0) + 1
    return {
        "dap_model_states": mcres.get("model_distinct", 0), "dap_model_states_as_coded": mcres.get("ascoded_distinct", 0),
        "dap_model_states_inspect": mcres.get("inspect_distinct", 0),
        "dap_model_transitions": mcres.get("generated", 0), "dap_model_depth": mcres.get("depth", 0),
        "dap_model_action_coverage": mcres.get("action_coverage", {}), "dap_deviation_models_refuted": mcres.get("refuted", {}),
        "dap_scripts": len(runs), "dap_scripts_by_kind": kinds, "dap_runs_accepted": len(accepted),
        "dap_runs_lost_breakpoint_stop": found["gendrop"], "dap_runs_stopped_before_response": found["order"],
        "dap_runs_rejected_otherwise": found["other"],
        "dap_events_validated": sum(len(r) for r in accepted), "dap_trace_validation_states": states,
        "dap_requests": cnt(lambda e: e["a"] == "Send"), "dap_runtime_stops": cnt(lambda e: e["a"] == "RtStop"),
        "dap_stopped_events": cnt(lambda e: e["a"] == "Recv" and e.get("kind") == "stopped"),
        "dap_stops_dropped_pause_expected": cnt(lambda e: e["a"] == "CDrop" and e.get("why") == "pause_expected"),
        "dap_stops_dropped_generation": cnt(lambda e: e["a"] == "CDrop" and e.get("why") == "generation"),
        "dap_quiescent_points_judged": cnt(lambda e: e["a"] == "Quiesce"),
        "dap_distinct_runs": len({digest([{k: v for k, v in e.items() if k not in ("seq", "trlen")} for e in r[1:]]) for r in runs}),
    }
