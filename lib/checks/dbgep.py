"""C17 / C20 at the control endpoint: design-level TLC run of EndpointDebug (the deviation "pause is addressed to the
task that executed last" must violate PauseStops), then run-control request lines (`pause`, `resume`, `step_*`,
`breakpoints.set`, `breakpoints.clear_all`) sent to a real ControlServer --
  control mode debug (C17): in front of the DebugControl of a three-task runtime whose cycles a harness thread runs;
  control mode production (C20): in front of a real resource thread on the wall clock (ResourceControl), requests in
  quick succession and spaced --
and validation of the totally ordered request / stop-notification / cycle log against EndpointDebugTrace."""
from common import ToolError, read_ndjson, run_tlc, seed, split_runs, tpv, validate_trace


def endpoint_stage(rep, tier, work, mode):
    mc = run_tlc("MCEndpointDebug", "MCEndpointDebug", workers=2, coverage=True, timeout=600, tag=f"mc-endpoint-{mode}")
    cov = mc.get("action_coverage", {})
    for a in ("CycleStart", "CycleEnd", "ReqPause", "ReqResume", "ReqStep", "SetBp", "Collect"):
        if cov.get(a, 0) == 0:
            raise ToolError(f"vacuous EndpointDebug model run: action {a} never taken ({cov})")
    neg = run_tlc("MCEndpointDebug", "MCEndpointDebug_lastthread", workers=2, timeout=600, allow_violation=True, tag=f"mc-endpoint-{mode}-neg")
    if "Invariant PauseStops is violated" not in neg["stdout"]:
        raise ToolError("the deviation MCEndpointDebug_lastthread does not violate PauseStops:\n" + neg["stdout"][-1500:])
    n = (60 if tier == "quick" else 900) if mode == "debug" else (45 if tier == "quick" else 600)
    tr = work / f"endpoint-{mode}.ndjson"
    # in chunks of 60 runs, one process each (every run's endpoint fixture leaves threads behind)
    with open(tr, "w") as out:
        for off in range(0, n, 60):
            part = work / f"endpoint-{mode}.{off}.ndjson"
            tpv(["dbgep-run", "--mode", mode, "--seed", seed(), "--offset", off, "--runs", min(60, n - off), "--work", work / f"endpoint-{mode}-w", "--out", part], timeout=3000)
            out.write(part.read_text())
            part.unlink()
    rows = read_ndjson(tr)
    runs = split_runs(rows)
    verdict, _ = validate_trace("EndpointDebugTrace", tr, tag=f"trace-endpoint-{mode}")
    if verdict["events"] != len(rows) or verdict["runs"] != n:
        raise ToolError("EndpointDebugTrace did not consume every event / run")
    if verdict["pauses"] < n // 2 or (mode == "debug" and verdict["stops"] < n):
        raise ToolError(f"only {verdict['pauses']} pauses / {verdict['stops']} stops in {n} runs: nothing judged")
    for b in verdict["bad"]:
        r = runs[b["run"] - 1]
        why = "+".join(sorted(b["why"]))
        rep.violation(f"endpoint-{mode}:{why}",
                      {"endpoint": True, "mode": mode, "seed": seed(), "run": r[0], "rejected_event": rows[b["line"] - 1], "why": b["why"],
                       "trace": r[:20000], "cycles_in_run": sum(1 for e in r if e["a"] == "Cyc")},
                      f"control endpoint in mode {mode}, run {r[0].get('k')}: {why} (after {rows[b['line'] - 1]})")
    return {f"endpoint_{mode}_runs": n, f"endpoint_{mode}_events": len(rows), f"endpoint_{mode}_pauses": verdict["pauses"],
            f"endpoint_{mode}_stop_notifications": verdict["stops"], f"endpoint_{mode}_rejected": len(verdict["bad"]),
            "endpoint_model_states": mc.get("distinct", 0)}
