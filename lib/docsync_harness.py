"""C14 conformance harness (Python: trust-lsp is a binary without a library target).
  gen : seeded random scripts (ST documents with wide characters inside comments / string
        literals, edit notifications landing around them), and the embedding of the small
        abstract scripts exported by TLC (spec/MCDocSync.tla, Export) into ST documents;
  run : executes scripts on the REAL trust-lsp binary over stdio JSON-RPC (public protocol
        only) and records one ndjson event per specification action:
          Reset{id,from,marker} Open{text} Change{changes} Fresh{text}
          Query{kind,incr,fresh} Probe{who,i,n,ql,qc,has,l1,c1,l2,c2} Panic{who,at,msg}
        `incr` is the long-lived server that is fed didOpen(s0); didChange(c1..cn); `fresh` is
        the reference server that receives the editor's current text in ONE didOpen.
The text model below (UTF-16 columns, clamping) is only used to GENERATE valid positions and
to know which text to open in the reference server; DocSyncTrace re-derives all of it from
the notifications and rejects the harness (tool error) if the two ever disagree.
CLI:  docsync_harness.py gen --seed N --runs N --out F [--tier quick|thorough]
      docsync_harness.py run --bin trust-lsp --scripts F --out F [--jobs N]"""
import hashlib
import json
import os
import random
import sys
from concurrent.futures import ProcessPoolExecutor

sys.path.insert(0, os.path.dirname(os.path.abspath(__file__)))
from lspclient import LspServer, ServerDied, ServerTimeout  # noqa: E402

MARKER = "zqmark"
KINDS = ["formatting", "semanticTokens", "documentSymbol", "diagnostic"]
FMT_OPTS = {"tabSize": 4, "insertSpaces": True}


# ----------------------------------------------------------------------------- text model
def cps(s):
    return [ord(c) for c in s]


def w16(ch):
    return 2 if ord(ch) > 0xFFFF else 1


def line_start(text, n):
    """0-based index of the first code point of line n, None if there is no such line."""
    i = 0
    while n > 0:
        j = text.find("\n", i)
        if j < 0:
            return None
        i = j + 1
        n -= 1
    return i


def content_end(text, s):
    e = text.find("\n", s)
    if e < 0:
        return len(text)
    if e > s and text[e - 1] == "\r":
        return e - 1
    return e


def ends_crlf(text, s):
    e = text.find("\n", s)
    return e > s and text[e - 1] == "\r"


def to_index(text, line, col):
    s = line_start(text, line)
    if s is None:
        raise ValueError("no such line")
    stop = content_end(text, s)
    i = s
    while i < stop and col > 0:
        col -= w16(text[i])
        i += 1
    return i


def to_pos(text, i):
    line = text.count("\n", 0, i)
    s = text.rfind("\n", 0, i) + 1
    return line, sum(w16(c) for c in text[s:i])


def cursor_ok(text, i):
    return not (0 < i < len(text) and text[i - 1] == "\r" and text[i] == "\n")


def has_lone_cr(text):
    return any(c == "\r" and (k + 1 >= len(text) or text[k + 1] != "\n") for k, c in enumerate(text))


def apply_changes(text, changes):
    for ch in changes:
        if ch["full"]:
            text = ch["text"]
        else:
            a = to_index(text, ch["l1"], ch["c1"])
            b = to_index(text, ch["l2"], ch["c2"])
            text = text[:a] + ch["text"] + text[b:]
    return text


def full_change(t):
    return {"full": True, "l1": 0, "c1": 0, "l2": 0, "c2": 0, "text": t}


def ranged(p1, p2, t):
    return {"full": False, "l1": p1[0], "c1": p1[1], "l2": p2[0], "c2": p2[1], "text": t}


# ----------------------------------------------------------------------------- documents
def skeleton(k, template, eol, body):
    """An ST program with `body` inside a block comment / string literal, followed ON THE SAME
    LINE by an assignment to the marker variable; deliberately not in formatted shape, so that
    the formatting answer always carries the whole text.  Returns (text, body line, body column)."""
    head = [f"PROGRAM P{k}", f"VAR {MARKER} : INT; s : STRING; w : WSTRING; END_VAR"]
    if template == "comment":
        pre, post = "(* ", f" *) {MARKER}:=1;"
    elif template == "string":
        pre, post = "s:='", f"'; {MARKER}:=1;"
    else:
        pre, post = 'w:="', f'"; {MARKER}:=1;'
    text = eol.join(head) + eol + pre + body + post + eol + "END_PROGRAM" + eol
    return text, 2, len(pre)


def embed_tlc(s, idx, origin):
    """Embed an abstract script exported by TLC (texts over a 6-unit alphabet, positions inside
    that text) in an ST skeleton: line l -> l + 2, and the columns of its first line shift by
    the skeleton's prefix.  The exported expected texts are embedded too and compared with this
    module's own text model (a disagreement is a tool error, never a verdict)."""
    template = ("comment", "string", "wstring")[idx % 3]
    eol = "\n" if (idx // 3) % 2 == 0 else "\r\n"
    tostr = lambda q: "".join(chr(c) for c in q)           # noqa: E731
    doc, l0, c0 = skeleton(idx, template, eol, tostr(s["open"]))
    mp = lambda l, c: (l + l0, c + (c0 if l == 0 else 0))  # noqa: E731
    steps, expect = [], []
    for st in s["steps"]:
        chs = []
        for ch in st["changes"]:
            if ch["full"]:
                chs.append(full_change(skeleton(idx, template, eol, tostr(ch["text"]))[0]))
            else:
                chs.append(ranged(mp(ch["l1"], ch["c1"]), mp(ch["l2"], ch["c2"]), tostr(ch["text"])))
        steps.append({"changes": chs})
        expect.append(skeleton(idx, template, eol, tostr(st["after"]))[0])
    out = {"id": idx, "from": origin, "open": doc, "steps": steps, "expect": expect}
    model = doc
    for st, exp in zip(steps, expect):
        model = apply_changes(model, st["changes"])
        if model != exp:
            raise RuntimeError(f"text model of the harness disagrees with the specification's exported text: {s}")
    return out


ASCII_UNITS = list("abxyz019 _;:=+-,.<>") + ["y", " ", "  "]
BMP_UNITS = ["\u00e9", "\u00df", "\u03a9", "\u6f22", "\u8a9e", "\u20ac", "e\u0301", "\u200d", "\ufe0f", "\uffee"]
ASTRAL_UNITS = ["\U0001F600", "\U0001F389", "\U0001D518", "\U0001F1E9\U0001F1EA", "\U0010FFFD", "\U00010000",
                "\U0001F468\u200d\U0001F469"]
SNIPPETS = ["y", f"{MARKER}:=5;", " ", "(* c *)", "x1", ":=", ";", "'q'", "// t"]


def rand_unit(rng, eol, newlines=True):
    r = rng.random()
    if r < 0.36:
        return rng.choice(ASCII_UNITS)
    if r < 0.60:
        return rng.choice(BMP_UNITS)
    if r < 0.88:
        return rng.choice(ASTRAL_UNITS)
    if not newlines:
        return rng.choice(ASTRAL_UNITS)
    return eol if rng.random() < 0.8 else ("\r\n" if eol == "\n" else "\n")


def rand_doc(rng, k, eol):
    lines = [f"PROGRAM P{k}", f"VAR {MARKER} : INT; s : STRING; w : WSTRING; END_VAR"]
    for r in range(rng.randint(1, 3)):
        body = "".join(rand_unit(rng, eol, newlines=(rng.random() < 0.5)) for _ in range(rng.randint(0, 6)))
        shape = rng.random()
        if shape < 0.45:
            lines.append(f"(* {body} *) {MARKER}:={r + 1};")
        elif shape < 0.70:
            lines.append(f"s:='{body}'; {MARKER}:={r + 1};")
        elif shape < 0.85:
            lines.append(f'w:="{body}"; {MARKER}:={r + 1};')
        else:
            lines.append(f"{MARKER}:={r + 1}; // {body}")
    lines += ["END_PROGRAM", ""]
    return eol.join(lines)


def rand_position(rng, text, i, tier):
    """Report index i as an LSP position; sometimes with a column past the line end (legal: it
    defaults back to the line length).  thorough also produces the situations on which the
    protocol / property is silent (they are validated as inconclusive)."""
    line, col = to_pos(text, i)
    s = line_start(text, line)
    if i == content_end(text, s):
        crlf = ends_crlf(text, s)
        if not crlf and rng.random() < 0.15:
            return line, col + rng.randint(1, 6)
        if crlf and tier == "thorough" and rng.random() < 0.05:
            return line, col + rng.randint(1, 3)
    if tier == "thorough" and i > s and ord(text[i - 1]) > 0xFFFF and rng.random() < 0.02:
        return line, col - 1
    return line, col


def rand_index(rng, text):
    """A cursor position, biased towards places after a wide character on the same line."""
    if rng.random() < 0.7:
        hot = [i for i, c in enumerate(text) if ord(c) > 127]
        if hot:
            h = rng.choice(hot)
            e = content_end(text, text.rfind("\n", 0, h) + 1)
            i = rng.randint(h + 1, max(h + 1, e))
            return i if cursor_ok(text, i) else i - 1
    i = rng.randint(0, len(text))
    return i if cursor_ok(text, i) else i - 1


def rand_change(rng, text, k, eol, tier):
    if rng.random() < 0.05:
        return full_change(rand_doc(rng, k, eol))
    a = rand_index(rng, text)
    r = rng.random()
    if r < 0.40:
        b = a
    elif r < 0.85:
        b = min(len(text), a + rng.randint(1, 3))
    else:
        b = rand_index(rng, text)
    if not cursor_ok(text, b):
        b += 1
    a, b = min(a, b), max(a, b)
    r = rng.random()
    if r < 0.2 and b > a:
        new = ""
    elif r < 0.45:
        new = rng.choice(SNIPPETS)
    else:
        new = "".join(rand_unit(rng, eol) for _ in range(rng.randint(1, 3)))
    return ranged(rand_position(rng, text, a, tier), rand_position(rng, text, b, tier), new)


def gen_random(seed_, n, tier, first_id=1_000_000):
    rng = random.Random(seed_ * 7919 + 14)
    out = []
    while len(out) < n:
        k = first_id + len(out)
        eol = "\n" if rng.random() < 0.6 else "\r\n"
        doc = rand_doc(rng, k, eol)
        model, steps = doc, []
        for _ in range(rng.randint(1, 4)):
            chs = []
            for _ in range(rng.choice([1, 1, 1, 2, 3])):
                ch = rand_change(rng, model, k, eol, tier)
                chs.append(ch)
                model = apply_changes(model, [ch])
            steps.append({"changes": chs})
        if has_lone_cr(model):       # cannot happen by construction; never hand such a script on
            continue
        out.append({"id": k, "from": "random", "open": doc, "steps": steps})
    return out


# ----------------------------------------------------------------------------- running
def tokens_out_of_place(text, data):
    """Semantic tokens (relative encoding) that cannot be right for `text`, whatever the highlighting is: a token
    that starts beyond its line, overlaps its predecessor on the same line, or -- unless it starts a block comment
    or pragma, which may run over several lines -- ends beyond the end of its line.  Columns and lengths are UTF-16
    code units (LSP)."""
    lines = [l[:-1] if l.endswith("\r") else l for l in text.split("\n")]
    bad, line, col, prev_end = 0, 0, 0, 0
    for i in range(0, len(data) - 4, 5):
        dl, dc, ln = data[i], data[i + 1], data[i + 2]
        if dl:
            line, col, prev_end = line + dl, dc, 0
        else:
            col += dc
        if line >= len(lines):
            bad += 1
            continue
        L = lines[line]
        l16 = sum(w16(c) for c in L)
        # the text of the line from column `col` on
        k, u = 0, 0
        while k < len(L) and u < col:
            u += w16(L[k])
            k += 1
        rest = L[k:]
        if col > l16 or u != col or col < prev_end:
            bad += 1
        elif not (rest.startswith("(*") or rest.startswith("/*") or rest.startswith("{")) and col + ln > l16:
            bad += 1
        prev_end = col + ln
    return bad


def from_pos(text, line, col):
    """Index of (line, UTF-16 column) in text, None when there is no such place."""
    s = 0
    for _ in range(line):
        s = text.find("\n", s) + 1
        if s == 0:
            return None
    u = 0
    while u < col:
        if s >= len(text) or text[s] == "\n":
            return None
        u += w16(text[s])
        s += 1
    return s if u == col else None


RENAMED = "zqrenamed"


def rename_out_of_place(text, resp, uri, probed):
    """A textDocument/rename answer for the marker variable that cannot be right for `text`: an edit whose range
    (UTF-16 columns) is not exactly one spelling of the marker, whose new text is not the requested name, that
    touches another document.  (Whether every occurrence is found is C16's subject and not judged here: in a text that
    does not parse, an occurrence inside the damaged statement -- even the one pointed at -- may be left alone.)
    Returns -1 when the server refused (error / null), else the number of such edits."""
    res = resp.get("result") if isinstance(resp, dict) else None
    if not isinstance(res, dict):
        return -1
    edits = []
    for u, es in (res.get("changes") or {}).items():
        edits += [(u, e) for e in es]
    for dc in res.get("documentChanges") or []:
        if isinstance(dc, dict) and "edits" in dc:
            edits += [(dc.get("textDocument", {}).get("uri"), e) for e in dc["edits"]]
    bad = 0
    for u, e in edits:
        r = e.get("range", {})
        a = from_pos(text, r.get("start", {}).get("line", -1), r.get("start", {}).get("character", -1)) if u == uri else None
        b = from_pos(text, r.get("end", {}).get("line", -1), r.get("end", {}).get("character", -1)) if u == uri else None
        if a is None or b is None or text[a:b].lower() != MARKER or e.get("newText") != RENAMED:
            bad += 1
    return bad


def norm(x):
    """Answers are compared as they are, minus the per-server request counters."""
    if isinstance(x, dict):
        return {k: norm(v) for k, v in x.items() if k != "resultId"}
    if isinstance(x, list):
        return [norm(v) for v in x]
    return x


def answer_of(resp):
    if "error" in resp:
        return {"error": {"code": resp["error"].get("code"), "message": resp["error"].get("message")}}
    return {"result": norm(resp.get("result"))}


def digest(x):
    return hashlib.sha256(json.dumps(x, sort_keys=True, ensure_ascii=True).encode()).hexdigest()[:20]


def request_of(kind, uri):
    td = {"textDocument": {"uri": uri}}
    if kind == "formatting":
        return "textDocument/formatting", dict(td, options=FMT_OPTS)
    if kind == "semanticTokens":
        return "textDocument/semanticTokens/full", td
    if kind == "documentSymbol":
        return "textDocument/documentSymbol", td
    if kind == "diagnostic":
        return "textDocument/diagnostic", td
    raise ValueError(kind)


def code_at(text, i):
    """Reading from the start, index i is reached outside every comment with nothing before it
    outside comments but ASCII that can open neither a string, a pragma nor a // or /* comment
    (the rule of DocSyncTrace.CodeAt)."""
    j, in_c = 0, False
    while j < i:
        two = text[j:j + 2]
        if in_c:
            if two == "*)":
                j, in_c = j + 2, False
            elif two == "(*":
                return False
            else:
                j += 1
        elif two == "(*":
            if text[j + 2:j + 3] == ")":
                return False
            j, in_c = j + 2, True
        elif ord(text[j]) > 126 or text[j] in "'\"{}/":
            return False
        else:
            j += 1
    return j == i and not in_c


def probe_target(text):
    """Index (0-based) of one occurrence of the marker that is certainly an identifier token (same
    rule as DocSyncTrace.Isolated), preferring the one with most wide characters before it on its line."""
    left = set(" \t\n;)")
    right = set(" \t\n\r:;)(+-*,<>=")
    best, i = None, text.find(MARKER)
    while i >= 0:
        j = i + len(MARKER)
        if (i == 0 or text[i - 1] in left) and (j >= len(text) or text[j] in right) and code_at(text, i):
            s = text.rfind("\n", 0, i) + 1
            score = sum(2 if ord(c) > 0xFFFF else 1 for c in text[s:i] if ord(c) > 127)
            if best is None or score > best[0]:
                best = (score, i)
        i = text.find(MARKER, i + 1)
    return None if best is None else best[1]


class Died(Exception):
    def __init__(self, who, at, msg):
        super().__init__(msg)
        self.who, self.at, self.msg = who, at, msg


class Session:
    """One `incr` server and one `fresh` reference server.  isolate=True: a brand-new reference
    PROCESS for every observation (used to confirm a divergence and for --replay)."""

    def __init__(self, binary, workdir, isolate=False, keep_answers=False, timeout=60):
        self.binary, self.workdir, self.isolate, self.keep, self.timeout = binary, workdir, isolate, keep_answers, timeout
        self.A = self.B = None
        self.user = None

    def start(self, which):
        if which == "A":
            self.A = LspServer(self.binary, name="incr", workdir=self.workdir)
        else:
            self.B = LspServer(self.binary, name="fresh", workdir=self.workdir)

    def stop(self, which=None):
        for w in (["A", "B"] if which is None else [which]):
            s = getattr(self, w)
            if s is not None:
                try:
                    s.close()
                except Exception:
                    pass
                setattr(self, w, None)

    def call(self, who, at, fn):
        try:
            return fn()
        except ServerDied as ex:
            if at == "start":       # a binary that cannot even initialise says nothing about document sync
                raise RuntimeError(f"the {who} server did not start: {ex}")
            raise Died(who, at, str(ex)[:500])

    def forget(self, srv, uri):
        srv.notify("textDocument/didClose", {"textDocument": {"uri": uri}})
        srv.notify("workspace/didChangeWatchedFiles", {"changes": [{"uri": uri, "type": 3}]})

    def observe(self, uri, model, kinds, ev, full):
        if self.B is None:
            self.call("fresh", "start", lambda: self.start("B"))
        A, B = self.A, self.B
        self.call("fresh", "Fresh", lambda: B.notify("textDocument/didOpen", {"textDocument": {
            "uri": uri, "languageId": "structured-text", "version": 1, "text": model}}))
        ev.append({"a": "Fresh", "text": cps(model)})
        reqs = []
        for k in kinds:
            m, p = request_of(k, uri)
            ia = self.call("incr", f"Query:{k}", lambda: A.send_request(m, p))
            ib = self.call("fresh", f"Query:{k}", lambda: B.send_request(m, p))
            reqs.append((k, ia, ib))
        probe = None
        i = probe_target(model)
        if i is not None:
            ql, qc = to_pos(model, i)
            p = {"textDocument": {"uri": uri}, "position": {"line": ql, "character": qc}}
            ia = self.call("incr", "Probe", lambda: A.send_request("textDocument/prepareRename", p))
            ib = self.call("fresh", "Probe", lambda: B.send_request("textDocument/prepareRename", p))
            p2 = dict(p, newName=RENAMED)
            ja = self.call("incr", "Probe", lambda: A.send_request("textDocument/rename", p2))
            jb = self.call("fresh", "Probe", lambda: B.send_request("textDocument/rename", p2))
            probe = (i, ql, qc, ia, ib, ja, jb)
        for k, ia, ib in reqs:
            ra = answer_of(self.call("incr", f"Query:{k}", lambda: A.wait(ia, self.timeout)))
            rb = answer_of(self.call("fresh", f"Query:{k}", lambda: B.wait(ib, self.timeout)))
            e = {"a": "Query", "kind": k, "incr": digest(ra), "fresh": digest(rb)}
            res = rb.get("result") if isinstance(rb, dict) else None
            if k == "semanticTokens" and isinstance(res, dict) and isinstance(res.get("data"), list):
                e["tokBad"] = tokens_out_of_place(model, res["data"])
            ev.append(e)
            if self.keep:
                full.append({"after_event": len(ev), "kind": k, "incr": ra, "fresh": rb})
        if probe is not None:
            i, ql, qc, ia, ib, ja, jb = probe
            e = {"a": "Probe", "i": i + 1, "n": len(MARKER), "ql": ql, "qc": qc}
            for who, srv, rid in (("incr", A, ia), ("fresh", B, ib)):
                r = self.call(who, "Probe", lambda: srv.wait(rid, self.timeout))
                rng = r.get("result") if isinstance(r.get("result"), dict) else None
                if rng is not None and "range" in rng:
                    rng = rng["range"]
                e[who] = {"has": False, "l1": 0, "c1": 0, "l2": 0, "c2": 0}
                if rng is not None and "start" in rng and "end" in rng:
                    e[who] = {"has": True, "l1": rng["start"]["line"], "c1": rng["start"]["character"],
                              "l2": rng["end"]["line"], "c2": rng["end"]["character"]}
            # the rename itself: both servers hold the editor's text, so their edits must sit on spellings of the
            # marker in that text (UTF-16 columns) and include the occurrence pointed at
            ra = self.call("incr", "Probe", lambda: A.wait(ja, self.timeout))
            rb = self.call("fresh", "Probe", lambda: B.wait(jb, self.timeout))
            # placement is judged on the reference server's answer (it was opened on the editor's text); the incremental
            # server's answer must EQUAL it -- as a Query event, so that the specification's own rule applies to a
            # history that contains a change without defined meaning (start after end, a line that does not exist): what
            # the server holds then is not determined, and nothing is judged
            e["renIncr"] = rename_out_of_place(model, ra, uri, i)
            e["renFresh"] = rename_out_of_place(model, rb, uri, i)
            ev.append(e)
            ev.append({"a": "Query", "kind": "rename", "incr": digest(answer_of(ra)), "fresh": digest(answer_of(rb))})
            if self.keep:
                full.append({"after_event": len(ev), "kind": "prepareRename", "position": [ql, qc]})
                full.append({"after_event": len(ev), "kind": "rename", "incr": answer_of(ra), "fresh": answer_of(rb)})
        if self.isolate:
            self.stop("B")
        else:
            self.call("fresh", "forget", lambda: self.forget(B, uri))

    def observe_closed(self, uri, text, ev, full):
        """A file that no editor has open: the incremental server knows it from the disk (it was told about the rewrite),
        the reference server is given the same text in a didOpen.  Their symbol lists must agree."""
        if self.B is None:
            self.call("fresh", "start", lambda: self.start("B"))
        A, B = self.A, self.B
        td = {"textDocument": {"uri": uri}}
        ia = self.call("incr", "Query:closedFileSymbols", lambda: A.send_request("textDocument/documentSymbol", td))
        self.call("fresh", "Fresh", lambda: B.notify("textDocument/didOpen", {"textDocument": {
            "uri": uri, "languageId": "structured-text", "version": 1, "text": text}}))
        ib = self.call("fresh", "Query:closedFileSymbols", lambda: B.send_request("textDocument/documentSymbol", td))
        ra = answer_of(self.call("incr", "Query:closedFileSymbols", lambda: A.wait(ia, self.timeout)))
        rb = answer_of(self.call("fresh", "Query:closedFileSymbols", lambda: B.wait(ib, self.timeout)))
        ev.append({"a": "Query", "kind": "closedFileSymbols", "incr": digest(ra), "fresh": digest(rb)})
        if self.keep:
            full.append({"after_event": len(ev), "kind": "closedFileSymbols", "disk_text": text, "incr": ra, "fresh": rb})
        # ... and a document that IS open and calls a function of that file: its pulled diagnostics depend on the other
        # file.  The incremental server is asked the way a client asks -- with the resultId of its previous report, and
        # an answer `unchanged` stands for that previous report.
        if self.user is not None:
            uuri, utext = self.user["uri"], self.user["text"]
            p = {"textDocument": {"uri": uuri}}
            if self.user.get("rid") is not None:
                p["previousResultId"] = self.user["rid"]
            ia = self.call("incr", "Query:dependentDiagnostics", lambda: A.send_request("textDocument/diagnostic", p))
            self.call("fresh", "Fresh", lambda: B.notify("textDocument/didOpen", {"textDocument": {
                "uri": uuri, "languageId": "structured-text", "version": 1, "text": utext}}))
            ib = self.call("fresh", "Query:dependentDiagnostics", lambda: B.send_request("textDocument/diagnostic", {"textDocument": {"uri": uuri}}))
            xa = self.call("incr", "Query:dependentDiagnostics", lambda: A.wait(ia, self.timeout))
            xb = self.call("fresh", "Query:dependentDiagnostics", lambda: B.wait(ib, self.timeout))
            res = xa.get("result") if isinstance(xa.get("result"), dict) else {}
            if res.get("kind") == "unchanged":
                items = self.user.get("items")
            else:
                items = res.get("items")
                self.user["items"] = items
            if res.get("resultId") is not None:
                self.user["rid"] = res["resultId"]
            rbres = xb.get("result") if isinstance(xb.get("result"), dict) else {}
            da, db = digest(norm(items)), digest(norm(rbres.get("items")))
            ev.append({"a": "Query", "kind": "dependentDiagnostics", "incr": da, "fresh": db})
            if self.keep:
                full.append({"after_event": len(ev), "kind": "dependentDiagnostics", "disk_text": text, "incr": answer_of(xa), "fresh": answer_of(xb),
                             "incr_effective_items": items})
            if not self.isolate:
                self.call("fresh", "forget", lambda: self.forget(B, uuri))
        if self.isolate:
            self.stop("B")
        else:
            self.call("fresh", "forget", lambda: self.forget(B, uri))

    def run_script(self, s, kinds):
        """Returns (events, full answers).  A server that dies is recorded as a Panic event."""
        ev = [{"a": "Reset", "id": s["id"], "from": s.get("from", ""), "marker": cps(MARKER)}]
        full = []
        uri = f"file:///verif-docsync/s{s['id']}/main.st"
        # Every third script lives in a real file: between the notifications somebody else rewrites that file on disk
        # and the server is told through workspace/didChangeWatchedFiles.  For the property nothing happens -- the
        # document is open, the editor's buffer is the truth -- so these steps are not part of the recorded history.
        disk_path = None
        if s["id"] % 3 == 0 and self.workdir:
            d = os.path.join(str(self.workdir), "disk", f"s{s['id']}")
            os.makedirs(d, exist_ok=True)
            disk_path = os.path.join(d, "main.st")
            with open(disk_path, "w", encoding="utf-8", newline="") as f:
                f.write(s["open"])
            uri = "file://" + disk_path
        # ... and next to it lies a file that is never opened: what the server knows about it comes from the disk, and
        # it is told about every rewrite.  The file keeps its length in most rewrites (one digit of a name changes).
        dep_path = os.path.join(os.path.dirname(disk_path), "dep.st") if disk_path is not None else None
        self.user = None
        try:
            if self.A is None:
                self.call("incr", "start", lambda: self.start("A"))
            A = self.A
            self.call("incr", "Open", lambda: A.notify("textDocument/didOpen", {"textDocument": {
                "uri": uri, "languageId": "structured-text", "version": 1, "text": s["open"]}}))
            ev.append({"a": "Open", "text": cps(s["open"])})
            model = s["open"]
            self.observe(uri, model, kinds, ev, full)
            if dep_path is not None:
                k0 = (s["id"] + 1) % 10
                utext = f"PROGRAM ZqUser{s['id']}\nVAR r : INT; END_VAR\nr := zqdep{k0}();\nEND_PROGRAM\n"
                upath = os.path.join(os.path.dirname(disk_path), "user.st")
                with open(upath, "w", encoding="utf-8", newline="") as f:
                    f.write(utext)
                self.user = {"uri": "file://" + upath, "text": utext, "rid": None, "items": None}
                self.call("incr", "Open", lambda: A.notify("textDocument/didOpen", {"textDocument": {
                    "uri": self.user["uri"], "languageId": "structured-text", "version": 1, "text": utext}}))
            for n, st in enumerate(s["steps"]):
                changes = []
                # Every other script sends the deprecated `rangeLength` as well (vscode-languageclient does): the
                # length of the replaced text in UTF-16 units, computed on the editor's text as it is when this
                # change of the notification applies.  The range stays authoritative (LSP 3.17).
                with_len = (s.get("id", 0) + n) % 2 == 0
                interim = model
                for ch in st["changes"]:
                    c = {"text": ch["text"]}
                    if not ch["full"]:
                        c["range"] = {"start": {"line": ch["l1"], "character": ch["c1"]},
                                      "end": {"line": ch["l2"], "character": ch["c2"]}}
                        if with_len:
                            try:
                                a, b = to_index(interim, ch["l1"], ch["c1"]), to_index(interim, ch["l2"], ch["c2"])
                                c["rangeLength"] = sum(w16(x) for x in interim[a:b])
                            except ValueError:
                                pass
                    try:
                        interim = apply_changes(interim, [ch])
                    except ValueError:
                        pass
                    changes.append(c)
                self.call("incr", "Change", lambda: A.notify("textDocument/didChange", {
                    "textDocument": {"uri": uri, "version": n + 2}, "contentChanges": changes}))
                ev.append({"a": "Change", "changes": [dict(ch, text=cps(ch["text"])) for ch in st["changes"]]})
                if disk_path is not None and (s["id"] + n) % 2 == 0:
                    with open(disk_path, "w", encoding="utf-8", newline="") as f:
                        f.write("(* rewritten on disk *)\nPROGRAM OnDisk\nVAR other : BOOL; END_VAR\nother := TRUE;\nEND_PROGRAM\n")
                    self.call("incr", "Watched", lambda: A.notify("workspace/didChangeWatchedFiles", {"changes": [{"uri": uri, "type": 2}]}))
                if dep_path is not None:
                    k = (s["id"] + n) % 10
                    name = f"zqdep{k}" + ("_longer" if (s["id"] + n) % 4 == 3 else "")
                    dep_text = f"FUNCTION {name} : INT\n{name} := {k};\nEND_FUNCTION\n"
                    existed = os.path.exists(dep_path)
                    with open(dep_path, "w", encoding="utf-8", newline="") as f:
                        f.write(dep_text)
                    dep_uri = "file://" + dep_path
                    self.call("incr", "Watched", lambda: A.notify("workspace/didChangeWatchedFiles", {"changes": [{"uri": dep_uri, "type": 2 if existed else 1}]}))
                    self.observe_closed(dep_uri, dep_text, ev, full)
                try:
                    model = apply_changes(model, st["changes"])
                except ValueError:
                    break           # a line that does not exist: no defined meaning, nothing more to observe
                self.observe(uri, model, kinds, ev, full)
            if self.user is not None:
                self.call("incr", "forget", lambda: self.forget(A, self.user["uri"]))
                try:
                    os.unlink(self.user["uri"][len("file://"):])
                except OSError:
                    pass
                self.user = None
            if dep_path is not None and os.path.exists(dep_path):
                os.unlink(dep_path)
                self.call("incr", "Watched", lambda: A.notify("workspace/didChangeWatchedFiles", {"changes": [{"uri": "file://" + dep_path, "type": 3}]}))
            if self.isolate:
                self.stop("A")
            else:
                self.call("incr", "forget", lambda: self.forget(A, uri))
        except Died as ex:
            ev.append({"a": "Panic", "who": ex.who, "at": ex.at, "msg": ex.msg})
            self.stop()             # both servers restart before the next script
        return ev, full


def _worker(args):
    binary, workdir, scripts, kinds, isolate, keep = args
    sess = Session(binary, workdir, isolate=isolate, keep_answers=keep)
    out = []
    try:
        for s in scripts:
            out.append(sess.run_script(s, kinds))
    finally:
        sess.stop()
    return out


def run_scripts(binary, scripts, workdir, *, kinds=KINDS, jobs=8, isolate=False, keep_answers=False):
    """Execute the scripts on the real binary; returns [(events, full answers)] in script order.
    Raises ServerTimeout if a live server stays silent (tool error for the caller)."""
    os.makedirs(workdir, exist_ok=True)
    if not scripts:
        return []
    jobs = max(1, min(jobs, len(scripts)))
    chunks = [scripts[i::jobs] for i in range(jobs)]
    args = [(str(binary), str(workdir), c, kinds, isolate, keep_answers) for c in chunks]
    if jobs == 1:
        res = [_worker(args[0])]
    else:
        with ProcessPoolExecutor(max_workers=jobs) as ex:
            res = list(ex.map(_worker, args))
    out = [None] * len(scripts)
    for j, r in enumerate(res):
        for n, x in enumerate(r):
            out[j + n * jobs] = x
    return out


# ----------------------------------------------------------------------------- CLI
def gen(argv):
    import argparse
    ap = argparse.ArgumentParser()
    ap.add_argument("--seed", type=int, default=1)
    ap.add_argument("--runs", type=int, default=100)
    ap.add_argument("--tier", default="quick")
    ap.add_argument("--out", required=True)
    a = ap.parse_args(argv)
    with open(a.out, "w") as f:
        for s in gen_random(a.seed, a.runs, a.tier):
            f.write(json.dumps(s) + "\n")
    return 0


def run(argv):
    import argparse
    ap = argparse.ArgumentParser()
    ap.add_argument("--bin", required=True)
    ap.add_argument("--scripts", required=True)
    ap.add_argument("--out", required=True)
    ap.add_argument("--jobs", type=int, default=8)
    ap.add_argument("--isolate", action="store_true")
    a = ap.parse_args(argv)
    scripts = [json.loads(x) for x in open(a.scripts) if x.strip()]
    res = run_scripts(os.path.abspath(a.bin), scripts, os.path.dirname(os.path.abspath(a.out)), jobs=a.jobs, isolate=a.isolate)
    with open(a.out, "w") as f:
        for ev, _ in res:
            for e in ev:
                f.write(json.dumps(e) + "\n")
    return 0


if __name__ == "__main__":
    if len(sys.argv) < 2 or sys.argv[1] not in ("gen", "run"):
        print(__doc__)
        sys.exit(2)
    try:
        sys.exit(gen(sys.argv[2:]) if sys.argv[1] == "gen" else run(sys.argv[2:]))
    except ServerTimeout as ex_:
        print(f"TOOL-ERROR: {ex_}")
        sys.exit(2)
