"""Names and arities of the standard functions of /repo, scraped from the registration calls in
crates/trust-runtime/src/stdlib/*.rs (the registry has no public iterator), plus the conversion
names the dispatcher resolves by pattern (`<A>_TO_<B>`, `TO_<B>`, `<A>_TRUNC_<B>`, BCD forms)."""
import re
from pathlib import Path

TYPES = ["BOOL", "SINT", "INT", "DINT", "LINT", "USINT", "UINT", "UDINT", "ULINT", "REAL", "LREAL", "BYTE", "WORD", "DWORD", "LWORD",
         "TIME", "LTIME", "DATE", "TOD", "DT", "LDATE", "LTOD", "LDT", "STRING", "WSTRING", "CHAR", "WCHAR"]


def scrape(repo: Path):
    funcs = {}
    src_dir = repo / "crates/trust-runtime/src/stdlib"
    for f in sorted(src_dir.glob("*.rs")):
        text = f.read_text(errors="replace")
        for m in re.finditer(r'\.register\(\s*"([A-Za-z_0-9]+)"\s*,\s*&\[([^\]]*)\]', text, re.S):
            n = len(re.findall(r'"[^"]*"', m.group(2)))
            funcs.setdefault(m.group(1).upper(), set()).add(n)
        for m in re.finditer(r'\.register_variadic\(\s*"([A-Za-z_0-9]+)"\s*,\s*"[^"]*"\s*,\s*(\d+)\s*,\s*(\d+)', text, re.S):
            mn = int(m.group(3))
            funcs.setdefault(m.group(1).upper(), set()).update({mn, mn + 1, mn + 2})
        for m in re.finditer(r'\.register_variadic_with_fixed\(\s*"([A-Za-z_0-9]+)"\s*,\s*&\[([^\]]*)\]\s*,\s*"[^"]*"\s*,\s*(\d+)\s*,\s*(\d+)', text, re.S):
            fixed = len(re.findall(r'"[^"]*"', m.group(2)))
            mn = int(m.group(4))
            funcs.setdefault(m.group(1).upper(), set()).update({fixed + mn, fixed + mn + 1})
    out = [{"name": k, "arities": sorted(a for a in v if 1 <= a <= 5), "from": "registry"} for k, v in sorted(funcs.items())]
    out = [f for f in out if f["arities"]]
    conv = set()
    for a in TYPES:
        conv.add(f"TO_{a}")
        conv.add(f"TRUNC_{a}")
        conv.add(f"BCD_TO_{a}")
        conv.add(f"{a}_TO_BCD")
        conv.add(f"TO_BCD_{a}")
        for b in TYPES:
            if a != b:
                conv.add(f"{a}_TO_{b}")
                conv.add(f"{a}_BCD_TO_{b}")
                conv.add(f"{a}_TO_BCD_{b}")
            if a in ("REAL", "LREAL"):
                conv.add(f"{a}_TRUNC_{b}")
    conv.add("TRUNC")
    out += [{"name": c, "arities": [1], "from": "conversion-pattern"} for c in sorted(conv)]
    return out
