#!/bin/sh
# Offline setup after a fresh restore: build the conformance harness (path deps on /repo), the
# LD_PRELOAD crash shim, the trust-lsp binary the LSP-facing checks drive and the trust-runtime binary
# (its `conformance` sub-command is driven by C02).
set -e
cd "$(dirname "$0")"
mkdir -p out evidence
export CARGO_NET_OFFLINE=true
(cd harness && cargo build --offline --quiet)
gcc -shared -fPIC -O1 -o out/crashshim.so harness/shim/crashshim.c -ldl
(cd harness && cargo build --offline --quiet --manifest-path /repo/Cargo.toml -p trust-lsp --bin trust-lsp --target-dir "$(pwd)/target-repo")
(cd harness && cargo build --offline --quiet --manifest-path /repo/Cargo.toml -p trust-runtime --bin trust-runtime --target-dir "$(pwd)/target-repo")
echo "setup ok"
