#!/bin/sh
# Offline setup after a fresh restore: build the conformance harness (path deps on /repo).
set -e
cd "$(dirname "$0")"
mkdir -p out evidence
export CARGO_NET_OFFLINE=true
(cd harness && cargo build --offline --quiet)
gcc -shared -fPIC -O1 -o out/crashshim.so harness/shim/crashshim.c -ldl
echo "setup ok"
