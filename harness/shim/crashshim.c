// LD_PRELOAD shim: logs file-system syscalls touching paths under $TPV_WATCH and kills the
// process at the N-th logged step ($TPV_KILL_AT), optionally after a partial write ($TPV_PARTIAL bytes).
#define _GNU_SOURCE
#include <dlfcn.h>
#include <fcntl.h>
#include <stdarg.h>
#include <stdio.h>
#include <stdlib.h>
#include <string.h>
#include <signal.h>
#include <unistd.h>
#include <sys/types.h>

static int watched_fd[1024];
static int step = 0;
static const char *watch(void) { return getenv("TPV_WATCH"); }
static void logline(const char *fmt, ...) {
    const char *path = getenv("TPV_LOG"); if (!path) return;
    int (*real_open)(const char *, int, ...) = dlsym(RTLD_NEXT, "open");
    ssize_t (*real_write)(int, const void *, size_t) = dlsym(RTLD_NEXT, "write");
    int (*real_close)(int) = dlsym(RTLD_NEXT, "close");
    char buf[512]; va_list ap; va_start(ap, fmt); int n = vsnprintf(buf, sizeof buf, fmt, ap); va_end(ap);
    int fd = real_open(path, O_WRONLY | O_CREAT | O_APPEND, 0644); if (fd < 0) return;
    real_write(fd, buf, n); real_close(fd);
}
static int is_watched_path(const char *p) { const char *w = watch(); return w && p && strstr(p, w) != NULL; }
static int kill_now(void) { const char *k = getenv("TPV_KILL_AT"); return k && atoi(k) == step; }
static void die(void) { logline("{\"a\":\"Kill\",\"at\":%d}\n", step); kill(getpid(), SIGKILL); }

int openat(int dirfd, const char *path, int flags, ...) {
    static int (*real)(int, const char *, int, ...) = NULL; if (!real) real = dlsym(RTLD_NEXT, "openat");
    mode_t mode = 0; if (flags & (O_CREAT | O_TMPFILE)) { va_list ap; va_start(ap, flags); mode = va_arg(ap, mode_t); va_end(ap); }
    if (is_watched_path(path) && (flags & (O_WRONLY | O_RDWR))) {
        step++; if (kill_now()) die();
        int fd = real(dirfd, path, flags, mode);
        if (fd >= 0 && fd < 1024) watched_fd[fd] = 1;
        logline("{\"a\":\"Sys\",\"n\":%d,\"op\":\"open\",\"path\":\"%s\",\"trunc\":%s,\"creat\":%s,\"ret\":%d}\n", step, path, (flags & O_TRUNC) ? "true" : "false", (flags & O_CREAT) ? "true" : "false", fd);
        return fd;
    }
    return real(dirfd, path, flags, mode);
}
int open64(const char *path, int flags, ...) { mode_t mode = 0; if (flags & (O_CREAT | O_TMPFILE)) { va_list ap; va_start(ap, flags); mode = va_arg(ap, mode_t); va_end(ap); } return openat(AT_FDCWD, path, flags, mode); }
int open(const char *path, int flags, ...) { mode_t mode = 0; if (flags & (O_CREAT | O_TMPFILE)) { va_list ap; va_start(ap, flags); mode = va_arg(ap, mode_t); va_end(ap); } return openat(AT_FDCWD, path, flags, mode); }
ssize_t write(int fd, const void *buf, size_t len) {
    static ssize_t (*real)(int, const void *, size_t) = NULL; if (!real) real = dlsym(RTLD_NEXT, "write");
    if (fd >= 0 && fd < 1024 && watched_fd[fd]) {
        step++;
        if (kill_now()) { const char *p = getenv("TPV_PARTIAL"); size_t k = p ? (size_t)atoi(p) : 0; if (k > len) k = len; if (k > 0) real(fd, buf, k); logline("{\"a\":\"Sys\",\"n\":%d,\"op\":\"write\",\"fd\":%d,\"len\":%zu,\"ret\":%zu,\"partial\":true}\n", step, fd, len, k); die(); }
        ssize_t r = real(fd, buf, len);
        logline("{\"a\":\"Sys\",\"n\":%d,\"op\":\"write\",\"fd\":%d,\"len\":%zu,\"ret\":%zd}\n", step, fd, len, r);
        return r;
    }
    return real(fd, buf, len);
}
int fsync(int fd) { static int (*real)(int) = NULL; if (!real) real = dlsym(RTLD_NEXT, "fsync");
    if (fd >= 0 && fd < 1024 && watched_fd[fd]) { step++; if (kill_now()) die(); int r = real(fd); logline("{\"a\":\"Sys\",\"n\":%d,\"op\":\"fsync\",\"fd\":%d,\"ret\":%d}\n", step, fd, r); return r; } return real(fd); }
int fdatasync(int fd) { static int (*real)(int) = NULL; if (!real) real = dlsym(RTLD_NEXT, "fdatasync");
    if (fd >= 0 && fd < 1024 && watched_fd[fd]) { step++; if (kill_now()) die(); int r = real(fd); logline("{\"a\":\"Sys\",\"n\":%d,\"op\":\"fdatasync\",\"fd\":%d,\"ret\":%d}\n", step, fd, r); return r; } return real(fd); }
int close(int fd) { static int (*real)(int) = NULL; if (!real) real = dlsym(RTLD_NEXT, "close");
    if (fd >= 0 && fd < 1024 && watched_fd[fd]) { step++; if (kill_now()) die(); watched_fd[fd] = 0; int r = real(fd); logline("{\"a\":\"Sys\",\"n\":%d,\"op\":\"close\",\"fd\":%d,\"ret\":%d}\n", step, fd, r); return r; } return real(fd); }
int rename(const char *a, const char *b) { static int (*real)(const char *, const char *) = NULL; if (!real) real = dlsym(RTLD_NEXT, "rename");
    if (is_watched_path(a) || is_watched_path(b)) { step++; if (kill_now()) die(); int r = real(a, b); logline("{\"a\":\"Sys\",\"n\":%d,\"op\":\"rename\",\"from\":\"%s\",\"to\":\"%s\",\"ret\":%d}\n", step, a, b, r); return r; } return real(a, b); }

int unlink(const char *a) { static int (*real)(const char *) = NULL; if (!real) real = dlsym(RTLD_NEXT, "unlink");
    if (is_watched_path(a)) { step++; if (kill_now()) die(); int r = real(a); logline("{\"a\":\"Sys\",\"n\":%d,\"op\":\"unlink\",\"path\":\"%s\",\"ret\":%d}\n", step, a, r); return r; } return real(a); }
int ftruncate(int fd, off_t len) { static int (*real)(int, off_t) = NULL; if (!real) real = dlsym(RTLD_NEXT, "ftruncate");
    if (fd >= 0 && fd < 1024 && watched_fd[fd]) { step++; if (kill_now()) die(); int r = real(fd, len); logline("{\"a\":\"Sys\",\"n\":%d,\"op\":\"ftruncate\",\"fd\":%d,\"len\":%ld,\"ret\":%d}\n", step, fd, (long)len, r); return r; } return real(fd, len); }
